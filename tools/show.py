#!/venv/bin/python
"""show.py <relpath> [qualname ...] : print functions/classes of /repo without docstrings."""
import ast, sys, os
sys.path.insert(0, os.path.dirname(os.path.dirname(os.path.abspath(__file__))))
from sa.core import Program
p = Program()
m = p.module(sys.argv[1])
def strip(n):
    for x in ast.walk(n):
        if isinstance(x, (ast.FunctionDef, ast.ClassDef, ast.Module)) and x.body and isinstance(x.body[0], ast.Expr) and isinstance(x.body[0].value, ast.Constant) and isinstance(x.body[0].value.value, str):
            x.body = x.body[1:] or [ast.Pass()]
    return n
import copy
names = sys.argv[2:]
if not names:
    print(ast.unparse(strip(copy.deepcopy(m.tree))))
for q in names:
    node = m.functions.get(q) or m.classes.get(q)
    if node is None:
        print('## not found', q, 'candidates:', [k for k in list(m.functions)+list(m.classes) if q.split('.')[-1] in k][:20]); continue
    print('## %s:%d %s' % (m.relpath, node.lineno, q))
    print(ast.unparse(strip(copy.deepcopy(node))))
    print()
