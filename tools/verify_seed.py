#!/venv/bin/python
"""verify_seed.py <srcdir> <name> : confirm a candidate seeded defect in a fresh scratch worktree
of /repo and, if it holds, store it under /verif/seeded/<name>/.
Checks: demo exits 0 on the clean tree; patch applies; demo exits != 0 with the patch; the test
files related to the touched modules still pass with the patch."""
import json, os, re, shutil, subprocess, sys, tempfile, glob

src, name = sys.argv[1], sys.argv[2]
extra_tests = sys.argv[3:]
TESTMAP = {
    'np_conserved': ['tests/test_np_conserved.py', 'tests/test_charges.py'],
    'charges': ['tests/test_charges.py', 'tests/test_np_conserved.py'],
    'mps.py': ['tests/test_mps.py'],
    'mpo': ['tests/test_mpo.py'],
    'site': ['tests/test_site.py'],
    'terms': ['tests/test_terms.py'],
    'model.py': ['tests/test_model.py'],
    'lattice': ['tests/test_lattice.py'],
    'cache': ['tests/export_import_test/test_cache.py'],
    'thread': ['tests/export_import_test/test_cache.py'],
    'events': ['tests/test_tools.py'],
    'hdf5_io': ['tests/export_import_test/test_hdf5.py', 'tests/export_import_test/test_pickle.py'],
    'simulation': ['tests/test_simulation.py'],
    'algorithm': ['tests/test_tebd.py', 'tests/test_tdvp.py', 'tests/test_time_evolution.py'],
    'tebd': ['tests/test_tebd.py'],
    'tdvp': ['tests/test_tdvp.py'],
    'mpo_evolution': ['tests/test_time_evolution.py'],
    'truncation': ['tests/test_truncation.py'],
    'krylov': ['tests/test_krylov_based.py'],
    'sparse': ['tests/test_sparse.py'],
    'dmrg': ['tests/test_dmrg.py'],
    'mps_common': ['tests/test_dmrg.py', 'tests/test_mps.py'],
    'vumps': ['tests/test_vumps.py'],
    'exact_diag': ['tests/test_exact_diag.py'],
    'purification': ['tests/test_purification.py'],
    'params': ['tests/test_params.py'],
}
patch = os.path.join(src, 'patch.diff')
demo = os.path.join(src, 'demo.py')
meta = json.load(open(os.path.join(src, 'meta.json')))
touched = re.findall(r'^\+\+\+ b/(\S+)', open(patch).read(), re.M)
tests = list(extra_tests)
for t in touched:
    for k, v in TESTMAP.items():
        if k in t:
            tests += v
tests = sorted(set(tests))
wt = tempfile.mkdtemp(prefix='wt-verify-', dir='/tmp')
os.rmdir(wt)
def sh(cmd, **kw):
    return subprocess.run(cmd, shell=True, capture_output=True, text=True, **kw)
ok = True
log = {}
try:
    r = sh('git -C /repo worktree add -q %s HEAD' % wt); assert r.returncode == 0, r.stderr
    for f in glob.glob('/repo/tenpy/linalg/_npc_helper*.so') + ['/repo/tenpy/linalg/_npc_helper.cpp', '/repo/tenpy/_version.py']:
        if os.path.exists(f):
            shutil.copy(f, os.path.join(wt, os.path.relpath(f, '/repo')))
    shutil.copy(demo, os.path.join(wt, '_demo.py'))
    r = sh('cd %s && timeout 600 /venv/bin/python _demo.py' % wt)
    log['demo_clean_rc'] = r.returncode
    if r.returncode != 0:
        ok = False; log['demo_clean_out'] = (r.stdout + r.stderr)[-600:]
    r = sh('git -C %s apply %s' % (wt, patch))
    if r.returncode != 0:
        ok = False; log['apply'] = r.stderr[-400:]
    else:
        r = sh('cd %s && timeout 600 /venv/bin/python _demo.py' % wt)
        log['demo_patched_rc'] = r.returncode
        log['demo_patched_out'] = (r.stdout + r.stderr)[-400:]
        if r.returncode == 0:
            ok = False
        if tests:
            r = sh('cd %s && timeout 3000 /venv/bin/python -m pytest -q -p no:cacheprovider %s 2>&1 | tail -5' % (wt, ' '.join(tests)))
            log['tests'] = ' '.join(tests)
            log['tests_out'] = r.stdout[-500:]
            if ' failed' in r.stdout or 'error' in r.stdout.lower().split('passed')[0][-200:]:
                ok = False
finally:
    sh('git -C /repo worktree remove --force %s' % wt)
    shutil.rmtree(wt, ignore_errors=True)
print(json.dumps(log, indent=1))
if ok:
    dst = os.path.join('/verif/seeded', name)
    os.makedirs(dst, exist_ok=True)
    shutil.copy(patch, dst); shutil.copy(demo, dst)
    meta['property'] = meta.get('property') or name.split('-')[0]
    meta['verified'] = {'demo_clean_rc': 0, 'demo_patched_rc': log.get('demo_patched_rc'),
                        'tests_run_by_me': log.get('tests'), 'tests_result': log.get('tests_out', '').strip().splitlines()[-1:] }
    json.dump(meta, open(os.path.join(dst, 'meta.json'), 'w'), indent=1)
    print('STORED', dst)
else:
    print('REJECTED', name)
