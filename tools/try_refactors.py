#!/venv/bin/python
"""try_refactors.py <dir-with-patch.diff> ... : behaviour-preserving patches must leave every check
silent (exit 0). Prints FALSE-ALARM lines for checks that fire or break."""
import sys, os, json, shutil, subprocess
from concurrent.futures import ThreadPoolExecutor
sys.path.insert(0, '/verif')
from sa import selftest
props = sorted(f[:-3].upper() for f in os.listdir('/verif/sa/rules') if f.startswith('c') and f[1:-3].isdigit())


def one(sd):
    patch = os.path.join(sd, 'patch.diff')
    if not os.path.exists(patch):
        return sd, None, 'no patch'
    meta = json.load(open(os.path.join(sd, 'meta.json'))) if os.path.exists(os.path.join(sd, 'meta.json')) else {}
    d = selftest._scratch()
    try:
        repo = os.path.join(d, 'repo'); selftest._copy_repo(repo)
        p = subprocess.run(['patch', '-p1', '-s', '-d', repo, '-i', patch], capture_output=True, text=True)
        if p.returncode:
            return sd, None, 'PATCH FAILED ' + p.stdout[:200]
        fired = []
        for pid in props:
            rc, out = selftest.run_check(pid, repo, os.path.join(d, 'out'))
            if rc != 0:
                lines = [l for l in out.splitlines() if l.startswith('tenpy/') or 'ANALYSIS-ERROR' in l]
                fired.append((pid, rc, lines[:3]))
        return sd, fired, '%s | %s' % (meta.get('kind', '')[:50], ','.join(meta.get('functions', []))[:90])
    finally:
        shutil.rmtree(d, ignore_errors=True)


with ThreadPoolExecutor(8) as ex:
    for sd, fired, info in ex.map(one, sys.argv[1:]):
        if fired is None:
            print('%-24s %s' % (sd[-16:], info)); continue
        print('%-24s %s | %s' % (sd[-16:], 'FALSE-ALARM' if fired else 'silent', info))
        for pid, rc, lines in fired:
            print('     ', pid, rc)
            for l in lines:
                print('        ', l[:260])
