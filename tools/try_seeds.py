#!/venv/bin/python
"""try_seeds.py <dir-with-patch.diff> ... : run implemented checks on a scratch copy with the patch"""
import sys, os, json, shutil, subprocess, glob
sys.path.insert(0, '/verif')
from sa import selftest
props = sorted(f[:-3].upper() for f in os.listdir('/verif/sa/rules') if f.startswith('c') and f[1:-3].isdigit())
for sd in sys.argv[1:]:
    patch = os.path.join(sd, 'patch.diff')
    if not os.path.exists(patch):
        print(sd, 'no patch'); continue
    meta = json.load(open(os.path.join(sd, 'meta.json'))) if os.path.exists(os.path.join(sd, 'meta.json')) else {}
    d = selftest._scratch()
    try:
        repo = os.path.join(d, 'repo'); selftest._copy_repo(repo)
        p = subprocess.run(['patch', '-p1', '-s', '-d', repo, '-i', patch], capture_output=True, text=True)
        if p.returncode:
            print(sd, 'PATCH FAILED', p.stdout[:200]); continue
        fired = []
        for pid in props:
            rc, out = selftest.run_check(pid, repo, os.path.join(d, 'out'))
            if rc != 0:
                lines = [l for l in out.splitlines() if l.startswith('tenpy/') or 'ANALYSIS-ERROR' in l]
                fired.append((pid, rc, lines[:2]))
        print('%-22s %s' % (sd[-12:], 'MISSED' if not any(rc == 1 for _, rc, _ in fired) else 'caught'), '|', (meta.get('summary') or '')[:110])
        for pid, rc, lines in fired:
            print('     ', pid, rc, [l[:160] for l in lines])
    finally:
        shutil.rmtree(d, ignore_errors=True)
