#!/venv/bin/python
"""regenerate sa/known_private.py from the current /repo tree (deliberate step, see that file)"""
import json, sys
sys.path.insert(0, '/verif')
from sa.core import Program
prog = Program()
out = {}
for m in prog.all_modules():
    names = sorted({f.name for f in m.functions.values()
                    if f.name.startswith('_') and not f.name.startswith('__')})
    if names:
        out[m.relpath] = names
head = open('/verif/sa/known_private.py').read().split('KNOWN_PRIVATE = ')[0]
open('/verif/sa/known_private.py', 'w').write(
    head + 'KNOWN_PRIVATE = ' + json.dumps(out, indent=1, sort_keys=True).replace('"', "'") + '\n')
print(sum(len(v) for v in out.values()), 'names')
