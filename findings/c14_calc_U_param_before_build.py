"""C14: TEBDEngine.calc_U / ExpMPOEvolution.calc_U store the cache key `_U_param` BEFORE the
consistency check and the construction of the gates. If that raises (delta_t > max_delta_t is an
error by default), the key describes gates that were never built: the next call with the same
parameters is skipped as "cached" and the evolution silently uses the gates of the PREVIOUS time
step, while `evolved_time` advances by the new one.

exit 0: the evolution after the failed attempt uses the requested dt; exit 1: stale gates."""
import sys
import warnings
import numpy as np
from tenpy.models.tf_ising import TFIChain
from tenpy.networks.mps import MPS
from tenpy.algorithms import tebd
from tenpy.algorithms.mpo_evolution import ExpMPOEvolution

warnings.simplefilter('ignore')
M = TFIChain(dict(L=6, J=1., g=1.5, bc_MPS='finite'))


def attempt(Engine, extra, key):
    psi = MPS.from_product_state(M.lat.mps_sites(), ['up'] * 6, bc='finite')
    def opts(**kw):
        return dict(dt=0.05, N_steps=1, trunc_params={'chi_max': 30}, **extra, **kw)
    eng = Engine(psi, M, opts())
    eng.run()                      # builds the gates for dt=0.05
    eng.options['dt'] = 1.5        # larger than the default max_delta_t=1.0
    try:
        eng.run()
        raise SystemExit('expected the consistency check to raise')
    except Exception as e:
        assert 'max_delta_t' in str(e), e
    eng.options[key] = None   # "I know what I am doing": only warn
    eng.run()
    # reference: fresh engine doing the same two steps
    psi2 = MPS.from_product_state(M.lat.mps_sites(), ['up'] * 6, bc='finite')
    ref = Engine(psi2, M, opts(**{key: None}))
    ref.run()
    ref.options['dt'] = 1.5
    ref.run()
    ov = abs(psi.overlap(psi2))
    print('%s: evolved_time %.2f (reference %.2f), |<psi|psi_ref>| = %.6f'
          % (Engine.__name__, eng.evolved_time, ref.evolved_time, ov))
    return abs(ov - 1.) < 1e-8


ok = attempt(tebd.TEBDEngine, dict(order=2), 'max_delta_t')
ok = attempt(ExpMPOEvolution, dict(order=2, compression_method='SVD'), 'max_dt') and ok
sys.exit(0 if ok else 1)
