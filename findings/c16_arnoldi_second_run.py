"""C16: a second Arnoldi.run() on the same instance returned the start vector and a wrong Ritz value
(self._cache still held the basis of the first run)."""
import sys, warnings
warnings.simplefilter('ignore')
import numpy as np
import tenpy.linalg.np_conserved as npc
from tenpy.linalg import krylov_based
rng = np.random.default_rng(1)
n = 16
chinfo = npc.ChargeInfo([2])
leg = npc.LegCharge.from_qflat(chinfo, [[0]] * 6 + [[1]] * 10)
A = rng.normal(size=(n, n)); A = 0.5 * (A + A.T)
q = leg.to_qflat()[:, 0]
Hf = A * np.equal.outer(q, q)
H = npc.Array.from_ndarray(Hf, [leg, leg.conj()], labels=['p', 'p*'])
pf = np.zeros(n); pf[6:] = rng.normal(size=10)
psi = npc.Array.from_ndarray(pf, [leg], qtotal=[1], labels=['p'])
exact = np.linalg.eigvalsh(Hf[6:, 6:])[0]
eng = krylov_based.Arnoldi(H, psi, {'N_max': 12, 'which': 'SR', 'num_ev': 1})
ok = True
for r in range(3):
    E, psis, N = eng.run()
    v = psis[0].to_ndarray()
    res = np.linalg.norm(Hf @ v - E[0] * v)
    print('run %d: N=%d E=%.12f exact=%.12f residual=%.2e' % (r, N, E[0].real, exact, res))
    ok = ok and abs(E[0] - exact) < 1e-8 and res < 1e-6
print('OK' if ok else 'DEFECT: Arnoldi.run() is wrong from the second call on')
sys.exit(0 if ok else 1)
