"""C17: save/load round trips that fail on the unrepaired tree (each is one known defect)."""
import io, sys, warnings, tempfile, os
import numpy as np
import h5py
warnings.simplefilter('ignore')
from tenpy.tools import hdf5_io
from tenpy.linalg import charges, np_conserved as npc
from tenpy.models import lattice
from tenpy.networks.site import SpinHalfSite

fails = []
def roundtrip(name, obj, fmt=None, check=None):
    fn = os.path.join(tempfile.mkdtemp(), 'x.h5')
    try:
        with h5py.File(fn, 'w') as f:
            hdf5_io.Hdf5Saver(f, fmt).save(obj, '/')
        with h5py.File(fn, 'r') as f:
            obj2 = hdf5_io.load_from_hdf5(f)
        if check is not None:
            check(obj2)
        print('OK   ', name)
    except Exception as e:
        print('FAIL ', name, '->', type(e).__name__, str(e)[:100])
        fails.append(name)

ch = charges.ChargeInfo([1], ['N'])
l1 = charges.LegCharge.from_qflat(ch, [[0], [1], [1], [2]])
pipe = charges.LegPipe([l1, l1.conj()])
roundtrip('LegPipe, LegCharge format flat', pipe, {'LegCharge': 'flat'}, lambda p: p.test_equal(pipe))
dch = charges.DipolarChargeInfo([1, 1], ['N', 'P'], [0], [1], [0])
roundtrip('DipolarChargeInfo', dch, None, lambda d: d.test_sanity())
s = SpinHalfSite(None)
reg = lattice.Square(4, 2, s, bc=['periodic', -1], bc_MPS='infinite')
hel = lattice.HelicalLattice(reg, 2)
roundtrip('HelicalLattice', hel, None, lambda h: (h.test_sanity(), h.regular_lattice))
irr = lattice.IrregularLattice(lattice.Chain(4, s), remove=[[1, 0]])
roundtrip('IrregularLattice(remove only)', irr, None, lambda h: h.test_sanity())

class WithListItems(list):
    def __reduce__(self):
        return (WithListItems, (), None, list(self))
glob_obj = WithListItems(); glob_obj.extend([1, 2, 3])
import __main__
__main__.WithListItems = WithListItems
def chk(o):
    assert list(o) == [1, 2, 3], 'items %r' % list(o)
roundtrip('pickle-protocol fallback with listitems', glob_obj, None, chk)
class G:
    def __reduce__(self):
        return 'THE_G'
THE_G = G(); __main__.THE_G = THE_G; G.__module__ = '__main__'; G.__qualname__ = 'G'
THE_G.__module__ = '__main__'; THE_G.__qualname__ = 'THE_G'
def chk_g(o):
    assert o['g'] is THE_G
roundtrip('object whose __reduce__ returns a global name', {'g': THE_G}, None, chk_g)
print('failures:', fails)
sys.exit(1 if fails else 0)
