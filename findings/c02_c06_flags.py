"""C02/C06: stale sorted flags (LegPipe.outer_conj, LegCharge.from_qdict), outer_conj direction,
Array.change_charge leaves qtotal un-reduced."""
import sys
import numpy as np
from tenpy.linalg import charges, np_conserved as npc
fails = []
ch = charges.ChargeInfo([1], ['N'])
l1 = charges.LegCharge.from_qflat(ch, [[0], [1], [2]])
l2 = charges.LegCharge.from_qflat(ch, [[0], [3]])
for qconj in (+1, -1):
    pipe = charges.LegPipe([l1, l2], qconj=qconj)
    oc = pipe.outer_conj()
    if oc.sorted != oc.is_sorted():
        fails.append('outer_conj(qconj=%+d): sorted flag %s but is_sorted() %s' % (qconj, oc.sorted, oc.is_sorted()))
    # fusion rule: incoming legs unchanged => effective outgoing charges unchanged
    eff_before = ch.make_valid(pipe.to_qflat() * pipe.qconj)
    eff_after = ch.make_valid(oc.to_qflat() * oc.qconj)
    if not np.array_equal(eff_before, eff_after):
        fails.append('outer_conj(qconj=%+d): effective outgoing charges changed although incoming legs did not' % qconj)
    if oc.qconj != -pipe.qconj:
        fails.append('outer_conj(qconj=%+d): qconj not flipped' % qconj)
leg = charges.LegCharge.from_qdict(ch, {(2,): slice(0, 2), (0,): slice(2, 3), (1,): slice(3, 5)})
if leg.sorted != leg.is_sorted():
    fails.append('from_qdict: sorted flag %s but is_sorted() %s; sort() returns identical leg: %s' % (leg.sorted, leg.is_sorted(), leg.sort()[1] is leg))
a = npc.Array.from_func(np.ones, [l1, l2.conj()], qtotal=[2])
try:
    b = a.change_charge(0, 2, 'parity')
    b.test_sanity()
    if np.any(b.qtotal != ch.__class__([2], ['parity']).make_valid(b.qtotal)):
        fails.append('change_charge: qtotal %s not valid for the new modulus' % b.qtotal)
except Exception as e:
    fails.append('change_charge on tensor with qtotal=[2] -> Z_2: %s %s' % (type(e).__name__, str(e)[:80]))
for f in fails:
    print('DEFECT:', f)
print('OK' if not fails else '%d defects' % len(fails))
sys.exit(1 if fails else 0)
