"""C07: an MPS denotes the state it was built from, in the form it claims. MPS.from_Bflat labels
the given raw tensors with the requested canonical form and placeholder Schmidt values and calls
canonical_form() when a bond is non-trivial -- but only `if res.L > 1`. That guard is right for a
finite chain (one site has no bonds); an INFINITE MPS with a one-site unit cell has the bond between
the copies of the cell: for chi > 1 the state stayed uncanonicalised (norm_test ~ 5, entropy
log(chi) from the placeholder values) while claiming form 'B'. The same tensors on a two-site cell
were handled correctly.
Exit 0 = canonical; exit 1 = defect present."""
import sys
import warnings
import numpy as np
from tenpy.networks.site import SpinHalfSite
from tenpy.networks.mps import MPS

warnings.simplefilter('ignore')
np.random.seed(4)
s = SpinHalfSite(conserve=None)
B = np.random.standard_normal((2, 3, 3))
ok = True
for L in (1, 2):
    psi = MPS.from_Bflat([s] * L, [B] * L, bc='infinite')
    err = np.linalg.norm(psi.norm_test())
    S = psi.entanglement_entropy()[0]
    print('L=%d: norm_test = %.2e, entropy on bond 0 = %.4f' % (L, err, S))
    ok = ok and err < 1e-10
sys.exit(0 if ok else 1)
