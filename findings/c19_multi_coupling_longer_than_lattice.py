"""C19: the couplings enumerated for a displacement are exactly the tuples of existing sites
separated by it. For a displacement longer than an OPEN direction of the lattice there are none:
possible_couplings returns the empty list, but possible_multi_couplings only tested the coupling
shape for == 0; the shape `L - box` is negative there and np.indices raised
ValueError('negative dimensions are not allowed') (e.g. dx=[3, 0] on a 2x4 square lattice).
Exit 0 = empty enumeration like the pair version; exit 1 = defect present."""
import sys
import warnings
warnings.simplefilter('ignore')
from tenpy.models.lattice import Square
from tenpy.networks.site import SpinHalfSite

lat = Square(2, 4, SpinHalfSite(None), bc='open', bc_MPS='finite')
ok = True
for dx in ([1, 0], [2, 0], [3, 0], [0, 3], [0, 5]):
    pair = lat.possible_couplings(0, 0, dx)
    n_pair = len(pair[0])
    try:
        multi = lat.possible_multi_couplings([('A', [0, 0], 0), ('B', dx, 0)])
        n_multi = len(multi[0])
    except ValueError as e:
        print('DEFECT: dx=%s possible_multi_couplings raises ValueError: %s' % (dx, e))
        ok = False
        continue
    print('dx=%s: %d pair couplings, %d multi couplings' % (dx, n_pair, n_multi))
    ok = ok and n_pair == n_multi
sys.exit(0 if ok else 1)
