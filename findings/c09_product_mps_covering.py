"""C09: MPS.from_product_mps_covering places the sites of a local MPS at the positions given by
index_map. It sorts each local MPS with permute_sites(argsort(ind_map)), relying on the
DOCUMENTED meaning `psi.permute_sites(perm)[i] = psi[perm[i]]`, while permute_sites implements
(and tests/test_mps.py::test_mps_swap checks) the inverse, `new[perm[i]] = old[i]`. For an
index map whose sorting permutation is not an involution the sites land in the wrong places.
Exit 0 = sites where index_map says; exit 1 = defect present."""
import os, sys, warnings, itertools
sys.path.insert(0, os.getcwd())
warnings.simplefilter('ignore')
import numpy as np
from tenpy.networks.site import SpinSite
from tenpy.networks.mps import MPS

s = SpinSite(1.0, conserve='Sz')
local = MPS.from_product_state([s] * 3, ['up', '0.0', 'down'], unit_cell_width=3)   # Sz = 1, 0, -1
bad = []
for ind_map in itertools.permutations(range(3)):
    psi = MPS.from_product_mps_covering([local], [list(ind_map)], unit_cell_width=3)
    got = np.round(psi.expectation_value('Sz')).astype(int).tolist()
    want = [None] * 3
    for j, i in enumerate(ind_map):
        want[i] = [1, 0, -1][j]
    if got != want:
        bad.append((ind_map, got, want))
# the documented meaning of permute_sites itself
doc_bad = []
for perm in itertools.permutations(range(3)):
    phi = local.copy()
    phi.permute_sites(list(perm))
    got = np.round(phi.expectation_value('Sz')).astype(int).tolist()
    doc = MPS.permute_sites.__doc__
    if 'permute_sites(perm)[perm[i]] = psi[i]' in doc:               # new[perm[i]] = old[i]
        as_documented = [None] * 3
        for i in range(3):
            as_documented[perm[i]] = [1, 0, -1][i]
    else:                                                            # new[i] = old[perm[i]]
        assert 'permute_sites(perm)[i] = psi[perm[i]]' in doc
        as_documented = [[1, 0, -1][perm[i]] for i in range(3)]
    if got != as_documented:
        doc_bad.append((perm, got, as_documented))
for b in bad:
    print('DEFECT from_product_mps_covering: index_map %s gives Sz %s, expected %s' % b)
for b in doc_bad:
    print('DEFECT permute_sites docstring: perm %s gives Sz %s, documented %s' % b)
print('OK' if not bad and not doc_bad else 'defects: covering %d, docstring %d' % (len(bad), len(doc_bad)))
sys.exit(1 if bad or doc_bad else 0)
