"""C18: a *sequential* simulation (run_seq_simulations) that is interrupted and resumed from its
checkpoint must continue with the remaining parameter values and finish like the uninterrupted
run. Exit 0 = it does; exit 1 = defect present."""
import os, sys; sys.path.insert(0, os.getcwd())
import logging, tempfile, warnings
import numpy as np
import tenpy
from tenpy.simulations.simulation import run_seq_simulations, resume_from_checkpoint
from tenpy.tools import hdf5_io

tenpy.tools.misc.skip_logging_setup = True
warnings.simplefilter('ignore')
logging.disable(logging.CRITICAL)


class Crash(Exception):
    pass


ARMED = [False]
COUNT = [0]


def crash_in_second(algorithm):
    # dies at the first checkpoint of the SECOND simulation (Jz = 1.5); the checkpoint is on disk
    if ARMED[0] and abs(algorithm.model.options['Jz'] - 1.5) < 1e-12:
        raise Crash()


def params(directory):
    return dict(
        sequential={'recursive_keys': ['model_params.Jz'], 'value_lists': [[1.0, 1.5, 2.0]]},
        simulation_class='GroundStateSearch',
        directory=directory,
        output_filename_params={'prefix': 'gs', 'parts': {'model_params.Jz': 'Jz_{0:.1f}'}, 'suffix': '.pkl'},
        model_class='SpinChain',
        model_params={'L': 6, 'S': 0.5, 'bc_MPS': 'finite', 'Jx': 1.0, 'Jy': 1.0, 'Jz': 1.0, 'conserve': 'Sz'},
        initial_state_params={'method': 'lat_product_state', 'product_state': [['up'], ['down']]},
        algorithm_class='TwoSiteDMRGEngine',
        algorithm_params={'mixer': False, 'trunc_params': {'chi_max': 8, 'svd_min': 1.0e-12},
                          'min_sweeps': 4, 'max_sweeps': 4, 'max_E_err': 1.0e-30},
        save_every_x_seconds=0.0,
        connect_algorithm_checkpoint=[('__main__', 'crash_in_second', {}, -200)],
    )


def main():
    cwd = os.getcwd()
    with tempfile.TemporaryDirectory() as tmp:
        d_ref = os.path.join(tmp, 'ref')
        ref = run_seq_simulations(**params(d_ref))
        os.chdir(cwd)
        E_ref = {fn: hdf5_io.load(os.path.join(d_ref, fn))['energy'] for fn in sorted(os.listdir(d_ref))
                 if fn.endswith('.pkl')}
        assert len(E_ref) == 3, E_ref
        ARMED[0] = True
        d_int = os.path.join(tmp, 'int')
        try:
            run_seq_simulations(**params(d_int))
        except Crash:
            pass
        else:
            raise AssertionError('expected the simulated crash')
        os.chdir(cwd)
        ARMED[0] = False
        files = sorted(fn for fn in os.listdir(d_int) if fn.endswith('.pkl'))
        chk = [fn for fn in files if not hdf5_io.load(os.path.join(d_int, fn))['finished_run']]
        assert len(chk) == 1, (files, chk)
        try:
            resume_from_checkpoint(filename=os.path.join(d_int, chk[0]))
        except TypeError as e:
            print('DEFECT: resuming the sequential simulation raises TypeError:', e)
            return 1
        os.chdir(cwd)
        E_res = {fn: hdf5_io.load(os.path.join(d_int, fn))['energy'] for fn in sorted(os.listdir(d_int))
                 if fn.endswith('.pkl')}
        if sorted(E_res) != sorted(E_ref):
            print('DEFECT: output files differ', sorted(E_res), sorted(E_ref))
            return 1
        for fn in E_ref:
            if abs(E_ref[fn] - E_res[fn]) > 1e-8:
                print('DEFECT: energies differ for', fn, E_ref[fn], E_res[fn])
                return 1
    print('OK')
    return 0


if __name__ == '__main__':
    sys.exit(main())
