"""C10: NearestNeighborModel.bond_energies for infinite chains evaluates H_bond[i] (the bond
(i-1, i)) on the sites (i, i+1): wrong for unit cells that are not translation invariant."""
import sys, warnings
warnings.simplefilter('ignore')
import numpy as np
from tenpy.models.spins import SpinChain
from tenpy.networks.mps import MPS
M = SpinChain(dict(L=3, S=0.5, Jx=0., Jy=0., Jz=0., hz=np.array([1., 10., 100.]), bc_MPS='infinite',
                   conserve='Sz'))
psi = MPS.from_product_state(M.lat.mps_sites(), ['up', 'down', 'down'], bc='infinite')
E_mpo = M.H_MPO.expectation_value(psi) * 3            # energy per unit cell
Eb = M.bond_energies(psi)
# the documented meaning: E_bond[i] = <H_bond[i]> on sites (i-1, i)
ref = [psi.expectation_value_multi_sites if False else None]
ref = []
for i in range(3):
    op = M.H_bond[i]
    ref.append(psi.expectation_value([op], sites=[i - 1], axes=(['p0', 'p1'], ['p0*', 'p1*']))[0])
print('bond_energies      :', np.round(Eb, 6), ' sum', round(float(np.sum(Eb)), 6))
print('<H_bond[i]> (i-1,i):', np.round(ref, 6), ' sum', round(float(np.sum(ref)), 6))
print('energy from the MPO:', round(float(E_mpo), 6))
ok = np.allclose(Eb, ref) and abs(np.sum(Eb) - E_mpo) < 1e-10
print('OK' if ok else 'DEFECT: bond_energies is shifted by one bond on infinite chains')
sys.exit(0 if ok else 1)
