"""C17: a finite MPS with a single site cannot be saved to HDF5 (np.max of the empty list of
non-trivial bond dimensions).  Exit 0 if the round trip reproduces the state."""
import os, sys, tempfile
sys.path.insert(0, os.getcwd())
import numpy as np, h5py
from tenpy.networks.mps import MPS
from tenpy.networks.site import SpinHalfSite
from tenpy.tools import hdf5_io

s = SpinHalfSite('Sz')
psi = MPS.from_product_state([s], ['up'], bc='finite')
try:
    with tempfile.TemporaryDirectory() as d:
        fn = os.path.join(d, 'x.h5')
        with h5py.File(fn, 'w') as f:
            hdf5_io.save_to_hdf5(f, {'psi': psi})
        with h5py.File(fn, 'r') as f:
            psi2 = hdf5_io.load_from_hdf5(f)['psi']
    ok = abs(psi2.overlap(psi) - 1.) < 1.e-12 and psi2.L == 1
    msg = 'loaded state differs'
except ValueError as e:
    ok, msg = False, 'save raises ValueError: %s' % e
print('OK' if ok else 'FAIL: ' + msg)
sys.exit(0 if ok else 1)
