"""C18: a resumed run must give what the uninterrupted run gives. Simulation.resume_run()
returns the results dict (resume_from_checkpoint hands it on), but the override
TimeDependentCorrelation.resume_run calls super().resume_run() and drops the return value: a
resumed correlation-function simulation returns None.
Exit 0 = results returned; exit 1 = defect present."""
import os, sys, ast, inspect, textwrap
sys.path.insert(0, os.getcwd())
import warnings; warnings.simplefilter('ignore')
from tenpy.simulations.simulation import Simulation
from tenpy.simulations.time_evolution import TimeDependentCorrelation


class Probe(TimeDependentCorrelation):
    """run the real resume_run of TimeDependentCorrelation on top of a stub of the base class"""
    def __init__(self):
        self.psi_ground_state = object()
        self.results = {'finished_run': True}


sentinel = {'finished_run': True, 'measurements': {}}
orig = Simulation.resume_run
Simulation.resume_run = lambda self: sentinel
try:
    got = Probe().resume_run()
finally:
    Simulation.resume_run = orig
print('OK' if got is sentinel else 'DEFECT: TimeDependentCorrelation.resume_run() returned %r' % (got,))
sys.exit(0 if got is sentinel else 1)
