"""C10 / C12: all ways of stating a term give the same operator. add_multi_coupling(..,
op_string=X) documents that X is put on the sites between the operators. For operators that need no
Jordan-Wigner string MultiCouplingTerms.multi_coupling_term_handle_JW replaced an EXPLICIT op_string
by 'Id' (the two-site version coupling_term_handle_JW keeps it): the string was silently dropped.
Exit 0 = the MPO contains the string; exit 1 = defect present."""
import sys
import warnings
import numpy as np
from tenpy.models.lattice import Chain
from tenpy.models.model import CouplingMPOModel
from tenpy.networks.site import SpinHalfSite
from tenpy.networks.mps import MPS

warnings.simplefilter('ignore')


class M(CouplingMPOModel):
    def init_sites(self, p):
        return SpinHalfSite(None)

    def init_lattice(self, p):
        return Chain(5, self.init_sites(p), bc='open', bc_MPS='finite')

    def init_terms(self, p):
        if p['multi']:
            self.add_multi_coupling(1., [('Sigmax', [0], 0), ('Sigmax', [2], 0), ('Sigmax', [4], 0)],
                                    op_string='Sigmaz')
        else:   # the same operator, spelled out site by site
            self.add_multi_coupling(1., [('Sigmax', [0], 0), ('Sigmaz', [1], 0), ('Sigmax', [2], 0),
                                         ('Sigmaz', [3], 0), ('Sigmax', [4], 0)])


Hs = [M({'multi': flag}).H_MPO for flag in (True, False)]
s = SpinHalfSite(None)
vals = []
for H in Hs:
    # <x-polarised, z up on the string sites| H |..> distinguishes Id from Sigmaz on sites 1, 3
    psi = MPS.from_product_state([s] * 5, [np.array([1., 1.]) / 2**0.5, 'up', np.array([1., 1.]) / 2**0.5, 'down', np.array([1., 1.]) / 2**0.5], bc='finite')
    vals.append(H.expectation_value(psi))
print('with op_string: %.4f   spelled out: %.4f' % tuple(vals))
sys.exit(0 if abs(vals[0] - vals[1]) < 1e-12 else 1)
