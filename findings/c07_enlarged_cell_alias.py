"""C07: enlarge_mps_unit_cell() stores the SAME tensor object at sites i and i+L (get_B(form=None)
returns the stored tensor). canonical_form_infinite1 corrected the norm with the in-place
`self._B[i1] /= sqrt(norm)`, which hits both sites, while psi.norm was multiplied by sqrt(norm)
once: with renormalize=False the norm of the state is tracked wrongly.
Exit 0 = same norm as for an enlarged state with independent copies; exit 1 = defect present."""
import os, sys, warnings
sys.path.insert(0, os.getcwd())
warnings.simplefilter('ignore')
import logging; logging.disable(logging.CRITICAL)
import numpy as np
from tenpy.networks.mps import MPS
from tenpy.models.tf_ising import TFIChain
from tenpy.algorithms import tebd

M = TFIChain({'L': 2, 'J': 1., 'g': 1.3, 'bc_MPS': 'infinite', 'conserve': None})
psi = MPS.from_product_state(M.lat.mps_sites(), ['up', 'up'], bc='infinite', unit_cell_width=2)
eng = tebd.TEBDEngine(psi, M, {'order': 2, 'delta_tau_list': [0.1], 'N_steps': 10,
                              'trunc_params': {'chi_max': 8, 'svd_min': 1e-10}})
eng.run_GS()
psi.norm = 1.


def noncanonical(p):
    p = p.copy()
    p.set_B(0, p.get_B(0, form=None) * 1.7, form=None)     # not normalised, forms unknown
    p.form = [None] * p.L
    return p


a = noncanonical(psi)
a.enlarge_mps_unit_cell(2)
shared = a._B[0] is a._B[2]
b = noncanonical(psi)
b.enlarge_mps_unit_cell(2)
b._B = [B.copy() for B in b._B]                             # same state, independent tensors
a.canonical_form(renormalize=False)
b.canonical_form(renormalize=False)
print('tensors shared after enlarge: %s; norm with shared tensors %.6f, with copies %.6f' % (shared, a.norm, b.norm))
ok = abs(a.norm - b.norm) < 1e-9 * abs(b.norm)
print('OK' if ok else 'DEFECT: norm tracked wrongly (ratio %.4f)' % (b.norm / a.norm))
sys.exit(0 if ok else 1)
