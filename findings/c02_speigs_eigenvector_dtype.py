"""C02 / C05: every tensor returned by a public operation passes its own sanity check. npc.speigs
wraps scipy.sparse.linalg.eigs; for a real NON-symmetric matrix the eigenvectors are complex, but
each returned vector was declared with `dtype=a.dtype` (float64) while holding a complex block:
test_sanity raised 'wrong dtype', and the dtype claim is what later operations trust.
Exit 0 = eigenvectors sane and A v = w v; exit 1 = defect present."""
import sys
import warnings
import numpy as np
import tenpy.linalg.np_conserved as npc

warnings.simplefilter('ignore')
np.random.seed(3)
ch = npc.ChargeInfo([1])
leg = npc.LegCharge.from_qflat(ch, [0] * 6 + [1] * 5).bunch()[1]
a = npc.Array.from_func(np.random.standard_normal, [leg, leg.conj()])
W, V = npc.speigs(a, charge_sector=[0], k=2, which='LM')
ad = a.to_ndarray()
ok = True
for w, v in zip(W, V):
    try:
        v.test_sanity()
    except ValueError as e:
        print('DEFECT: eigenvector fails test_sanity:', e)
        ok = False
        continue
    vd = v.to_ndarray()
    ok = ok and np.allclose(ad @ vd, w * vd) and v.dtype == vd.dtype
print('eigenvalues', np.round(W, 4), 'ok' if ok else '')
sys.exit(0 if ok else 1)
