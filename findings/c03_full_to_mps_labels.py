"""C03: ExactDiag.full_to_mps(psi) is not an in-place operation, but calls psi.iset_leg_labels(..)
on its argument when psi lives on the full (piped) Hilbert space: the caller's vector comes back
with another leg label. Exit 0 = argument unchanged; exit 1 = defect present."""
import os, sys, warnings
sys.path.insert(0, os.getcwd())
warnings.simplefilter('ignore')
import numpy as np
from tenpy.models.xxz_chain import XXZChain
from tenpy.algorithms.exact_diag import ExactDiag

M = XXZChain({'L': 4, 'Jxx': 1., 'Jz': 1., 'hz': 0., 'bc_MPS': 'finite'})
ED = ExactDiag(M)
ED.build_full_H_from_mpo()
ED.full_diagonalization()
E, psi = ED.groundstate()
before = (list(psi.get_leg_labels()), psi.to_ndarray().copy())
mps = ED.full_to_mps(psi)
after = (list(psi.get_leg_labels()), psi.to_ndarray())
ok = before[0] == after[0] and np.array_equal(before[1], after[1])
print('labels before %s, after %s' % (before[0], after[0]))
print('OK' if ok else 'DEFECT: full_to_mps changed its argument')
sys.exit(0 if ok else 1)
