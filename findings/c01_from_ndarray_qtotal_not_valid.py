"""C01: tensors over Z_N charges. Array.from_ndarray(flat, legs, qtotal=q) stored make_valid(q) as
total charge but compared the (valid) block charges with the RAW argument q: an equivalent
representative of the charge (qtotal=[-2] for Z_3, which is [1]) matched no block and raised
ValueError('wrong sector with non-zero entries').
Exit 0 = same tensor for equivalent representatives; exit 1 = defect present."""
import sys
import warnings
import numpy as np
import tenpy.linalg.np_conserved as npc

warnings.simplefilter('ignore')
np.random.seed(0)
ch = npc.ChargeInfo([3], ['Z3'])
leg = npc.LegCharge.from_qflat(ch, [0, 1, 2, 2])
ref = npc.Array.from_func(np.random.standard_normal, [leg, leg.conj()], qtotal=[1])
flat = ref.to_ndarray()
ok = True
for q in ([1], [-2], [4]):
    try:
        a = npc.Array.from_ndarray(flat, [leg, leg.conj()], qtotal=q)
        same = np.allclose(a.to_ndarray(), flat) and np.all(a.qtotal == ref.qtotal)
        print('qtotal=%s -> stored %s, equal: %s' % (q, a.qtotal, same))
        ok = ok and same
    except ValueError as e:
        print('DEFECT: qtotal=%s raises ValueError: %s' % (q, e))
        ok = False
sys.exit(0 if ok else 1)
