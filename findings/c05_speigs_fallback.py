"""C05 (tenpy/tools/math.py): speigs / speigsh fall back to a dense diagonalisation when k >= d-1.
With return_eigenvectors=False they compute `keep = argsort(W, which)[:k]` and then return the
FULL, unselected spectrum W instead of W[keep]: d values in the wrong order instead of the k
requested ones. Exit 0 = the k selected eigenvalues are returned; exit 1 = defect present."""
import os, sys, warnings
sys.path.insert(0, os.getcwd())
warnings.simplefilter('ignore')
import numpy as np
from tenpy.tools.math import speigs, speigsh

rng = np.random.RandomState(0)
A = rng.normal(size=(4, 4))
H = A + A.T
bad = []
for name, fn, mat, ref in (('speigsh', speigsh, H, np.linalg.eigvalsh(H)),
                           ('speigs', speigs, A, np.linalg.eigvals(A))):
    for k, which in ((3, 'LM'), (3, 'SM'), (4, 'LM')):
        W = np.asarray(fn(mat, k, which=which, return_eigenvectors=False))
        Wv = np.asarray(fn(mat, k, which=which)[0])              # sibling branch with eigenvectors
        if W.shape != (k,) or not np.allclose(np.sort_complex(W), np.sort_complex(Wv)):
            bad.append((name, k, which, W.shape, Wv.shape))
for b in bad:
    print('DEFECT: %s(k=%d, which=%s, return_eigenvectors=False) returns shape %s, with eigenvectors %s' % b)
print('OK' if not bad else '%d cases' % len(bad))
sys.exit(1 if bad else 0)
