"""C17: a numpy masked array whose unmasked elements all equal its fill_value is saved in the compact
format (data only) and comes back fully masked: save_masked_array tests np.any(... == mask) where
the compact format needs (filled == fill_value) == mask for EVERY element.
Exit 0 = all masked arrays round-trip; exit 1 = defect present."""
import os, sys, tempfile, warnings
sys.path.insert(0, os.getcwd())
warnings.simplefilter('ignore')
import numpy as np
import h5py
from tenpy.tools import hdf5_io

cases = [
    np.ma.MaskedArray([999999, 999999]),                       # nothing masked, all == fill_value
    np.ma.MaskedArray([1, 2, 3], mask=[False, True, False]),
    np.ma.MaskedArray([999999, 5], mask=[False, True]),        # unmasked element equals fill_value
    np.ma.MaskedArray([1.5, 2.5]),
    np.ma.MaskedArray([7, 7], fill_value=7),
    np.ma.MaskedArray([7, 8], mask=[True, True], fill_value=7),
]
fn = os.path.join(tempfile.mkdtemp(), 'm.h5')
bad = []
for i, a in enumerate(cases):
    with h5py.File(fn, 'w') as f:
        hdf5_io.save_to_hdf5(f, {'a': a})
    with h5py.File(fn, 'r') as f:
        b = hdf5_io.load_from_hdf5(f)['a']
    same = np.array_equal(np.ma.getmaskarray(a), np.ma.getmaskarray(b)) and \
        np.array_equal(a.filled(), b.filled())
    if not same:
        bad.append((i, a, b))
for i, a, b in bad:
    print('DEFECT: case %d: saved %r, loaded %r' % (i, a, b))
print('OK' if not bad else '%d of %d cases differ' % (len(bad), len(cases)))
sys.exit(1 if bad else 0)
