"""C17: a dict with the empty string as a key cannot be saved: '' counts as a "simple key" (valid
HDF5 path component), so the value is saved under `subpath + ''`, i.e. onto the group of the dict
itself. Exit 0 = round trip equal; exit 1 = defect present."""
import os, sys, tempfile, warnings
sys.path.insert(0, os.getcwd())
warnings.simplefilter('ignore')
import h5py
from tenpy.tools import hdf5_io

data = {'': 1, 'a': [1, 2], 'nested': {'': 'x', 'b': None}}
fn = os.path.join(tempfile.mkdtemp(), 'd.h5')
try:
    with h5py.File(fn, 'w') as f:
        hdf5_io.save_to_hdf5(f, data)
    with h5py.File(fn, 'r') as f:
        back = hdf5_io.load_from_hdf5(f)
except Exception as e:
    print('DEFECT:', type(e).__name__, e)
    sys.exit(1)
print('OK' if back == data else 'DEFECT: %r != %r' % (back, data))
sys.exit(0 if back == data else 1)
