"""C10: MPOModel.calc_H_bond_from_MPO decides whether to add the hermitian conjugate from
`self.explicit_plus_hc`; a plain MPOModel (lattice + MPO) has no such attribute - the flag lives
on the MPO (`H_MPO.explicit_plus_hc`). Converting a plain MPOModel to bond operators
(NearestNeighborModel.from_MPOModel) raises AttributeError.
Exit 0 = bond operators reproduce the MPO (for both values of the MPO's flag); exit 1 = defect."""
import os, sys, warnings
sys.path.insert(0, os.getcwd())
warnings.simplefilter('ignore')
import numpy as np
from tenpy.models.xxz_chain import XXZChain2
from tenpy.models.model import MPOModel, NearestNeighborModel
from tenpy.algorithms.exact_diag import ExactDiag

ok = True
for flag in (False, True):
    M = XXZChain2({'L': 4, 'Jxx': 1.3, 'Jz': 0.7, 'hz': 0.2, 'bc_MPS': 'finite', 'explicit_plus_hc': flag})
    plain = MPOModel(M.lat, M.H_MPO)
    try:
        nn = NearestNeighborModel.from_MPOModel(plain)
    except AttributeError as e:
        print('DEFECT (MPO flag %s): %r' % (flag, e))
        ok = False
        continue
    a = ExactDiag(M); a.build_full_H_from_mpo()
    b = ExactDiag(nn); b.build_full_H_from_bonds()
    d = np.linalg.norm((a.full_H - b.full_H).to_ndarray())
    print('MPO flag %s: |H_mpo - H_bonds| = %.2e' % (flag, d))
    ok = ok and d < 1e-12
print('OK' if ok else 'DEFECT')
sys.exit(0 if ok else 1)
