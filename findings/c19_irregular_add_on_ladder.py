"""C19: IrregularLattice(regular, add=..., add_unit_cell=[site]) without add_positions allocates
the default positions with regular.dim columns; positions live in the embedding space
(basis.shape[1]), which is larger for a Ladder (dim 1, positions 2D): ValueError.
Exit 0 if the lattice can be built and the added site sits at the origin."""
import os, sys
sys.path.insert(0, os.getcwd())
import numpy as np, warnings
warnings.simplefilter('ignore')
from tenpy.models.lattice import Ladder, IrregularLattice
from tenpy.networks.site import SpinHalfSite

s = SpinHalfSite(None)
reg = Ladder(3, s, bc='open', bc_MPS='finite')
try:
    irr = IrregularLattice(reg, add=([[1, 2]], [None]), add_unit_cell=[s])
    ok = irr.N_sites == 7 and np.allclose(irr.unit_cell_positions[2], 0.) and \
        irr.unit_cell_positions.shape == (3, 2)
    msg = 'wrong positions %r' % (irr.unit_cell_positions,)
except ValueError as e:
    ok, msg = False, 'ValueError: %s' % e
print('OK' if ok else 'FAIL: ' + msg)
sys.exit(0 if ok else 1)
