"""C18 / C14: the accumulated truncation error of a time evolution (engine.trunc_err, measured as
`eps_error` by RealTimeEvolution) is not part of the resume data: a run that is interrupted and
resumed restarts the accumulation at zero and reports smaller errors than the uninterrupted run.
Exit 0 = same eps_error series; exit 1 = defect present."""
import os, sys; sys.path.insert(0, os.getcwd())
import logging, tempfile, warnings
import numpy as np
import tenpy
from tenpy.simulations.simulation import run_simulation, resume_from_checkpoint
from tenpy.tools import hdf5_io

tenpy.tools.misc.skip_logging_setup = True
warnings.simplefilter('ignore')
logging.disable(logging.CRITICAL)


class Crash(Exception):
    pass


ARMED = [False]


def crash_at(algorithm):
    if ARMED[0] and abs(algorithm.evolved_time - 0.6) < 1e-9:
        raise Crash()


def params(directory):
    return {
        'simulation_class': 'RealTimeEvolution',
        'directory': directory, 'output_filename': 'evo.pkl',
        'model_class': 'XXZChain',
        'model_params': {'L': 10, 'Jxx': 1., 'Jz': 1., 'hz': 0., 'bc_MPS': 'finite'},
        'initial_state_params': {'method': 'lat_product_state', 'product_state': [['up'], ['down']]},
        'algorithm_class': 'TEBDEngine',
        'algorithm_params': {'dt': 0.1, 'N_steps': 2, 'order': 2,
                             'trunc_params': {'chi_max': 4, 'svd_min': 1e-12}},
        'final_time': 1.2,
        'save_every_x_seconds': 0.0,
        'connect_algorithm_checkpoint': [('__main__', 'crash_at', {}, -200)],
    }


def main():
    cwd = os.getcwd()
    with tempfile.TemporaryDirectory() as tmp:
        ref = run_simulation(**params(os.path.join(tmp, 'ref')))
        os.chdir(cwd)
        ARMED[0] = True
        d = os.path.join(tmp, 'int')
        try:
            run_simulation(**params(d))
        except Crash:
            pass
        else:
            raise AssertionError('expected the simulated crash')
        os.chdir(cwd)
        ARMED[0] = False
        res = resume_from_checkpoint(filename=os.path.join(d, 'evo.pkl'))
        os.chdir(cwd)
    t_ref = np.asarray(ref['measurements']['evolved_time']); e_ref = np.asarray(ref['measurements']['eps_error'])
    t_res = np.asarray(res['measurements']['evolved_time']); e_res = np.asarray(res['measurements']['eps_error'])
    print('times  ', np.round(t_ref.real, 2).tolist(), '/', np.round(t_res.real, 2).tolist())
    print('eps ref', ['%.2e' % x for x in e_ref])
    print('eps res', ['%.2e' % x for x in e_res])
    ok = len(e_ref) == len(e_res) and np.allclose(e_ref, e_res, rtol=1e-6, atol=1e-14) and e_ref[-1] > 1e-8
    print('OK' if ok else 'DEFECT: resumed run reports another accumulated truncation error')
    return 0 if ok else 1


if __name__ == '__main__':
    sys.exit(main())
