"""C10: get_numpy_Hamiltonian / get_scipy_sparse_Hamiltonian of a CouplingModel built with
explicit_plus_hc=True sum the STORED terms only; with that option the model keeps one half of
every hermitian pair (and half of the on-site terms) and the full operator is H_stored + h.c.
The exporters therefore return a non-hermitian half of the Hamiltonian.
Exit 0 = same matrix for both values of explicit_plus_hc; exit 1 = defect present."""
import os, sys, warnings
sys.path.insert(0, os.getcwd())
warnings.simplefilter('ignore')
import numpy as np
from tenpy.models.xxz_chain import XXZChain2
from tenpy.algorithms.exact_diag import get_numpy_Hamiltonian, get_scipy_sparse_Hamiltonian, ExactDiag

pars = {'L': 4, 'Jxx': 1.3, 'Jz': 0.7, 'hz': 0.2, 'bc_MPS': 'finite'}
M0 = XXZChain2(dict(pars, explicit_plus_hc=False))
M1 = XXZChain2(dict(pars, explicit_plus_hc=True))
ed = ExactDiag(M0); ed.build_full_H_from_mpo()
H0 = get_numpy_Hamiltonian(M0)
H1 = get_numpy_Hamiltonian(M1)
S1 = get_scipy_sparse_Hamiltonian(M1).toarray()
ok = True
for name, H in (('dense, explicit_plus_hc=True', H1), ('sparse, explicit_plus_hc=True', S1)):
    d = np.linalg.norm(H - H0)
    herm = np.linalg.norm(H - H.conj().T)
    print('%s: |H - H_ref| = %.3e, |H - H^dagger| = %.3e' % (name, d, herm))
    ok = ok and d < 1e-12 and herm < 1e-12
print('OK' if ok else 'DEFECT: the exporters ignore explicit_plus_hc')
sys.exit(0 if ok else 1)
