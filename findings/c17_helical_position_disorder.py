"""C17: HelicalLattice loses `position_disorder` in an HDF5 round trip.
Exit 0 if the loaded lattice carries the position_disorder of the saved one (save_hdf5 writes it), 1 otherwise."""
import os, sys, tempfile
sys.path.insert(0, os.getcwd())
import numpy as np, h5py
from tenpy.models.lattice import Square, HelicalLattice
from tenpy.networks.site import SpinHalfSite
from tenpy.tools import hdf5_io

reg = Square(4, 3, SpinHalfSite(None), bc=['periodic', -1], bc_MPS='infinite')
lat = HelicalLattice(reg, 2)
rng = np.random.default_rng(1)
lat.position_disorder = 0.1 * rng.normal(size=lat.shape + (2,))
lat.test_sanity()
with tempfile.TemporaryDirectory() as d:
    fn = os.path.join(d, 'x.h5')
    with h5py.File(fn, 'w') as f:
        hdf5_io.save_to_hdf5(f, lat)
    with h5py.File(fn, 'r') as f:
        lat2 = hdf5_io.load_from_hdf5(f)
ok = lat2.position_disorder is not None and np.array_equal(lat2.position_disorder, lat.position_disorder)
print('OK' if ok else 'FAIL: loaded HelicalLattice has position_disorder = %r' % (lat2.position_disorder,))
sys.exit(0 if ok else 1)
