"""C12: term_correlation_function_left loses the Jordan-Wigner string coming from the right term
(has_extra_JW is overwritten before ops_L is recomputed inside the loop)."""
import sys, warnings
warnings.simplefilter('ignore')
import numpy as np
from tenpy.networks.site import FermionSite
from tenpy.networks.mps import MPS
from tenpy.models.fermions_spinless import FermionChain
from tenpy.algorithms import tebd
M = FermionChain(dict(L=6, J=1., V=0.7, mu=0.1, bc_MPS='finite', conserve='N'))
psi = MPS.from_product_state(M.lat.mps_sites(), ['full', 'empty'] * 3, bc='finite')
tebd.TEBDEngine(psi, M, dict(order=2, dt=0.1, N_steps=10, trunc_params=dict(chi_max=30, svd_min=1e-12))).run()
j = 5
# a single-site left term hides the defect (Cd JW == Cd); a two-site term shows it: N JW == -N
tL, tR = [('Cd', 0), ('N', 1)], [('C', 0)]
left = psi.term_correlation_function_left(tL, tR, i_L=[0, 1, 2, 3], j_R=j)
refL = [psi.expectation_value_term([('Cd', i), ('N', i + 1), ('C', j)]) for i in [3, 2, 1, 0]]
right = psi.term_correlation_function_right(tL, tR, i_L=0, j_R=[2, 3, 4, 5])
refR = [psi.expectation_value_term([('Cd', 0), ('N', 1), ('C', jj)]) for jj in [2, 3, 4, 5]]
print('expectation_value_term <Cd_i N_i+1 C_5>, i=3..0:', np.round(refL, 6))
print('term_correlation_function_left                 :', np.round(np.array(left), 6))
print('expectation_value_term <Cd_0 N_1 C_j>, j=2..5  :', np.round(refR, 6))
print('term_correlation_function_right                :', np.round(np.array(right), 6))
ok = np.allclose(left, refL, atol=1e-9) and np.allclose(right, refR, atol=1e-9)
print('OK' if ok else 'DEFECT: term_correlation_function_left disagrees with expectation_value_term for fermions')
sys.exit(0 if ok else 1)
