"""C17: a UniformMPS / MomentumMPS loaded from HDF5 lacks attributes that __init__ binds and other
methods read (diagonal_gauge / dtype): the loaded object raises AttributeError where the saved one
works.  Exit 0 if both loaded objects can be used like the saved ones."""
import os, sys, tempfile
sys.path.insert(0, os.getcwd())
import numpy as np, h5py, warnings
warnings.simplefilter('ignore')
from tenpy.networks.mps import MPS
from tenpy.networks.uniform_mps import UniformMPS
from tenpy.networks.momentum_mps import MomentumMPS
from tenpy.networks.site import SpinHalfSite
from tenpy.tools import hdf5_io

s = SpinHalfSite('Sz')
psi = MPS.from_product_state([s] * 2, ['up', 'down'], bc='infinite')
u = UniformMPS.from_MPS(psi)
mom = MomentumMPS([B.copy() for B in u._AC], u, 0.0, n_sites=1)
with tempfile.TemporaryDirectory() as d:
    fn = os.path.join(d, 'x.h5')
    with h5py.File(fn, 'w') as f:
        hdf5_io.save_to_hdf5(f, {'u': u, 'm': mom})
    with h5py.File(fn, 'r') as f:
        data = hdf5_io.load_from_hdf5(f)
bad = []
try:
    psi2 = data['u'].to_MPS()
    if abs(abs(psi2.overlap(psi)) - 1.) > 1.e-10:
        bad.append('UniformMPS.to_MPS of the loaded state differs')
except AttributeError as e:
    bad.append('UniformMPS: %s' % e)
try:
    m2 = data['m']
    if m2.dtype != mom.dtype:
        bad.append('MomentumMPS dtype differs')
except AttributeError as e:
    bad.append('MomentumMPS: %s' % e)
print('OK' if not bad else 'FAIL: ' + '; '.join(bad))
sys.exit(1 if bad else 0)
