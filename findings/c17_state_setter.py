"""C17: pickle-protocol fallback with a state_setter (6-tuple __reduce__): load_reduce re-binds obj
to the return value of state_setter (None by the pickle protocol) and returns it."""
import os, tempfile, warnings, pickle, sys
import h5py
warnings.simplefilter('ignore')
from tenpy.tools import hdf5_io
import __main__

def setter(obj, state):
    obj.__dict__.update(state)   # returns None, as the pickle protocol specifies
class K:
    def __init__(self, x=0):
        self.x = x
    def __reduce__(self):
        return (K, (), {'x': self.x}, None, None, setter)
__main__.K = K; __main__.setter = setter
k = K(5)
assert pickle.loads(pickle.dumps(k)).x == 5       # plain pickle round-trips
fn = os.path.join(tempfile.mkdtemp(), 'x.h5')
with h5py.File(fn, 'w') as f:
    hdf5_io.save_to_hdf5(f, {'k': k, 'again': k})
with h5py.File(fn, 'r') as f:
    d = hdf5_io.load_from_hdf5(f)
print(d)
ok = isinstance(d['k'], K) and d['k'].x == 5 and d['again'] is d['k']
print('OK' if ok else 'DEFECT: object saved through __reduce__ with state_setter is not reproduced')
sys.exit(0 if ok else 1)
