"""C20: DictCache.__delitem__ leaves the value in short_term_cache."""
from tenpy.tools.cache import DictCache
c = DictCache.trivial()
c.set_short_term_keys('a')
c['a'] = 1
del c['a']
assert 'a' not in c
try:
    v = c['a']
except KeyError:
    print('OK: KeyError after delete')
else:
    print('DEFECT: c["a"] after del returned', v)
    raise SystemExit(1)
