"""C03/C16: KrylovBased.__init__ with E_shift and an OrthogonalNpcLinearOperator wraps
`H.orig_operator` IN PLACE: the caller's operator keeps the shift, so a second solver built on the
same operator is shifted twice and reports E + E_shift."""
import sys, warnings
warnings.simplefilter('ignore')
import numpy as np
import tenpy.linalg.np_conserved as npc
from tenpy.linalg import krylov_based, sparse
rng = np.random.default_rng(3)
n = 12
leg = npc.LegCharge.from_trivial(n)
A = rng.normal(size=(n, n)); A = 0.5 * (A + A.T)
Hn = npc.Array.from_ndarray(A, [leg, leg.conj()], labels=['p', 'p*'])
w, v = np.linalg.eigh(A)
gs = npc.Array.from_ndarray(v[:, 0], [leg], labels=['p'])
H = sparse.OrthogonalNpcLinearOperator(Hn, [gs])          # first excited state
psi0 = npc.Array.from_ndarray(rng.normal(size=n), [leg], labels=['p'])
ok = True
for run in range(3):
    E, psi, N = krylov_based.LanczosGroundState(H, psi0, {'N_max': n, 'E_shift': -10.}).run()
    print('solver %d on the same operator: E = %.8f   exact first excited: %.8f' % (run, E, w[1]))
    ok = ok and abs(E - w[1]) < 1e-8
print('OK' if ok else 'DEFECT: the E_shift of an earlier solver stays in the operator')
sys.exit(0 if ok else 1)
