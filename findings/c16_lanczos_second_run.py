"""C16: the Krylov solvers return Ritz data of the operator they are given -- on every run().
With N_cache < N, _calc_result_full empties the cache and then REBUILDS the Krylov vectors, which
are pushed through the cache again; nothing emptied it afterwards. A second run() on the same
LanczosGroundState / LanczosEvolution object with reortho=True orthogonalised the new vectors
against these stale ones: w collapsed, the run stopped at N=1 and returned psi0 / a wrong energy.
(needs 2 <= N - N_cache - 1 <= N_cache so that stale vectors survive the first pushes)
Exit 0 = second run equals the first; exit 1 = defect present."""
import sys
import warnings
import numpy as np
import scipy.linalg
import tenpy.linalg.np_conserved as npc
from tenpy.linalg.krylov_based import LanczosEvolution, LanczosGroundState

warnings.simplefilter('ignore')
np.random.seed(5)
n = 12
A = np.random.randn(n, n) + 1j * np.random.randn(n, n)
H = A + A.conj().T
leg = npc.LegCharge.from_trivial(n)
Hn = npc.Array.from_ndarray(H, [leg, leg.conj()], labels=['v', 'v*'])


class Op:
    dtype = np.complex128
    acts_on = ['v']

    def matvec(self, x):
        return npc.tensordot(Hn, x, axes=['v*', 'v'])


psi = npc.Array.from_ndarray(np.random.randn(n) + 0j, [leg], labels=['v'])
opts = dict(N_cache=8, reortho=True, P_tol=1e-30, N_min=11, N_max=12)
v0 = psi.to_ndarray() / np.linalg.norm(psi.to_ndarray())
ref = scipy.linalg.expm(-0.5j * H) @ v0
ok = True
eng = LanczosEvolution(Op(), psi, dict(opts))
for k in range(3):
    r, N = eng.run(-0.5j)
    err = np.linalg.norm(r.to_ndarray() - ref)
    print('LanczosEvolution run %d: N=%d, error %.2e' % (k, N, err))
    ok = ok and err < 1e-10
eng = LanczosGroundState(Op(), psi, dict(opts, E_tol=1e-30))
Emin = np.linalg.eigvalsh(H)[0]
for k in range(2):
    E, v, N = eng.run()
    print('LanczosGroundState run %d: N=%d, E0 - Emin = %.2e' % (k, N, E - Emin))
    ok = ok and abs(E - Emin) < 1e-10
sys.exit(0 if ok else 1)
