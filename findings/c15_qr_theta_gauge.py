"""C15: QR-based decomposition of a two-site wave function next to a tensor with non-zero total
charge. _qr_theta_Y0 calls Y0.gauge_total_charge(...), which returns a gauged COPY, and drops the
result: the charge blocks of the new bond leg are not aligned with those of the old one, the
initial guess keeps too few states per block, and the decomposition truncates although chi_max is
far from reached. Exit 0 = the QR-based step is as exact as the SVD-based one; exit 1 = defect."""
import os, sys, warnings
sys.path.insert(0, os.getcwd())
warnings.simplefilter('ignore')
import numpy as np
from tenpy.networks.mps import MPS
from tenpy.models.xxz_chain import XXZChain
from tenpy.algorithms import tebd

L = 8
M = XXZChain({'L': L, 'Jxx': 1., 'Jz': 1., 'hz': 0., 'bc_MPS': 'finite'})
psi0 = MPS.from_product_state(M.lat.mps_sites(), ['up', 'down'] * (L // 2), bc='finite', unit_cell_width=L)
tp = {'chi_max': 100, 'svd_min': 1e-14, 'trunc_cut': None}
eng = tebd.TEBDEngine(psi0, M, {'dt': 0.1, 'N_steps': 30, 'order': 2, 'trunc_params': tp})
eng.run()
bad = []
for site in (3, L - 1):
    phi = psi0.copy()
    phi.apply_local_op(site, 'Sp', unitary=True)   # the tensor of `site` now carries charge 2
    a, b = phi.copy(), phi.copy()
    e_svd = tebd.TEBDEngine(a, M, {'dt': 0.05, 'N_steps': 1, 'order': 2, 'trunc_params': tp})
    e_svd.run()
    e_qr = tebd.QRBasedTEBDEngine(b, M, {'dt': 0.05, 'N_steps': 1, 'order': 2, 'trunc_params': tp,
                                        'cbe_expand': 0.1})
    e_qr.run()
    ov = abs(a.overlap(b))
    print('charged site %d: eps SVD %.2e, eps QR %.2e, 1-|<svd|qr>| = %.2e, chi %s / %s' % (
        site, e_svd.trunc_err.eps, e_qr.trunc_err.eps, 1 - ov, max(a.chi), max(b.chi)))
    if e_qr.trunc_err.eps > 1e-8 + 10 * e_svd.trunc_err.eps or abs(1 - ov) > 1e-6:
        bad.append(site)
print('OK' if not bad else 'DEFECT: QR-based step truncates without need for charged site(s) %s' % bad)
sys.exit(1 if bad else 0)
