"""C17: saving and loading reproduces an equal object. MultiSpeciesLattice inherited
Lattice.save_hdf5 / from_hdf5, which know nothing of the attributes its own __init__ binds
(simple_lattice, N_species, species_names, simple_Lu): the loaded lattice lacked them and its
species methods raised AttributeError.
Exit 0 = the loaded lattice answers like the original; exit 1 = defect present."""
import os
import sys
import tempfile
import warnings
import numpy as np
from tenpy.models.lattice import Square, MultiSpeciesLattice
from tenpy.networks.site import SpinHalfSite
from tenpy.tools import hdf5_io

warnings.simplefilter('ignore')
s = SpinHalfSite(None)
lat = MultiSpeciesLattice(Square(2, 2, None), [s, s], ['a', 'b'])
with tempfile.TemporaryDirectory() as tmp:
    fn = os.path.join(tmp, 'lat.h5')
    hdf5_io.save(lat, fn)
    lat2 = hdf5_io.load(fn)
ok = True
for attr in ('N_species', 'species_names', 'simple_Lu'):
    if not hasattr(lat2, attr) or getattr(lat2, attr) != getattr(lat, attr):
        print('DEFECT: loaded lattice has no / another', attr)
        ok = False
try:
    same = [lat2.self_u_to_species_idx(3), lat2.simple_u_to_species_u(0, 1), lat2.simple_lattice.N_sites] == [
        lat.self_u_to_species_idx(3), lat.simple_u_to_species_u(0, 1), lat.simple_lattice.N_sites]
    ok = ok and same and np.array_equal(lat2.ordering('default'), lat.ordering('default'))
except AttributeError as e:
    print('DEFECT: loaded lattice raises AttributeError:', e)
    ok = False
print('OK' if ok else 'defect present')
sys.exit(0 if ok else 1)
