"""C04 (and C02): the compiled and the pure-Python kernels are observationally equivalent.
`a + b` / `a.iadd_prefactor_other(x, b)` for operands with the same labels in a different order
transposes `b` first. The pure-Python kernel (ibinary_blockwise) transposes, checks the legs and
THEN sorts the block lists; the compiled Array_iadd_prefactor_other checks the legs of the
untransposed operand, sorts both block lists and only then transposes `other` -- the transposed
copy is no longer sorted but is merged as if it were: wrong entries, duplicate blocks for one index
row, and `_qdata_sorted == True` on an unsorted result (its own test_sanity fails).
Runs the same program in both configurations. Exit 0 = both agree with numpy; exit 1 = defect."""
import os
import subprocess
import sys

PROG = r'''
import os, sys, warnings
sys.path.insert(0, os.getcwd())
warnings.simplefilter('ignore')
import numpy as np
import tenpy.linalg.np_conserved as npc
np.random.seed(3)
ch = npc.ChargeInfo([1])
l = npc.LegCharge.from_qflat(ch, [-2, -1, 0, 1, 2])
bad = 0
for trial in range(20):
    a = npc.Array.from_func(np.random.standard_normal, [l, l, l], qtotal=[0], labels=['a', 'b', 'c'])
    b = npc.Array.from_func(np.random.standard_normal, [l, l, l], qtotal=[0], labels=['a', 'b', 'c'])
    for t in (a, b):                                  # remove some blocks
        keep = np.random.random(len(t._data)) < 0.6
        t._data = [d for d, k in zip(t._data, keep) if k]
        t._qdata = t._qdata[keep]
    bt = b.transpose(['b', 'c', 'a'])
    ref = a.to_ndarray() + b.to_ndarray()
    c = a + bt
    ok = np.allclose(c.to_ndarray(), ref)
    try:
        c.test_sanity()
    except Exception as e:
        ok = False
    bad += not ok
print('compiled' if npc.optimize is not None and 'compiled' in str(getattr(npc, 'have_cython_functions', '')) else '', 'bad trials:', bad)
sys.exit(1 if bad else 0)
'''
rcs = {}
for name, env in (('compiled', {}), ('pure python', {'TENPY_NO_CYTHON': '1'})):
    e = dict(os.environ)
    e.update(env)
    p = subprocess.run([sys.executable, '-c', PROG], env=e, capture_output=True, text=True)
    rcs[name] = p.returncode
    print('%-12s rc=%d  %s' % (name, p.returncode, (p.stdout + p.stderr).strip().splitlines()[-1:]))
sys.exit(0 if all(rc == 0 for rc in rcs.values()) else 1)
