"""C13: single-site DMRG with combine=True on a model with explicit_plus_hc=True. The effective
Hamiltonian is wrapped as Sum(H_eff, H_eff.adjoint()); OneSiteH.combine_Heff builds only ONE of
LHeff / RHeff (depending on the direction of the sweep), but OneSiteH.adjoint() conjugated both:
AttributeError. Exit 0 = the engine runs and finds the ground-state energy; exit 1 = defect."""
import os, sys, warnings
sys.path.insert(0, os.getcwd())
warnings.simplefilter('ignore')
import logging; logging.disable(logging.CRITICAL)
import numpy as np
from tenpy.networks.mps import MPS
from tenpy.models.xxz_chain import XXZChain2
from tenpy.algorithms import dmrg
from tenpy.algorithms.exact_diag import ExactDiag

L = 6
res = {}
for flag in (False, True):
    M = XXZChain2({'L': L, 'Jxx': 1., 'Jz': 1.3, 'hz': 0.1, 'bc_MPS': 'finite', 'explicit_plus_hc': flag})
    psi = MPS.from_product_state(M.lat.mps_sites(), ['up', 'down'] * (L // 2), bc='finite', unit_cell_width=L)
    tp = {'chi_max': 30, 'svd_min': 1e-12}
    dmrg.TwoSiteDMRGEngine(psi, M, {'max_sweeps': 2, 'min_sweeps': 2, 'trunc_params': tp}).run()   # grow the bonds
    try:
        eng = dmrg.SingleSiteDMRGEngine(psi, M, {'combine': True, 'mixer': False, 'max_sweeps': 6,
                                                 'trunc_params': tp})
        E, _ = eng.run()
    except AttributeError as e:
        print('DEFECT (explicit_plus_hc=%s): %r' % (flag, e))
        sys.exit(1)
    res[flag] = E
M = XXZChain2({'L': L, 'Jxx': 1., 'Jz': 1.3, 'hz': 0.1, 'bc_MPS': 'finite'})
ed = ExactDiag(M, charge_sector=[0]); ed.build_full_H_from_mpo(); ed.full_diagonalization()
E0 = ed.groundstate()[0]
print('E0 exact %.10f, single-site DMRG %.10f (explicit_plus_hc=False) / %.10f (True)' % (E0, res[False], res[True]))
ok = abs(res[False] - E0) < 1e-8 and abs(res[True] - E0) < 1e-8
print('OK' if ok else 'DEFECT: wrong energy')
sys.exit(0 if ok else 1)
