"""C03: MPS.from_full (not an in-place operation) reorders the legs of the caller's tensor when it
already carries 'vL' and 'vR' labels (segment wave functions, or finite ones with trivial legs)."""
import sys
import numpy as np
import tenpy.linalg.np_conserved as npc
from tenpy.networks.mps import MPS
from tenpy.networks.site import SpinHalfSite
s = SpinHalfSite('Sz')
psi0 = MPS.from_product_state([s] * 3, ['up', 'down', 'up'], bc='finite')
theta = psi0.get_theta(0, 3)                        # labels vL, p0, p1, p2, vR
theta = theta.transpose(['p1', 'vR', 'p0', 'vL', 'p2'])   # the caller's own leg order
before = list(theta.get_leg_labels())
dense = theta.to_ndarray().copy()
MPS.from_full([s] * 3, theta, bc='finite')
after = list(theta.get_leg_labels())
print('labels before:', before)
print('labels after :', after)
ok = before == after and theta.to_ndarray().shape == dense.shape and np.array_equal(theta.to_ndarray(), dense)
print('OK' if ok else 'DEFECT: from_full transposed its operand in place')
sys.exit(0 if ok else 1)
