"""C10 / C11: the MPO of a model and the equality test of MPOs. CouplingModel.calc_H_MPO overwrote
the range that the MPO graph had collected with `ct.max_range()` -- the range of the ordinary
coupling terms only. A model with exponentially decaying couplings (infinite range) got
`H_MPO.max_range == 0`; MPO.is_equal for infinite MPOs compares a window of L + 2 * max_range sites,
contradicting the documented meaning of MPO.max_range (np.inf for exponentially decaying terms),
from which is_equal / expectation_value derive their windows and methods.
Exit 0 = infinite range recorded; exit 1 = defect present."""
import sys
import warnings
import numpy as np
from tenpy.models.lattice import Chain
from tenpy.models.model import CouplingMPOModel
from tenpy.networks.site import SpinHalfSite

warnings.simplefilter('ignore')


class M(CouplingMPOModel):
    def init_sites(self, p):
        return SpinHalfSite(None)

    def init_lattice(self, p):
        return Chain(2, self.init_sites(p), bc='periodic', bc_MPS='infinite')

    def init_terms(self, p):
        self.add_exponentially_decaying_coupling(1., 0.5, 'Sz', 'Sz')
        if p.get('far', False):
            self.add_coupling(0.7, 0, 'Sz', 0, 'Sz', 7)


Hs, Hl = M({}).H_MPO, M({'far': True}).H_MPO
print('max_range of the model with exponentially decaying terms only:', Hs.max_range)
print('max_range with an additional coupling of range 7            :', Hl.max_range)
# documented: "np.inf for infinite ranged (exponentially decaying)"
ok = Hs.max_range == np.inf and Hl.max_range == np.inf
# consumers that derive a window from it see all terms only then
eq = Hs.is_equal(Hl, max_range=Hl.max_range if Hl.max_range < np.inf else 20)
print('Hs.is_equal(Hl) on a window covering the range:', eq, '(the operators differ)')
ok = ok and not eq
sys.exit(0 if ok else 1)
