"""C11: MPO.expectation_value(psi, init_env_data=...) documents `init_env_data` as "Optional
environment data, if known" (needed for a segment MPS), but forwarded it as `**init_env_data` to
expectation_value_finite / expectation_value_TM, which take ONE keyword `init_env_data`: every
non-empty init_env_data raised TypeError, so the expectation value of an MPO on a window with its
environments could not be computed through the documented entry point.
Exit 0 = value agrees with expectation_value_finite; exit 1 = defect present."""
import sys
import warnings
import numpy as np
from tenpy.models.tf_ising import TFIChain
from tenpy.networks.mps import MPS
from tenpy.networks.mpo import MPOEnvironment

warnings.simplefilter('ignore')
M = TFIChain(dict(L=2, J=1., g=1.3, bc_MPS='infinite'))
psi = MPS.from_product_state(M.lat.mps_sites(), ['up', 'up'], bc='infinite')
env = MPOEnvironment(psi, M.H_MPO, psi)
first, last = 0, 5
data = env.get_initialization_data(first, last)
psi_seg = psi.extract_segment(first, last)
H_seg = M.H_MPO.extract_segment(first, last)
ref = H_seg.expectation_value_finite(psi_seg, init_env_data=dict(data))
try:
    val = H_seg.expectation_value(psi_seg, init_env_data=dict(data))
except TypeError as e:
    print('DEFECT: MPO.expectation_value(psi, init_env_data=...) raises TypeError:', e)
    sys.exit(1)
print('expectation_value %.10f  expectation_value_finite %.10f' % (val, ref))
ok = abs(val - ref) < 1e-12
# infinite MPS: the guess for the transfer-matrix method goes through the same entry point
H_inf = M.H_MPO
H_inf.max_range = None
guess = {'init_RP': env.get_RP(1)}
try:
    e_inf = H_inf.expectation_value(psi, init_env_data=guess)
except TypeError as e:
    print('DEFECT: MPO.expectation_value(psi_infinite, init_env_data=...) raises TypeError:', e)
    sys.exit(1)
print('infinite: %.10f (reference %.10f)' % (e_inf, H_inf.expectation_value_TM(psi)))
ok = ok and abs(e_inf - H_inf.expectation_value_TM(psi)) < 1e-8
sys.exit(0 if ok else 1)
