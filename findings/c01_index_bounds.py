"""C01: indexing an Array with an index equal to the size of the leg (one past the end) silently
returned 0.0 / an empty slice where numpy raises IndexError (`>` instead of `>=` in
LegCharge.get_qindex); Array.get_leg_index accepted axis == rank the same way."""
import sys, warnings
warnings.simplefilter('ignore')
import numpy as np
import tenpy.linalg.np_conserved as npc
ch = npc.ChargeInfo([1])
leg = npc.LegCharge.from_qflat(ch, [[0], [1], [1], [2]])
q = leg.to_qflat()[:, 0]
dense = np.arange(16.).reshape(4, 4) * np.equal.outer(q, q)
a = npc.Array.from_ndarray(dense, [leg, leg.conj()])
ok = True
for idx in (3, 4, -4, -5):
    try:
        want = dense[idx, 0]
    except IndexError:
        want = IndexError
    try:
        got = a[idx, 0]
    except IndexError:
        got = IndexError
    print('a[%d, 0]: numpy %s, npc %s' % (idx, want, got))
    ok = ok and (got is want or got == want)
try:
    a.get_leg_index(2)
    print('get_leg_index(2) accepted for rank 2')
    ok = False
except ValueError:
    print('get_leg_index(2) raises for rank 2')
print('OK' if ok else 'DEFECT: index == size is accepted')
sys.exit(0 if ok else 1)
