"""C04 / C01: tensordot(a, b, axes=0) (outer product) with the optimisation level `skip_arg_checks`.
The compiled _tensordot_transpose_axes only compares the shapes `elif axes > 0 and ...`; the
pure-Python twin compares `a.shape[-axes:] != b.shape[:axes]` unconditionally, and for axes == 0
`a.shape[-0:]` is the WHOLE shape: ValueError('Shape mismatch') in the pure-Python configuration.
Runs the same program with and without the compiled extension. Exit 0 = both agree with numpy."""
import os, subprocess, sys, textwrap

PROG = textwrap.dedent('''
    import os, sys
    sys.path.insert(0, os.getcwd())
    import warnings; warnings.simplefilter('ignore')
    import numpy as np
    import tenpy.linalg.np_conserved as npc
    from tenpy.tools import optimization
    a = npc.Array.from_ndarray_trivial(np.arange(6.).reshape(2, 3), labels=['a', 'b'])
    b = npc.Array.from_ndarray_trivial(np.arange(4.).reshape(4), labels=['c'])
    with optimization.temporary_level('skip_arg_checks'):
        c = npc.tensordot(a, b, axes=0)
    ok = np.allclose(c.to_ndarray(), np.tensordot(a.to_ndarray(), b.to_ndarray(), axes=0))
    print('OK' if ok else 'WRONG')
''')
bad = []
for env_extra, name in (({}, 'compiled'), ({'TENPY_NO_CYTHON': 'true'}, 'pure python')):
    env = dict(os.environ, **env_extra)
    r = subprocess.run([sys.executable, '-c', PROG], capture_output=True, text=True, env=env, cwd=os.getcwd())
    out = (r.stdout + r.stderr).strip().splitlines()
    print('%-12s: %s' % (name, out[-1] if out else r.returncode))
    if r.returncode != 0 or 'OK' not in r.stdout:
        bad.append(name)
print('OK' if not bad else 'DEFECT in configuration(s): %s' % bad)
sys.exit(1 if bad else 0)
