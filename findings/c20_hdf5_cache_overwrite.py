"""C20: a cache behaves like a dict. With the HDF5 storage
 (1) assigning a key a second time (`c['a'] = x; c['a'] = y`) raised OSError ("name already
     exists"): Hdf5Storage.save did not remove the old entry (PickleStorage overwrites its file);
 (2) a sub-cache was not registered with its parent and stayed "open" after the parent was closed;
 (3) Hdf5Storage.open(.., subgroup=g) on a file that already contains g did `subgroup[f]`.
Exit 0 = dict behaviour; exit 1 = defect present."""
import os
import sys
import tempfile
import warnings
import numpy as np
from tenpy.tools.cache import CacheFile, Hdf5Storage

warnings.simplefilter('ignore')
ok = True
with tempfile.TemporaryDirectory() as tmp:
    for storage in ('PickleStorage', 'Hdf5Storage'):
        fn = os.path.join(tmp, 'c_' + storage + ('.h5' if 'Hdf5' in storage else ''))
        kw = dict(directory=fn) if storage == 'PickleStorage' else dict(filename=fn)
        with CacheFile.open(storage_class=storage, use_threading=False, delete=True, **kw) as c:
            try:
                c['a'] = np.arange(3)
                c['a'] = np.arange(4)
                val = c['a']
                good = len(val) == 4
            except OSError as e:
                print('DEFECT: %s: second assignment of a key raises OSError: %s' % (storage, str(e)[:60]))
                good = False
            sub = c.create_subcache('sub')
            sub['x'] = 1
        closed = not bool(sub.long_term_storage)
        print('%-14s overwrite ok: %s   sub-cache closed with parent: %s' % (storage, good, closed))
        ok = ok and good and closed
    fn = os.path.join(tmp, 'again.h5')
    st = Hdf5Storage.open(fn, subgroup='grp', mode='w', delete=False)
    st.close()
    try:
        st = Hdf5Storage.open(fn, subgroup='grp', mode='a', delete=False)
        st.close()
        print('re-opening an existing subgroup: ok')
    except TypeError as e:
        print('DEFECT: re-opening an existing subgroup raises TypeError:', e)
        ok = False
sys.exit(0 if ok else 1)
