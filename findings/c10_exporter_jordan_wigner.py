"""C10: all representations of a model Hamiltonian are the same operator. The dense / sparse
exporters for CouplingModels (get_numpy_Hamiltonian, get_scipy_sparse_Hamiltonian) build the matrix
from the term list of the couplings; CouplingTerms.to_TermList() drops the operator strings, and the
exporter put the identity between the two operators: for a fermionic coupling of range >= 2 (and
for the on-site factor `op_i JW`) the Jordan-Wigner string was missing, the matrix differed from the
one of the MPO.
Exit 0 = the exported matrix equals the MPO-based one; exit 1 = defect present."""
import sys
import warnings
import numpy as np
from tenpy.models.lattice import Chain
from tenpy.models.model import CouplingMPOModel
from tenpy.networks.site import FermionSite, SpinHalfFermionSite
from tenpy.algorithms import exact_diag as ed

warnings.simplefilter('ignore')


class M(CouplingMPOModel):
    def init_sites(self, p):
        return SpinHalfFermionSite(None, None) if p.get('spinful', False) else FermionSite(None)

    def init_lattice(self, p):
        return Chain(p.get('L', 4), self.init_sites(p), bc='open', bc_MPS='finite')

    def init_terms(self, p):
        if p.get('spinful', False):
            self.add_coupling(1., 0, 'Cdu', 0, 'Cu', 2, plus_hc=True)
            self.add_coupling(0.7, 0, 'Cdd', 0, 'Cu', 1, plus_hc=True)
        else:
            self.add_coupling(1., 0, 'Cd', 0, 'C', 2, plus_hc=True)
            self.add_coupling(0.5, 0, 'C', 0, 'C', 3, plus_hc=True)
            self.add_multi_coupling(0.3, [('Cd', [0], 0), ('N', [1], 0), ('C', [3], 0)], plus_hc=True)
            self.add_onsite(0.2, 0, 'N')


ok = True
for name, params in (('spinless', dict(L=4)), ('spinful', dict(L=3, spinful=True))):
    m = M(params)
    H_terms = ed.get_numpy_Hamiltonian(m)
    H_mpo = ed._get_numpy_Hamiltonian_ExactDiag_full_H(m, True, True)
    dev = np.linalg.norm(H_terms - H_mpo)
    H_sp = ed.get_scipy_sparse_Hamiltonian(m).toarray()
    dev_sp = np.linalg.norm(H_sp - H_mpo)
    print('%-9s |H_terms - H_MPO| = %.2e   |H_sparse - H_MPO| = %.2e' % (name, dev, dev_sp))
    ok = ok and dev < 1e-12 and dev_sp < 1e-12
sys.exit(0 if ok else 1)
