"""C18: a second crash during the first save after a resume leaves no loadable results file.
Runs the real Simulation.save_results with a _save_to_file that dies in the middle of the write."""
import pathlib, pickle, tempfile, types, logging, shutil
from tenpy.simulations.simulation import Simulation

d = pathlib.Path(tempfile.mkdtemp())
out = d / 'res.pkl'
bak = d / 'res.backup.pkl'

class Crash(Exception):
    pass

def save_ok(results, fn):
    with open(fn, 'wb') as f:
        pickle.dump(results, f)

def save_torn(results, fn):
    data = pickle.dumps(results)
    with open(fn, 'wb') as f:
        f.write(data[:len(data) // 2])
    raise Crash()  # process dies here

def loadable(fn):
    try:
        with open(fn, 'rb') as f:
            pickle.load(f)
        return True
    except Exception:
        return False

sim = types.SimpleNamespace(output_filename=out, _backup_filename=bak, logger=logging.getLogger('x'), _last_save=0.)
sim._save_to_file = save_ok
Simulation.save_results(sim, {'checkpoint': 1, 'data': list(range(1000))})       # complete checkpoint 1
sim._save_to_file = save_torn
try:
    Simulation.save_results(sim, {'checkpoint': 2, 'data': list(range(1000))})   # crash #1 inside write
except Crash:
    pass
print('after crash 1: output loadable=%s backup loadable=%s' % (loadable(out), loadable(bak)))
assert loadable(bak)
# resume from the backup (fix_output_filenames keeps both files since the backup exists), next save:
try:
    Simulation.save_results(sim, {'checkpoint': 3, 'data': list(range(1000))})   # crash #2 inside write
except Crash:
    pass
ok = [p.name for p in (out, bak) if p.exists() and loadable(p)]
print('after crash 2: loadable files:', ok)
shutil.rmtree(d)
if not ok:
    print('DEFECT: no complete results file left on disk')
    raise SystemExit(1)
print('OK')
