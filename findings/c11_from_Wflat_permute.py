"""C11: conversion of W tensors into an MPO. MPO.from_Wflat(sites, Wflat, permute=True) takes the
tensors in the standard local basis ("as if conserve=None") and has to permute BOTH physical legs
'p' and 'p*' with site.perm; it permuted only 'p' (`W[site.perm, :, :]`). For a site whose basis was
re-ordered by charge sorting (SpinHalfSite(conserve='Sz'): perm = [1, 0]) a valid operator raised
"wrong sector with non-zero entries" / gave another operator.
Exit 0 = same dense operator with and without charge conservation; exit 1 = defect present."""
import sys
import warnings
import numpy as np
from tenpy.networks.site import SpinHalfSite
from tenpy.networks.mpo import MPO
from tenpy.networks.mps import MPS

warnings.simplefilter('ignore')
Id, Sz, Sp, Sm = np.eye(2), np.diag([0.5, -0.5]), np.array([[0., 1.], [0., 0.]]), np.array([[0., 0.], [1., 0.]])
L = 3
# H = sum_i Sz_i Sz_{i+1} + 0.3 Sz_i + 0.5 (S+_i S-_{i+1} + h.c.)   as an MPO grid in the standard basis
W = np.zeros((2, 2, 5, 5))
W[:, :, 0, 0] = Id; W[:, :, 4, 4] = Id
W[:, :, 0, 1] = Sz; W[:, :, 1, 4] = Sz
W[:, :, 0, 2] = Sp; W[:, :, 2, 4] = 0.5 * Sm
W[:, :, 0, 3] = Sm; W[:, :, 3, 4] = 0.5 * Sp
W[:, :, 0, 4] = 0.3 * Sz
Wflat = [W[:, :, 0:1, :]] + [W] * (L - 2) + [W[:, :, :, 4:5]]
vals = {}
ok = True
for conserve in (None, 'Sz'):
    s = SpinHalfSite(conserve=conserve)
    try:
        H = MPO.from_Wflat([s] * L, Wflat, bc='finite', IdL=0, IdR=-1)
    except ValueError as e:
        print('DEFECT: conserve=%s: from_Wflat raises ValueError: %s' % (conserve, str(e)[:60]))
        ok = False
        continue
    psi = MPS.from_product_state([s] * L, ['up', 'down', 'up'], bc='finite')
    vals[conserve] = H.expectation_value(psi)
    print('conserve=%s perm=%s  <up,down,up|H|up,down,up> = %.6f' % (conserve, s.perm, vals[conserve]))
ok = ok and len(vals) == 2 and abs(vals[None] - vals['Sz']) < 1e-12 and abs(vals[None] - (-0.5 + 0.15)) < 1e-12
sys.exit(0 if ok else 1)
