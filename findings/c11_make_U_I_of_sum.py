"""C11: make_U_I of an MPO produced by `H1 + H2` (which stores IdR = -1) compares the raw indices
`IdL > IdR` and marks the wrong identity index on every bond of the propagator: for an infinite MPO
the result is another operator than make_U_I of the same Hamiltonian built directly.
Exit 0 if the two propagators agree."""
import os, sys
sys.path.insert(0, os.getcwd())
import warnings; warnings.simplefilter('ignore')
from tenpy.networks.site import SpinHalfSite
from tenpy.networks.terms import TermList
from tenpy.networks.mpo import MPOGraph

s = SpinHalfSite(conserve=None)
def build(terms, st, L, bc):
    return MPOGraph.from_term_list(TermList(terms, st), [s] * L, bc, unit_cell_width=L).build_MPO()
L = 2
t2 = [[('Sz', i), ('Sz', i + 1)] for i in range(L)]
t1 = [[('Sx', i)] for i in range(L)]
H1 = build(t2, [1.] * L, L, 'infinite')
H2 = build(t1, [0.7] * L, L, 'infinite')
H12 = build(t2 + t1, [1.] * L + [0.7] * L, L, 'infinite')
Hs = H1 + H2
assert H12.is_equal(Hs)
Ud, Us = H12.make_U_I(-0.01j), Hs.make_U_I(-0.01j)
ok = Ud.is_equal(Us, max_range=2) and [i % c for i, c in zip(Us.IdL, Us.chi)] == [i % c for i, c in zip(Ud.IdL, Ud.chi)]
print('OK' if ok else 'FAIL: U_I(H1 + H2) differs from U_I(H12): IdL %s vs %s' % (Us.IdL, Ud.IdL))
sys.exit(0 if ok else 1)
