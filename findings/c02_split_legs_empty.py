"""C02: Array.split_legs on a tensor without stored blocks keeps _qdata with the old rank."""
import sys
from tenpy.linalg import charges, np_conserved as npc
ch = charges.ChargeInfo([1], ['N'])
l = charges.LegCharge.from_qflat(ch, [[0], [1]])
a = npc.zeros([l, l, l.conj()])
b = a.combine_legs([0, 1]).split_legs()
try:
    b.test_sanity()
    print('OK')
except ValueError as e:
    print('DEFECT: split_legs result fails its own sanity check:', e)
    sys.exit(1)
