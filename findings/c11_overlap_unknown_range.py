"""C11: MPO.overlap of infinite MPOs whose range is unknown (max_range=None, e.g. built from W
tensors / grids) or infinite: the default number of sites uses the raw `other.max_range` instead
of the sanitised value computed two lines above -> TypeError (None) / OverflowError (inf)."""
import sys, warnings
warnings.simplefilter('ignore')
import numpy as np
from tenpy.models.tf_ising import TFIChain
from tenpy.networks.mpo import MPO
M = TFIChain(dict(L=2, J=1., g=0.7, bc_MPS='infinite', conserve=None))
H = M.H_MPO
ok = True
for rng in (None, np.inf):
    H2 = MPO(H.sites, [H.get_W(i) for i in range(H.L)], bc='infinite', IdL=H.IdL, IdR=H.IdR,
             max_range=rng, mps_unit_cell_width=H.L)
    try:
        ref = H.overlap(H, understood_infinite=True, num_sites=H.L + 2 * H.L)
        ov = H.overlap(H2, understood_infinite=True)          # other has unknown / infinite range
        print('max_range=%s: overlap = %.6f' % (rng, ov))
    except Exception as e:
        ok = False
        print('max_range=%s: %s: %s' % (rng, type(e).__name__, e))
print('OK' if ok else 'DEFECT: overlap() cannot handle a second operand of unknown/infinite range')
sys.exit(0 if ok else 1)
