"""C02 / C01: every tensor modified by a public operation passes its own sanity check, and the
operations agree with numpy.
 (1) Array.iswapaxes re-bound `_qdata = _qdata[:, swap]`: a column selection with an index list is
     Fortran-contiguous for rank >= 3, and test_sanity raised 'qdata is not C-contiguous'.
 (2) Array.add_leg(leg, i, axis=rank) -- insert the new leg as LAST axis, like list.insert -- built
     the index with `rank` entries instead of `rank + 1`: IndexError.
Exit 0 = fine; exit 1 = defect present."""
import sys
import warnings
import numpy as np
import tenpy.linalg.np_conserved as npc

warnings.simplefilter('ignore')
np.random.seed(0)
ch = npc.ChargeInfo([1])
l = npc.LegCharge.from_qflat(ch, [0, 1, 1])
ok = True
a = npc.Array.from_func(np.random.standard_normal, [l, l, l.conj()], qtotal=[1], labels=['a', 'b', 'c'])
ref = a.to_ndarray().swapaxes(0, 2)
a.iswapaxes(0, 2)
try:
    a.test_sanity()
    same = np.allclose(a.to_ndarray(), ref)
    print('iswapaxes: sane, equals numpy: %s' % same)
    ok = ok and same
except ValueError as e:
    print('DEFECT: after iswapaxes(0, 2) test_sanity raises:', e)
    ok = False
s = npc.Array.from_func(np.random.standard_normal, [l, l.conj()], labels=['x', 'y'])
new = npc.LegCharge.from_qflat(ch, [0, 0])
for axis in (0, 1, 2):
    try:
        e = s.add_leg(new, 1, axis=axis, label='n')
        e.test_sanity()
        good = e.get_leg_labels()[axis] == 'n' and np.allclose(np.take(e.to_ndarray(), 1, axis=axis), s.to_ndarray())
        print('add_leg(axis=%d): %s' % (axis, 'ok' if good else 'WRONG'))
        ok = ok and good
    except IndexError as err:
        print('DEFECT: add_leg(axis=%d) raises IndexError: %s' % (axis, err))
        ok = False
sys.exit(0 if ok else 1)
