"""C18: a DMRG run that is interrupted and resumed from its checkpoint must finish like the
uninterrupted run. The resumed engine starts with `sweeps` restored from the resume data but with
empty `sweep_stats` (reset_stats); with the default `min_sweeps`, IterativeSweeps.stopping_criterion
asks is_converged() before the first sweep of the resumed run, and DMRGEngine.is_converged read
`self.sweep_stats['E'][-1]` from the empty list: IndexError instead of a resumed run.
Exit 0 = resumed run finishes with the energy of the uninterrupted run; exit 1 = defect present."""
import os, sys; sys.path.insert(0, os.getcwd())
import logging, tempfile, warnings
import tenpy
from tenpy.simulations.simulation import run_simulation, resume_from_checkpoint

tenpy.tools.misc.skip_logging_setup = True
warnings.simplefilter('ignore')
logging.disable(logging.CRITICAL)


class Crash(Exception):
    pass


ARMED = [False]


def crash(algorithm):
    if ARMED[0] and algorithm.sweeps >= 2:
        raise Crash()


def params(fn):
    return dict(
        simulation_class='GroundStateSearch',
        output_filename=fn,
        model_class='SpinChain',
        model_params={'L': 8, 'S': 0.5, 'bc_MPS': 'finite', 'Jx': 1.0, 'Jy': 1.0, 'Jz': 1.0, 'conserve': 'Sz'},
        initial_state_params={'method': 'lat_product_state', 'product_state': [['up'], ['down']]},
        algorithm_class='TwoSiteDMRGEngine',
        # default min_sweeps (1)
        algorithm_params={'mixer': False, 'trunc_params': {'chi_max': 16, 'svd_min': 1.0e-12},
                          'max_sweeps': 8},
        save_every_x_seconds=0.0,
        connect_algorithm_checkpoint=[('__main__', 'crash', {}, -200)],
    )


def main():
    with tempfile.TemporaryDirectory() as tmp:
        ref = run_simulation(**params(os.path.join(tmp, 'ref.pkl')))
        ARMED[0] = True
        fn = os.path.join(tmp, 'int.pkl')
        try:
            run_simulation(**params(fn))
        except Crash:
            pass
        else:
            raise AssertionError('expected the simulated crash')
        ARMED[0] = False
        try:
            res = resume_from_checkpoint(filename=fn)
        except IndexError as e:
            print('DEFECT: resuming the DMRG run raises IndexError:', e)
            return 1
    print('energy uninterrupted %.12f  resumed %.12f' % (ref['energy'], res['energy']))
    if abs(ref['energy'] - res['energy']) > 1e-8:
        print('DEFECT: energies differ')
        return 1
    print('OK')
    return 0


if __name__ == '__main__':
    sys.exit(main())
