"""C16: the (flat) linear operators handed to the Krylov / ARPACK solvers represent the operator
they wrap. FlatLinearOperator restricts vectors to a charge sector. With compact_flat=True the
block is found with leg.get_qindex_of_charges(sector) (which accounts for the direction `qconj` of
the leg); the non-compact branch compared the RAW charges of the leg with the sector: for a leg
with qconj = -1 and a non-zero sector it selected the wrong indices (here: none at all, a 0 x 0
operator), and flat_to_npc / matvec raised 'wrong sector'.
Exit 0 = both branches select the same sector and reproduce the dense block; exit 1 = defect."""
import sys
import warnings
import numpy as np
import tenpy.linalg.np_conserved as npc
from tenpy.linalg.sparse import FlatLinearOperator

warnings.simplefilter('ignore')
np.random.seed(0)
ch = npc.ChargeInfo([1])
ok = True
for qconj in (+1, -1):
    leg = npc.LegCharge.from_qflat(ch, [0, 1, 1, 2], qconj=qconj).bunch()[1]
    M = npc.Array.from_func(np.random.standard_normal, [leg, leg.conj()], labels=['v', 'v*'])
    dense = M.to_ndarray()
    sector = [qconj]   # total charge of the vectors: picks the indices whose raw charge is 1
    idx = [i for i, c in enumerate(leg.to_qflat()[:, 0]) if c * qconj == sector[0]]
    want = dense[np.ix_(idx, idx)]
    for compact in (True, False):
        op = FlatLinearOperator.from_NpcArray(M, charge_sector=sector, compact_flat=compact)
        try:
            got = np.array([op.matvec(e) for e in np.eye(op.shape[0])]).T if op.shape[0] else np.zeros((0, 0))
        except ValueError as e:
            print('DEFECT: qconj=%+d compact=%s: matvec raises %s' % (qconj, compact, e))
            ok = False
            continue
        good = got.shape == want.shape and np.allclose(got, want)
        print('qconj=%+d compact_flat=%-5s shape=%s matches dense block: %s' % (qconj, compact, op.shape, good))
        ok = ok and good
sys.exit(0 if ok else 1)
