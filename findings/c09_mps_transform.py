"""C09: (1) roll_mps_unit_cell corrupts states not stored in 'B' form; (2) spatial_inversion puts
the singular values of an infinite MPS on the wrong bonds."""
import sys, warnings
warnings.simplefilter('ignore')
import numpy as np
from tenpy.networks.mps import MPS
from tenpy.networks.site import SpinHalfSite
from tenpy.models.xxz_chain import XXZChain
from tenpy.algorithms import tebd
fails = []
def make_psi(L=4):
    M = XXZChain(dict(L=L, Jxx=1., Jz=1.3, hz=0.2, bc_MPS='infinite', conserve=None))
    psi = MPS.from_product_state(M.lat.mps_sites(), ['up', 'down'] * (L // 2), bc='infinite')
    eng = tebd.TEBDEngine(psi, M, dict(order=2, dt=0.05, N_steps=4, trunc_params=dict(chi_max=6, svd_min=1e-8)))
    eng.run()
    # make bond dimensions non-uniform
    psi.canonical_form()
    return psi, M
psi, M = make_psi()
Sz = psi.expectation_value('Sz')
SzSz = psi.correlation_function('Sz', 'Sz', sites1=[0], sites2=[1, 2, 3])
for form in ['B', 'A', 'C']:
    p2 = psi.copy()
    p2.convert_form(form)
    p2.roll_mps_unit_cell(1)
    err = np.max(np.abs(p2.norm_test()))
    Sz2 = p2.expectation_value('Sz')
    ok = err < 1e-8 and np.allclose(np.roll(Sz, 1), Sz2, atol=1e-8)
    print('roll in form %s: norm_test %.2e, Sz ok=%s' % (form, err, np.allclose(np.roll(Sz, 1), Sz2, atol=1e-8)))
    if not ok:
        fails.append('roll_mps_unit_cell of a state stored in form %r: norm_test error %.2e' % (form, err))
# (2) inversion on an infinite MPS with non-uniform chi
p3 = psi.copy()
print('chi', p3.chi)
try:
    p3.spatial_inversion()
    err = np.max(np.abs(p3.norm_test()))
    Sz3 = p3.expectation_value('Sz')
    if err > 1e-8 or not np.allclose(Sz[::-1], Sz3, atol=1e-8):
        fails.append('spatial_inversion of an infinite MPS: norm_test %.2e' % err)
    p3.spatial_inversion()
    if not np.allclose(p3.expectation_value('Sz'), Sz, atol=1e-8):
        fails.append('spatial_inversion twice is not the identity')
except Exception as e:
    fails.append('spatial_inversion of an infinite MPS with non-uniform bond dimensions: %s %s' % (type(e).__name__, str(e)[:60]))
for x in fails:
    print('DEFECT:', x)
print('OK' if not fails else '%d defects' % len(fails))
sys.exit(1 if fails else 0)
