"""C17: a saved UniformMPS cannot be loaded: save_hdf5 does not write `unit_cell_width`, from_hdf5
builds the object with __new__ and never assigns it, and the final obj.test_sanity() reads it.
Exit 0 = the loaded object equals the saved one; exit 1 = defect present."""
import os, sys, tempfile, warnings
sys.path.insert(0, os.getcwd())
warnings.simplefilter('ignore')
import numpy as np
import h5py
from tenpy.networks.site import SpinHalfSite
from tenpy.networks.mps import MPS
from tenpy.networks.uniform_mps import UniformMPS
from tenpy.tools import hdf5_io

site = SpinHalfSite(conserve='Sz')
psi = MPS.from_product_state([site] * 4, ['up', 'down'] * 2, bc='infinite', unit_cell_width=2)
upsi = UniformMPS.from_MPS(psi)
assert upsi.unit_cell_width == 2
fn = os.path.join(tempfile.mkdtemp(), 'u.h5')
with h5py.File(fn, 'w') as f:
    hdf5_io.save_to_hdf5(f, {'psi': upsi})
try:
    with h5py.File(fn, 'r') as f:
        back = hdf5_io.load_from_hdf5(f)['psi']
except AttributeError as e:
    print('DEFECT: loading the saved UniformMPS raises', repr(e))
    sys.exit(1)
ok = isinstance(back, UniformMPS) and back.unit_cell_width == upsi.unit_cell_width and back.L == upsi.L
for a, b in zip(back._AR, upsi._AR):
    ok = ok and np.allclose(a.to_ndarray(), b.to_ndarray())
print('OK' if ok else 'DEFECT: loaded object differs (unit_cell_width %r vs %r)' % (
    getattr(back, 'unit_cell_width', None), upsi.unit_cell_width))
sys.exit(0 if ok else 1)
