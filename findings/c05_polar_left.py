"""C05: npc.polar(a, left=True) returns p = W s^2 W^dagger (W is scaled in place before W.conj()
is evaluated in the same call)."""
import sys
import numpy as np
from tenpy.linalg import np_conserved as npc, charges
ch = charges.ChargeInfo([1])
l = charges.LegCharge.from_qflat(ch, [[0], [0], [1], [1], [2]])
r = charges.LegCharge.from_qflat(ch, [[0], [1], [1], [2], [2], [0]]).conj()
np.random.seed(1)
a = npc.Array.from_func(np.random.standard_normal, [l, r], labels=['a', 'b'])
ok = True
for left in (False, True):
    u, p, s = npc.polar(a, left=left)
    rec = npc.tensordot(p, u, axes=1) if left else npc.tensordot(u, p, axes=1)
    err = npc.norm(rec - a)
    print('left=%s: |reconstruction - a| = %.2e' % (left, err))
    ok = ok and err < 1e-10
print('OK' if ok else 'DEFECT: polar factors do not multiply back to the input')
sys.exit(0 if ok else 1)
