"""C12: (1) MPS.correlation_function decides the JW string for sites2 from ops1;
(2) GroupedSite(charges='drop') gives every sub-site the leg of sites[0]."""
import sys, warnings
warnings.simplefilter('ignore')
import numpy as np
from tenpy.networks.site import FermionSite, SpinHalfSite, SpinSite, GroupedSite
from tenpy.networks.mps import MPS
fails = []
# (1) mixed chain fermion/spin: ops1 bosonic on fermion sites... use FermionSite chain:
f = FermionSite(None)
psi = MPS.from_product_state([f] * 4, ['full', 'empty', 'full', 'empty'], bc='finite')
try:
    # ops1 = 'N' (bosonic), ops2 = 'C' (fermionic): exactly one needs JW -> must raise ValueError
    psi.correlation_function('N', 'C')
    fails.append("correlation_function('N', 'C') neither raised nor handled the JW string of ops2")
except ValueError:
    pass
try:
    # ops1='Cd', ops2='N': the code asks op_needs_JW(ops1) for sites2 as well -> wrongly consistent
    psi.correlation_function('Cd', 'N')
    fails.append("correlation_function('Cd', 'N') accepted a fermionic/bosonic pair")
except ValueError:
    pass
# (2)
try:
    gs = GroupedSite([SpinHalfSite('Sz'), SpinSite(1., 'Sz')], charges='drop')
    gs.test_sanity()
    if gs.dim != 6:
        fails.append('grouped dim %d' % gs.dim)
except Exception as e:
    fails.append("GroupedSite([spin-1/2, spin-1], charges='drop'): %s %s" % (type(e).__name__, str(e)[:80]))
for x in fails:
    print('DEFECT:', x)
print('OK' if not fails else '%d defects' % len(fails))
sys.exit(1 if fails else 0)
