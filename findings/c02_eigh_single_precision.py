"""C02: tensors returned by public operations pass their own sanity check. eigh / eig of a
single-precision matrix: the eigenvector tensor is declared with promote_types(float64, a.dtype) =
float64, but the blocks returned by numpy for float32 input are float32 and were stored as they
are: V.test_sanity() raised 'wrong dtype'.
Exit 0 = sane eigenvectors with a v = w v; exit 1 = defect present."""
import sys
import warnings
import numpy as np
import tenpy.linalg.np_conserved as npc

warnings.simplefilter('ignore')
np.random.seed(0)
ch = npc.ChargeInfo([1])
leg = npc.LegCharge.from_qflat(ch, [0, 0, 1, 1, 1]).bunch()[1]
ok = True
for dt in (np.float64, np.float32, np.complex64):
    a = npc.Array.from_func(np.random.standard_normal, [leg, leg.conj()], dtype=dt)
    a = a + a.conj().transpose()
    w, V = npc.eigh(a)
    try:
        V.test_sanity()
        good = np.allclose(a.to_ndarray() @ V.to_ndarray(), V.to_ndarray() * w, atol=1e-4)
    except ValueError as e:
        print('DEFECT: eigh of a %s matrix: V.test_sanity(): %s' % (np.dtype(dt), str(e).splitlines()[0]))
        good = False
    print('%-10s ok: %s' % (np.dtype(dt), good))
    ok = ok and good
sys.exit(0 if ok else 1)
