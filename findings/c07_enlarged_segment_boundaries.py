"""C07: MPS.extract_enlarged_segment with an unchanged left (right) boundary composes the old
boundary matrix U_L (V_R) of the segment with the one produced by canonical_form_finite
(`U_L_new = tensordot(U_L, U_L_new)`), but then stores the OLD pair `(U_L, V_R)`: the new gauge
matrices are dropped, so the enlarged segment no longer denotes the same state relative to the
environment. Overlaps between two segment states (which contract the boundary matrices) change.
Exit 0 = the overlap is unchanged by enlarging both segments to the right; exit 1 = defect."""
import os, sys, warnings
sys.path.insert(0, os.getcwd())
warnings.simplefilter('ignore')
import logging; logging.disable(logging.CRITICAL)
import numpy as np
import tenpy.linalg.np_conserved as npc
from tenpy.networks.mps import MPS
from tenpy.models.tf_ising import TFIChain
from tenpy.algorithms import tebd

M = TFIChain({'L': 2, 'J': 1., 'g': 1.3, 'bc_MPS': 'infinite', 'conserve': None})
psi = MPS.from_product_state(M.lat.mps_sites(), ['up', 'up'], bc='infinite', unit_cell_width=2)
eng = tebd.TEBDEngine(psi, M, {'order': 2, 'delta_tau_list': [0.1], 'N_steps': 20,
                              'trunc_params': {'chi_max': 6, 'svd_min': 1e-10}})
eng.run_GS()
psi.norm = 1.
psi.canonical_form()
first, last = 0, 5
A = psi.extract_segment(first, last)
B = psi.extract_segment(first, last)
site = A.sites[0]
rng = np.random.RandomState(1)
op = npc.Array.from_ndarray_trivial(np.eye(2) + 0.3 * rng.normal(size=(2, 2)), labels=['p', 'p*'])
B.apply_local_op(0, op, unitary=False, renormalize=True)      # acts on the FIRST site of the segment
B.apply_local_op(3, 'Sigmax', unitary=True)
B.canonical_form_finite()                                       # leaves non-trivial segment_boundaries
ref = A.overlap(B)
UL, VR = B.segment_boundaries
print('B has boundary matrices:', UL is not None, VR is not None)
A2, f2, l2 = A.extract_enlarged_segment(psi, psi, first, last, new_first_last=(first, last + 2))
B2, _, _ = B.extract_enlarged_segment(psi, psi, first, last, new_first_last=(first, last + 2))
got = A2.overlap(B2)
print('overlap before enlarging %.8f, after %.8f' % (abs(ref), abs(got)))
ok = abs(abs(ref) - abs(got)) < 1e-8
print('OK' if ok else 'DEFECT: enlarging the segment changed the state relative to its environment')
sys.exit(0 if ok else 1)
