"""C11: MPO.to_TermList (a) returns no terms for MPOs whose right identity index is stored as a
negative index (every MPO produced by `+`), (b) drops terms for an unsorted `start` on finite
MPOs because the range limit of one start site is carried over to the following ones."""
import sys, warnings
warnings.simplefilter('ignore')
from tenpy.models.tf_ising import TFIChain
M = TFIChain(dict(L=5, J=1., g=0.7, bc_MPS='finite', conserve=None))
H = M.H_MPO
ops = ['Id', 'Sigmax', 'Sigmaz']


def as_dict(tl):
    d = {}
    for t, s in zip(tl.terms, tl.strength):
        d[str(t)] = d.get(str(t), 0.) + complex(s)
    return {k: v for k, v in d.items() if abs(v) > 1e-12}


ref = as_dict(H.to_TermList(ops))
S = H + H
print('IdR of H:', H.IdR, ' IdR of H + H:', S.IdR)
got = as_dict(S.to_TermList(ops))
print('distinct terms of H: %d, of H + H: %d' % (len(ref), len(got)))
ok = set(got) == set(ref) and all(abs(got[k] - 2 * ref[k]) < 1e-10 for k in ref)
a = as_dict(H.to_TermList(ops, start=[4, 0]))
b = as_dict(H.to_TermList(ops, start=[0, 4]))
print('start=[4, 0]: %d terms, start=[0, 4]: %d terms' % (len(a), len(b)))
ok = ok and a == b
print('OK' if ok else 'DEFECT: to_TermList loses terms')
sys.exit(0 if ok else 1)
