"""C05: npc.speigs for a charge sector whose block of the matrix is entirely zero (not stored).
The code wants to return zero eigenvalues with standard basis vectors, but builds the identity
with `np.eye(k, a.dtype)`: the second positional argument of np.eye is the number of COLUMNS, so
the dtype lands there and numpy raises TypeError. Exit 0 = zero eigenvalues and valid
eigenvectors are returned; exit 1 = defect present."""
import os, sys, warnings
sys.path.insert(0, os.getcwd())
warnings.simplefilter('ignore')
import numpy as np
import tenpy.linalg.np_conserved as npc

ch = npc.ChargeInfo([1])
leg = npc.LegCharge.from_qflat(ch, [[0], [0], [0], [1], [1], [1], [1]])
A = npc.zeros([leg, leg.conj()], labels=['a', 'b'])
rng = np.random.RandomState(0)
blk = rng.normal(size=(3, 3))
A[0:3, 0:3] = blk + blk.T           # only the charge-0 block is stored; the charge-1 block is zero
try:
    W, V = npc.speigs(A, [1], 2)
except TypeError as e:
    print('DEFECT: speigs on a sector with a zero block raises', repr(e))
    sys.exit(1)
ok = np.allclose(W, 0) and len(V) == 2
for w, v in zip(W, V):
    ok = ok and npc.norm(npc.tensordot(A, v, axes=1) - w * v) < 1e-12 and abs(npc.norm(v) - 1) < 1e-12
W0, V0 = npc.speigs(A, [0], 1, which='LR')
ok = ok and abs(W0[0].real - np.linalg.eigvalsh(blk + blk.T)[-1]) < 1e-10
print('OK' if ok else 'DEFECT: wrong eigenpairs')
sys.exit(0 if ok else 1)
