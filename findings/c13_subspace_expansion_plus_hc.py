"""C13 (KNOWN, not repaired): single-site DMRG with the SubspaceExpansion mixer on a model with
explicit_plus_hc=True. The branch of SubspaceExpansion.mix_and_decompose_1site that handles
explicit_plus_hc builds the projection mask with `np.ones(ind_len - 2)` and then indexes it with
the original IdL / IdR (IndexError), and in the left move projects and concatenates on the label
'wR' of a tensor whose MPO leg is called 'wL' (KeyError), does not scale the expansion with the
mixer amplitude, ... - the branch was never exercised. A repair needs the left-move branch
rewritten and validated, which is more than a small safe patch.
Exit 0 = the configuration runs and finds the ground state; exit 1 = defect present."""
import os, sys, warnings
sys.path.insert(0, os.getcwd())
warnings.simplefilter('ignore')
import logging; logging.disable(logging.CRITICAL)
from tenpy.networks.mps import MPS
from tenpy.models.xxz_chain import XXZChain2
from tenpy.algorithms import dmrg
from tenpy.algorithms.exact_diag import ExactDiag

L = 6
M0 = XXZChain2({'L': L, 'Jxx': 1., 'Jz': 1.3, 'hz': 0.1, 'bc_MPS': 'finite'})
ed = ExactDiag(M0, charge_sector=[0]); ed.build_full_H_from_mpo(); ed.full_diagonalization()
E0 = ed.groundstate()[0]
bad = []
for flag in (False, True):
    M = XXZChain2({'L': L, 'Jxx': 1., 'Jz': 1.3, 'hz': 0.1, 'bc_MPS': 'finite', 'explicit_plus_hc': flag})
    psi = MPS.from_product_state(M.lat.mps_sites(), ['up', 'down'] * (L // 2), bc='finite', unit_cell_width=L)
    try:
        E, _ = dmrg.SingleSiteDMRGEngine(psi, M, {'combine': False, 'mixer': True, 'max_sweeps': 14,
                                                  'mixer_params': {'amplitude': 1e-2, 'decay': 2., 'disable_after': 10},
                                                  'trunc_params': {'chi_max': 30, 'svd_min': 1e-12}}).run()
        print('explicit_plus_hc=%s: E - E0 = %.2e' % (flag, E - E0))
        if abs(E - E0) > 1e-8:
            bad.append(flag)
    except (IndexError, KeyError, ValueError) as e:
        print('explicit_plus_hc=%s: %s: %s' % (flag, type(e).__name__, str(e)[:100]))
        bad.append(flag)
print('OK' if not bad else 'DEFECT for explicit_plus_hc in %s' % bad)
sys.exit(1 if bad else 0)
