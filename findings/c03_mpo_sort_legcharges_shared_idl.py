"""C03: in-place methods change only the object they are called on. MPO.sort_legcharges() replaces
`self._W` by a new list but wrote the permuted identity indices INTO the lists `self.IdL` /
`self.IdR`, which a shallow MPO.copy() shares with its source: sorting the copy left the source
with its old (unsorted) tensors and the new (permuted) IdL/IdR.
Exit 0 = source unchanged; exit 1 = defect present."""
import sys
import warnings
import numpy as np
from tenpy.models.spins import SpinChain
from tenpy.networks.mps import MPS

warnings.simplefilter('ignore')
M = SpinChain(dict(L=6, S=0.5, Jx=1., Jy=1., Jz=0.7, hz=0.3, bc_MPS='finite', conserve='Sz',
                   sort_mpo_legs=False))
H = M.H_MPO
psi = MPS.from_product_state(M.lat.mps_sites(), ['up', 'down'] * 3, bc='finite')
E_before = H.expectation_value(psi)
IdL_before, IdR_before = list(H.IdL), list(H.IdR)
cp = H.copy()
cp.sort_legcharges()
changed = list(H.IdL) != IdL_before or list(H.IdR) != IdR_before
print('source IdL before', IdL_before, 'after', list(H.IdL))
print('source IdR before', IdR_before, 'after', list(H.IdR))
try:
    E_after = H.expectation_value(psi)
    print('source <H> before %.6f after %.6f; sorted copy %.6f' % (E_before, E_after, cp.expectation_value(psi)))
    changed = changed or abs(E_after - E_before) > 1e-10
except Exception as e:
    print('source MPO unusable after sorting its copy:', type(e).__name__, e)
    changed = True
sys.exit(1 if changed else 0)
