"""C14: TEBD reports twice the sum of its truncation errors; time-dependent TDVP/ExpMPO report 0."""
import numpy as np, warnings
warnings.simplefilter('ignore')
from tenpy.models.tf_ising import TFIChain
from tenpy.networks.mps import MPS
from tenpy.algorithms import tebd, tdvp
from tenpy.linalg.truncation import TruncationError

M = TFIChain(dict(L=8, J=1., g=1.5, bc_MPS='finite'))
psi = MPS.from_product_state(M.lat.mps_sites(), ['up', 'down'] * 4, bc='finite')
eng = tebd.TEBDEngine(psi, M, dict(order=2, dt=0.1, N_steps=5, trunc_params=dict(chi_max=3)))
# independent sum: wrap update_bond
indep = [TruncationError()]
orig = eng.update_bond
def ub(i, U):
    e = orig(i, U)
    indep[0] = indep[0] + e
    return e
eng.update_bond = ub
for _ in range(3):
    eng.run()
print('TEBD reported eps=%.6e  independent sum eps=%.6e' % (eng.trunc_err.eps, indep[0].eps))
bad = not np.isclose(eng.trunc_err.eps, indep[0].eps, rtol=1e-10) and indep[0].eps > 0

class TDIsing(TFIChain):
    def init_terms(self, params):
        params['g'] = 1.5 + 0.1 * float(np.real(params.get('time', 0., 'real_or_array')))
        super().init_terms(params)
M2 = TDIsing(dict(L=8, J=1., g=1.5, bc_MPS='finite', time=0.))
psi2 = MPS.from_product_state(M2.lat.mps_sites(), ['up', 'down'] * 4, bc='finite')
eng2 = tdvp.TimeDependentTwoSiteTDVP(psi2, M2, dict(dt=0.1, N_steps=3, trunc_params=dict(chi_max=2)))
tot = [0.]
orig_sweep = eng2.sweep
def sw(*a, **k):
    r = orig_sweep(*a, **k)
    tot[0] += sum(eng2.trunc_err_list)
    return r
eng2.sweep = sw
eng2.run(); eng2.run()
print('TD-TDVP reported eps=%.6e  independent sum eps=%.6e' % (eng2.trunc_err.eps, tot[0]))
bad = bad or (tot[0] > 0 and not np.isclose(eng2.trunc_err.eps, tot[0], rtol=1e-8))
if bad:
    print('DEFECT: reported accumulated truncation error differs from the sum of step errors')
    raise SystemExit(1)
print('OK')
