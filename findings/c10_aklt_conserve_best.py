"""C10 (predefined models over their conservation options): AKLTChain({'conserve': 'best'}) logs
with `self.name`, an attribute only CouplingMPOModel.__init__ sets; AKLTChain derives from
NearestNeighborModel / MPOModel, so the documented option value raises AttributeError.
Exit 0 = the model is built and equals the conserve='Sz' model; exit 1 = defect present."""
import os, sys, warnings
sys.path.insert(0, os.getcwd())
warnings.simplefilter('ignore')
import numpy as np
from tenpy.models.aklt import AKLTChain
from tenpy.algorithms.exact_diag import ExactDiag

try:
    M = AKLTChain({'L': 4, 'conserve': 'best'})
except AttributeError as e:
    print('DEFECT:', repr(e))
    sys.exit(1)
R = AKLTChain({'L': 4, 'conserve': 'Sz'})
a = ExactDiag(M); a.build_full_H_from_mpo()
b = ExactDiag(R); b.build_full_H_from_mpo()
ok = np.linalg.norm((a.full_H - b.full_H).to_ndarray()) < 1e-13
print('OK' if ok else 'DEFECT: different operator')
sys.exit(0 if ok else 1)
