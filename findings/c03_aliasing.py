"""C03: operands mutated by non-in-place functions.
(1) pure-Python ChargeInfo.make_valid writes into its argument (run with TENPY_NO_CYTHON=1)
(2) FlatLinearOperator.npc_to_flat transposes its argument in place."""
import os, sys, subprocess
if os.environ.get('TENPY_NO_CYTHON') != '1':
    env = dict(os.environ, TENPY_NO_CYTHON='1')
    sys.exit(subprocess.call([sys.executable, __file__], env=env))
import warnings
warnings.simplefilter('ignore')
import numpy as np
from tenpy.linalg import charges, np_conserved as npc
from tenpy.linalg.sparse import FlatLinearOperator
fails = []
ch = charges.ChargeInfo([1], ['N'])
leg = charges.LegCharge.from_qflat(ch, [[0], [3], [5]])
before = leg.charges.copy()
leg2 = charges.LegCharge.from_change_charge(leg, 0, 2, 'parity')
if not np.array_equal(leg.charges, before):
    fails.append('from_change_charge changed the operand leg charges %s -> %s' % (before.T, leg.charges.T))
q = np.array([7], dtype=charges.QTYPE)
ch2 = charges.ChargeInfo([3])
r = ch2.make_valid(q)
if q[0] != 7 or r is q:
    fails.append('make_valid wrote into / returned its argument: %s' % q)
# (2)
p = charges.LegCharge.from_qflat(ch, [[0], [1]])
A = npc.Array.from_func(np.ones, [p, p.conj()], labels=['v', 'v*'])
op = FlatLinearOperator(A.matvec, A.legs[0], A.dtype, None, 'v')
v = op.flat_to_npc(np.arange(2.))
v.itranspose(['charge', 'v'])
labels_before = v.get_leg_labels()
op.npc_to_flat(v)
if v.get_leg_labels() != labels_before:
    fails.append('npc_to_flat transposed its argument in place: %s -> %s' % (labels_before, v.get_leg_labels()))
for f in fails:
    print('DEFECT:', f)
print('OK' if not fails else '%d defects' % len(fails))
sys.exit(1 if fails else 0)
