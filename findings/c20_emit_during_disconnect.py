"""C20: emit() calls every connected listener, in descending priority.
 (1) A listener that disconnects itself while the event is emitted (`del self.listeners[i]` on the
     very list emit() iterates over) made emit() SKIP the next listener.
 (2) The decorator form `@ev.connect(priority=.., extra_kwargs=..)` dropped extra_kwargs: the
     listener was later called without them.
Exit 0 = all listeners called with their arguments; exit 1 = defect present."""
import sys
from tenpy.tools.events import EventHandler

ok = True
ev = EventHandler()
called = []


def a():
    called.append('a')
    ev.disconnect(id_a)      # one-shot listener


def b():
    called.append('b')


def c():
    called.append('c')


ev.connect(a, priority=3)
id_a = ev.id_of_last_connected
ev.connect(b, priority=2)
ev.connect(c, priority=1)
ev.emit()
print('first emit called', called)
if called != ['a', 'b', 'c']:
    print('DEFECT: a listener was skipped because another one disconnected itself during emit')
    ok = False
called.clear()
ev.emit()
ok = ok and called == ['b', 'c']

ev2 = EventHandler()
got = []


@ev2.connect(priority=2, extra_kwargs={'z': 3})
def f(z=0):
    got.append(z)


ev2.emit()
print('decorator listener received z =', got)
if got != [3]:
    print('DEFECT: extra_kwargs of the decorator form of connect() are dropped')
    ok = False
sys.exit(0 if ok else 1)
