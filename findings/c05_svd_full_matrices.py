"""C05 / C02: svd(a, full_matrices=True) promises "full square unitary matrices" U (M, M) and
VH (N, N) with the requested total charges.
 (1) For a tensor with nonzero total charge, VH was created with legs [legs[1].conj(), legs[1]],
     blocks (qi, qi) -- total charge 0 -- but declared qtotal = a.qtotal: VH.test_sanity() failed
     ("some row of _qdata is incompatible with total charge").
 (2) Charge sectors without a stored block in `a` (zero block, or a sector that the total charge
     leaves without a partner) got no block in U / VH: U^dagger U and VH VH^dagger had zero rows
     there instead of being the identity.
Exit 0 = sane and unitary; exit 1 = defect present."""
import sys
import warnings
import numpy as np
import tenpy.linalg.np_conserved as npc

warnings.simplefilter('ignore')
np.random.seed(1)
ch = npc.ChargeInfo([1])
leg = npc.LegCharge.from_qflat(ch, [0, 0, 1, 1, 2]).bunch()[1]
ok = True
cases = []
for qt in ([0], [1]):
    cases.append(('qtotal=%s' % qt, npc.Array.from_func(np.random.standard_normal, [leg, leg.conj()], qtotal=qt)))
z = npc.Array.from_func(np.random.standard_normal, [leg, leg.conj()])
z[2:4, 2:4] = np.zeros((2, 2))
z.ipurge_zeros()
cases.append(('zero block removed', z))
for name, a in cases:
    U, S, VH = npc.svd(a, full_matrices=True)
    msgs = []
    for nm, t in (('U', U), ('VH', VH)):
        try:
            t.test_sanity()
        except Exception as e:
            msgs.append('%s.test_sanity(): %s' % (nm, e))
    Ud, Vd = U.to_ndarray(), VH.to_ndarray()
    if not np.allclose(Ud.conj().T @ Ud, np.eye(Ud.shape[0])):
        msgs.append('U is not unitary')
    if not np.allclose(Vd @ Vd.conj().T, np.eye(Vd.shape[0])):
        msgs.append('VH is not unitary')
    if np.any(U.qtotal + VH.qtotal != a.qtotal):
        msgs.append('total charges do not add up')
    print('%-20s %s' % (name, '; '.join(msgs) or 'ok'))
    ok = ok and not msgs
sys.exit(0 if ok else 1)
