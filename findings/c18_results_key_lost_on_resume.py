"""C18: the measurements of a resumed run must be what the uninterrupted run gives.
Simulation._connect_measurements_fct removed 'results_key' from (and added 'func_name' to) the
USER's kwargs dict of a `connect_measurements` entry; that dict is part of the simulation parameters
written into every checkpoint, so the resumed simulation connected the same measurement without
its results_key and stored the values under the function name instead.
Exit 0 = same measurement keys; exit 1 = defect present."""
import os, sys; sys.path.insert(0, os.getcwd())
import logging, tempfile, warnings
import tenpy
from tenpy.simulations.simulation import run_simulation, resume_from_checkpoint

tenpy.tools.misc.skip_logging_setup = True
warnings.simplefilter('ignore')
logging.disable(logging.CRITICAL)


class Crash(Exception):
    pass


ARMED = [False]


def my_value(factor=1):
    return 42 * factor


def crash(algorithm):
    if ARMED[0] and algorithm.sweeps >= 2:
        raise Crash()


def params(fn):
    return dict(
        simulation_class='GroundStateSearch',
        output_filename=fn,
        model_class='SpinChain',
        model_params={'L': 6, 'S': 0.5, 'bc_MPS': 'finite', 'Jx': 1.0, 'Jy': 1.0, 'Jz': 1.0, 'conserve': 'Sz'},
        initial_state_params={'method': 'lat_product_state', 'product_state': [['up'], ['down']]},
        algorithm_class='TwoSiteDMRGEngine',
        algorithm_params={'mixer': False, 'trunc_params': {'chi_max': 8, 'svd_min': 1.0e-12},
                          'min_sweeps': 4, 'max_sweeps': 4, 'max_E_err': 1.0e-30},
        save_every_x_seconds=0.0,
        use_default_measurements=False,
        connect_measurements=[['__main__', 'wrap my_value', {'results_key': 'answer', 'factor': 2}]],
        connect_algorithm_checkpoint=[('__main__', 'crash', {}, -200)],
    )


def main():
    with tempfile.TemporaryDirectory() as tmp:
        ref = run_simulation(**params(os.path.join(tmp, 'ref.pkl')))
        keys_ref = sorted(ref['measurements'].keys())
        ARMED[0] = True
        fn = os.path.join(tmp, 'int.pkl')
        try:
            run_simulation(**params(fn))
        except Crash:
            pass
        else:
            raise AssertionError('expected the simulated crash')
        ARMED[0] = False
        res = resume_from_checkpoint(filename=fn)
        keys_res = sorted(res['measurements'].keys())
    print('uninterrupted:', keys_ref)
    print('resumed      :', keys_res)
    if keys_ref != keys_res:
        print('DEFECT: the resumed run stores its measurements under different keys')
        return 1
    print('OK')
    return 0


if __name__ == '__main__':
    sys.exit(main())
