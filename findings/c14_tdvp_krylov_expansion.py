"""C14: one-site TDVP with the documented basis expansion by MPO application
(`Krylov_params = {expansion_dim > 0, mpo = H (default), apply_mpo_options}`) crashes:
prepare_evolve reads `self.Krylov_options`, an attribute that does not exist (the options live in
`self.Krylov_params`). Exit 0 = the engine runs and follows exp(-iHt); exit 1 = defect present."""
import os, sys, warnings
sys.path.insert(0, os.getcwd())
warnings.simplefilter('ignore')
import logging; logging.disable(logging.CRITICAL)
import numpy as np
from tenpy.networks.mps import MPS
from tenpy.models.xxz_chain import XXZChain
from tenpy.algorithms import tdvp
from tenpy.algorithms.exact_diag import ExactDiag

L = 6
M = XXZChain({'L': L, 'Jxx': 1., 'Jz': 1.5, 'hz': 0., 'bc_MPS': 'finite'})
psi = MPS.from_product_state(M.lat.mps_sites(), ['up', 'down'] * (L // 2), bc='finite', unit_cell_width=L)
ED = ExactDiag(M)
ED.build_full_H_from_mpo()
ED.full_diagonalization()
psi0_full = ED.mps_to_full(psi)
opts = {'trunc_params': {'chi_max': 32, 'svd_min': 1e-12}, 'dt': 0.02, 'N_steps': 5,
        'Krylov_params': {'expansion_dim': 1,
                          'trunc_params': {'chi_max': 8, 'svd_min': 1e-10},
                          'apply_mpo_options': {'compression_method': 'SVD',
                                                'trunc_params': {'chi_max': 32, 'svd_min': 1e-12}}}}
try:
    eng = tdvp.SingleSiteTDVPEngine(psi, M, opts)
    eng.run()
except AttributeError as e:
    print('DEFECT: TDVP with basis expansion by MPO application raises', repr(e))
    sys.exit(1)
t = eng.evolved_time
V = ED.V.to_ndarray()
exact = V.dot(np.exp(-1j * t * ED.E) * V.conj().T.dot(psi0_full.to_ndarray()))
got = ED.mps_to_full(psi).to_ndarray()
ov = abs(np.vdot(exact, got))
print('chi after expansion', psi.chi, ' |<exact|tdvp>| = %.6f at t = %.2f' % (ov, t))
ok = abs(ov - 1.) < 1e-3 and max(psi.chi) > 1
print('OK' if ok else 'DEFECT: wrong state')
sys.exit(0 if ok else 1)
