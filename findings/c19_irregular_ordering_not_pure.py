"""C19: the maps between MPS index and lattice coordinates are mutually inverse bijections.
IrregularLattice.ordering(order) -- a query that only RETURNS a possible order -- overwrote
`self._perm` with the permutation of the regular lattice ("temporarily", never restored): afterwards
lat2mps_idx answers with indices of the regular lattice (a removed site gets an index, the last site
an index == N_sites) and possible_couplings enumerates couplings to the removed site.
Exit 0 = the lattice is unchanged by the query; exit 1 = defect present."""
import sys
import warnings
import numpy as np
from tenpy.models.lattice import Square, IrregularLattice

warnings.simplefilter('ignore')
reg = Square(3, 3, None, bc='periodic')
ir = IrregularLattice(reg, remove=[[1, 1, 0]])
before_idx = [int(ir.lat2mps_idx(list(ir.mps2lat_idx(i)))) for i in range(ir.N_sites)]
before_pairs = len(ir.possible_couplings(0, 0, [1, 0])[0])
_ = ir.ordering('snake')                      # a query
after_idx = [int(ir.lat2mps_idx(list(ir.mps2lat_idx(i)))) for i in range(ir.N_sites)]
after_pairs = len(ir.possible_couplings(0, 0, [1, 0])[0])
print('lat2mps(mps2lat(i)) before:', before_idx)
print('lat2mps(mps2lat(i)) after :', after_idx)
print('couplings along x before %d, after %d' % (before_pairs, after_pairs))
ok = before_idx == list(range(ir.N_sites)) and after_idx == before_idx and before_pairs == after_pairs
sys.exit(0 if ok else 1)
