"""C07: MPS.get_theta(i, n=1, formL=.., formR=..) ignored the requested exponents of the singular
values (documented: theta = s**formL G_i s**formR) and always returned the (1, 1) form."""
import sys, warnings
warnings.simplefilter('ignore')
import numpy as np
from tenpy.networks.mps import MPS
from tenpy.networks.site import SpinHalfSite
from tenpy.algorithms import tebd
s = SpinHalfSite(None)
psi = MPS.from_product_state([s] * 4, ['up', 'down', 'up', 'down'], bc='finite')
tebd.RandomUnitaryEvolution(psi, dict(N_steps=4, trunc_params=dict(chi_max=8))).run()
ok = True
for fL, fR in [(1., 1.), (0., 1.), (1., 0.), (0.5, 0.5)]:
    a = psi.get_theta(1, n=1, formL=fL, formR=fR).to_ndarray()
    b = psi.get_B(1, form=(fL, fR)).to_ndarray()
    two = psi.get_theta(1, n=2, formL=fL, formR=1.)      # the n=2 path honours formL
    d = np.linalg.norm(a - b)
    print('formL=%.1f formR=%.1f: |theta_1 - B(form)| = %.2e' % (fL, fR, d))
    ok = ok and d < 1e-12
print('OK' if ok else 'DEFECT: get_theta(n=1) ignores formL / formR')
sys.exit(0 if ok else 1)
