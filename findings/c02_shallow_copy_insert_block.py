"""C02: every tensor stays internally consistent under all histories, including shallow copies and
element assignment. Array.get_block(insert=True) (used by `a[i, j] = x` for a block that is not
stored yet) APPENDED the new block to the list `_data` in place but re-bound `_qdata`; a shallow copy
shares the list, so after `b = a.copy(deep=False); b[i, j] = x` the untouched `a` had one more data
block than rows in `_qdata` and failed its own sanity check.
Exit 0 = `a` still sane and unchanged; exit 1 = defect present."""
import sys
import warnings
import numpy as np
import tenpy.linalg.np_conserved as npc

warnings.simplefilter('ignore')
ch = npc.ChargeInfo([1])
leg = npc.LegCharge.from_qflat(ch, [0, 1, 2])
a = npc.Array.from_ndarray(np.diag([1., 0., 3.]), [leg, leg.conj()], labels=['a', 'b'])
a.ipurge_zeros()                       # the block [1, 1] is not stored
before = a.to_ndarray().copy()
ok = True
for name, make in (('copy(deep=False)', lambda: a.copy(deep=False)),
                   ("replace_label('a', 'c')", lambda: a.replace_label('a', 'c'))):
    b = make()
    b[1, 1] = 5.
    try:
        a.test_sanity()
        same = np.array_equal(a.to_ndarray(), before)
        print('%s: source sane, %s' % (name, 'unchanged' if same else 'CHANGED'))
        ok = ok and same
    except Exception as e:
        print('DEFECT: after b = a.%s; b[1, 1] = 5. the source fails test_sanity: %s' % (name, e))
        ok = False
    b.test_sanity()
    ok = ok and b[1, 1] == 5.
sys.exit(0 if ok else 1)
