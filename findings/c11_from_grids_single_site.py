"""C11: MPO.from_grids for a finite MPO on ONE site. The projection of the boundary grids read
`last_grid = grids[-1]` BEFORE `grids[0]` was replaced by its IdL row; for L == 1 both are the
same grid, so the column projection was applied to the unprojected grid and the row projection was
lost: ValueError('finite MPO with len of first bond != 1') instead of the one-site operator.
Exit 0 = <up|H|up> equals the dense value; exit 1 = defect present."""
import sys
import warnings
warnings.simplefilter('ignore')
from tenpy.networks.site import SpinHalfSite
from tenpy.networks.mpo import MPO
from tenpy.networks.mps import MPS

s = SpinHalfSite(conserve=None)
grid = [['Id', 'Sigmaz'], [None, 'Id']]
ok = True
for L in (1, 2, 3):
    try:
        H = MPO.from_grids([s] * L, [grid] * L, bc='finite', IdL=0, IdR=-1)
    except ValueError as e:
        print('DEFECT: L=%d: from_grids raises ValueError: %s' % (L, e))
        ok = False
        continue
    psi = MPS.from_product_state([s] * L, ['up'] * L, bc='finite')
    val = H.expectation_value(psi)
    print('L=%d  <H>=%.6f  expected %.6f' % (L, val, float(L)))
    ok = ok and abs(val - L) < 1e-12
sys.exit(0 if ok else 1)
