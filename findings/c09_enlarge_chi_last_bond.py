"""C09: MPS.enlarge_chi with an integer entry for the LAST bond (i == L, finite / segment boundary
conditions). The documented meaning of an int is "a single block of charges like the Schmidt state
with highest weight". For i < L the charge is read from the 'vL' leg of B[i]; for i == L it is read
from the 'vR' leg of the last tensor WITHOUT conjugating the leg, and LegCharge.get_charge includes
the direction: the added block gets the NEGATED charge (siblings entanglement_spectrum /
probability_per_charge conjugate that leg). Exit 0 = added block has the charge of the dominant
Schmidt state on every bond; exit 1 = defect present."""
import os, sys, warnings
sys.path.insert(0, os.getcwd())
warnings.simplefilter('ignore')
import numpy as np
from tenpy.networks.site import SpinHalfSite
from tenpy.networks.mps import MPS

s = SpinHalfSite(conserve='Sz', sort_charge=True)
L = 6
# finite product state: the charge of the virtual legs accumulates, the last bond carries 2*Sz = L
seg = MPS.from_product_state([s] * L, ['up'] * L, bc='segment', unit_cell_width=L)
bad = []
for bond in (2, L):
    phi = seg.copy()
    if bond < L:
        before = phi.get_B(bond, None).get_leg('vL')
    else:
        before = phi.get_B(L - 1, None).get_leg('vR').conj()
    dominant = before.get_charge(before.get_qindex(int(np.argmax(phi.get_SL(bond) if bond < L else phi.get_SR(L - 1))))[0])
    extra = [0] * (L + 1)
    extra[bond] = 1
    phi.enlarge_chi(extra)
    after = phi.get_B(bond, None).get_leg('vL') if bond < L else phi.get_B(L - 1, None).get_leg('vR').conj()
    charges = sorted(tuple(after.get_charge(q)) for q in range(after.block_number))
    sizes = after.get_block_sizes().tolist()
    ok = charges == [tuple(dominant)] and sizes == [2]
    print('bond %d: dominant charge %s, leg after enlarge_chi: charges %s sizes %s' % (bond, tuple(dominant), charges, sizes))
    if not ok:
        bad.append(bond)
print('OK' if not bad else 'DEFECT: extra block with another charge on bond(s) %s' % bad)
sys.exit(1 if bad else 0)
