"""C09: MPS transformations implement the documented map. enlarge_chi() "represents the same state,
with the additional singular values being exactly zero". Converting such a state from B to A form
divided by these zeros (`1.0 / S` in _scale_axis_B), so every contraction that needs the A form --
overlap(), MPSEnvironment.full_contraction -- returned nan once a bond next to the left end was
enlarged.
Exit 0 = overlap with the original state is 1; exit 1 = defect present."""
import sys
import warnings
import numpy as np
from tenpy.networks.mps import MPS
from tenpy.networks.site import SpinHalfSite

warnings.simplefilter('ignore')
np.random.seed(1)
s = SpinHalfSite(None)
L = 6
psi = MPS.from_random_unitary_evolution([s] * L, 4, ['up', 'down'] * 3, bc='finite')
ok = True
for extra in ([None, 2, 2, 2, 2, 2, None], [None, None, 2, 2, 2, None, None]):
    p2 = psi.copy()
    with np.errstate(all='ignore'):
        p2.enlarge_chi(list(extra))
        ov, ov2 = p2.overlap(psi), p2.overlap(p2)
    print('chi %s -> %s: <enlarged|psi> = %s, <enlarged|enlarged> = %s' % (psi.chi, p2.chi, ov, ov2))
    ok = ok and abs(ov - 1.) < 1e-10 and abs(ov2 - 1.) < 1e-10
sys.exit(0 if ok else 1)
