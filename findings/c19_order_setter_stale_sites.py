"""C19: the `order` setters of IrregularLattice / HelicalLattice do not drop the cached list of MPS
sites (the base setter does): after the order (or the size of the MPS unit cell) changes,
mps_sites() still returns the old list.  Exit 0 if mps_sites() follows the order."""
import os, sys
sys.path.insert(0, os.getcwd())
import numpy as np, warnings
warnings.simplefilter('ignore')
from tenpy.models.lattice import Ladder, Square, IrregularLattice, HelicalLattice
from tenpy.networks.site import SpinHalfSite, SpinSite

bad = []
a, b = SpinHalfSite(None), SpinSite(1., None)
reg = Ladder(3, [a, b], bc='open', bc_MPS='finite')
irr = IrregularLattice(reg, remove=[[0, 0]])
before = [s.dim for s in irr.mps_sites()]
new_order = irr.order[[1, 0, 2, 3, 4]].copy()
irr.order = new_order
want = [irr.unit_cell[u].dim for u in irr.order[:, -1]]
got = [s.dim for s in irr.mps_sites()]
if got != want:
    bad.append('IrregularLattice: mps_sites() has dims %s, the order says %s' % (got, want))

regh = Square(4, 2, a, bc=['periodic', -1], bc_MPS='infinite')
hel = HelicalLattice(regh, 2)
hel.mps_sites()
hel.enlarge_mps_unit_cell(2)
if len(hel.mps_sites()) != hel.N_sites:
    bad.append('HelicalLattice: N_sites = %d but mps_sites() has %d entries' % (hel.N_sites, len(hel.mps_sites())))
print('OK' if not bad else 'FAIL: ' + '; '.join(bad))
sys.exit(1 if bad else 0)
