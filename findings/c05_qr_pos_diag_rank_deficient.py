"""C05: QR returns factors that multiply back to the input, also for rank-deficient blocks.
qr(a, pos_diag_R=True) made the diagonal of R positive with `phase = r_diag / np.abs(r_diag)`; a
vanishing diagonal entry (rank-deficient block, e.g. a zero column) gave 0/0 = NaN, which was then
multiplied into a whole column of Q and row of R: Q and R full of NaN.
Exit 0 = finite factors with Q R = a; exit 1 = defect present."""
import sys
import warnings
import numpy as np
import tenpy.linalg.np_conserved as npc

warnings.simplefilter('ignore')
np.random.seed(2)
ch = npc.ChargeInfo([1])
leg = npc.LegCharge.from_qind(ch, [0, 3, 5], [[0], [1]])
flat = np.zeros((5, 5))
flat[:3, :3] = np.random.standard_normal((3, 3))
flat[3:, 3:] = np.random.standard_normal((2, 2))
flat[:, 0] = 0.                       # first block is rank deficient
a = npc.Array.from_ndarray(flat, [leg, leg.conj()])
ok = True
for mode in ('reduced', 'complete'):
    with np.errstate(all='ignore'):
        Q, R = npc.qr(a, mode=mode, pos_diag_R=True)
    Qd, Rd = Q.to_ndarray(), R.to_ndarray()
    finite = np.all(np.isfinite(Qd)) and np.all(np.isfinite(Rd))
    rec = finite and np.allclose(Qd @ Rd, flat)
    diag_ok = finite and np.all(np.diag(Rd).real >= -1e-14)
    print('mode=%-8s finite=%s  Q R == a: %s  diag(R) >= 0: %s' % (mode, finite, rec, diag_ok))
    ok = ok and finite and rec and diag_ok
sys.exit(0 if ok else 1)
