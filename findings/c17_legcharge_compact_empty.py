"""C17: saving and loading reproduces an equal object, for every format. LegCharge.from_hdf5,
format 'compact': the slices were rebuilt with `slices[-1] = blockcharges[-1, 1]`, which indexes an
empty array for a leg without any block (ind_len 0, e.g. after a projection with an all-False
mask): IndexError when loading what save_hdf5 wrote.
Exit 0 = round trip works for every format; exit 1 = defect present."""
import os
import sys
import tempfile
import warnings
import numpy as np
import h5py
import tenpy.linalg.np_conserved as npc
from tenpy.tools import hdf5_io

warnings.simplefilter('ignore')
ch = npc.ChargeInfo([1], ['N'])
full = npc.LegCharge.from_qflat(ch, [0, 1, 1, 2])
_, _, empty = full.project(np.zeros(4, dtype=bool))
ok = True
with tempfile.TemporaryDirectory() as tmp:
    for fmt in ('blocks', 'compact', 'flat'):
        for name, leg in (('full', full), ('empty', empty)):
            fn = os.path.join(tmp, '%s_%s.h5' % (fmt, name))
            with h5py.File(fn, 'w') as f:
                hdf5_io.Hdf5Saver(f, format_selection={'LegCharge': fmt}).save(leg)
            try:
                with h5py.File(fn, 'r') as f:
                    leg2 = hdf5_io.Hdf5Loader(f).load()
                same = leg2.ind_len == leg.ind_len and np.array_equal(leg2.to_qflat(), leg.to_qflat()) \
                    and leg2.qconj == leg.qconj
            except IndexError as e:
                print('DEFECT: format %r, %s leg: loading raises IndexError: %s' % (fmt, name, e))
                same = False
            ok = ok and same
print('OK' if ok else 'defect present')
sys.exit(0 if ok else 1)
