"""C07: canonical_form() of an infinite MPS whose tensors have MIXED dtypes (real tensors, one
complex tensor after apply_local_op with a complex operator). TransferMatrix._init_from_Ns_Ms
takes the dtype of its flat linear operator from the FIRST tensors only, so the transfer matrix of
a state with a complex tensor elsewhere is treated as real: the imaginary parts are dropped, the
dominant eigenvectors are wrong and canonical_form returns another, non-canonical state.
Exit 0 = same result as for the all-complex copy of the state; exit 1 = defect present."""
import os, sys, warnings
sys.path.insert(0, os.getcwd())
warnings.simplefilter('ignore')
import logging; logging.disable(logging.CRITICAL)
import numpy as np
import tenpy.linalg.np_conserved as npc
from tenpy.networks.site import SpinHalfSite
from tenpy.networks.mps import MPS
from tenpy.models.tf_ising import TFIChain
from tenpy.algorithms import tebd

M = TFIChain({'L': 2, 'J': 1., 'g': 1.3, 'bc_MPS': 'infinite', 'conserve': None})
psi = MPS.from_product_state(M.lat.mps_sites(), ['up', 'up'], bc='infinite', unit_cell_width=2)
eng = tebd.TEBDEngine(psi, M, {'order': 2, 'delta_tau_list': [0.1], 'N_steps': 10,
                              'trunc_params': {'chi_max': 8, 'svd_min': 1e-10}})
eng.run_GS()                       # imaginary time: a real, entangled iMPS
assert psi.dtype == np.float64 or all(B.dtype == np.float64 for B in psi._B)
site = psi.sites[0]
op = (site.get_op('Sigmaz') + 0.7j * site.get_op('Sigmax'))      # complex, not unitary


def prepared(all_complex, SITE):
    phi = psi.copy()
    if all_complex:
        phi._B = [B.astype(np.complex128) for B in phi._B]
        phi.dtype = np.dtype(np.complex128)
    B = npc.tensordot(op, phi.get_B(SITE, form=None), axes=['p*', 'p'])   # as apply_local_op does
    phi.set_B(SITE, B, form=None)
    return phi


ok = True
for SITE in (0, 1):
    a, b = prepared(False, SITE), prepared(True, SITE)
    kinds = [str(B.dtype) for B in a._B]
    a.canonical_form()
    b.canonical_form()
    na, nb = np.linalg.norm(a.norm_test()), np.linalg.norm(b.norm_test())
    ea, eb = a.expectation_value('Sigmaz'), b.expectation_value('Sigmaz')
    print('complex operator on site %d, tensor dtypes %s: norm_test mixed %.2e / all-complex %.2e; '
          '<Sz> mixed %s / all-complex %s' % (SITE, kinds, na, nb, np.round(ea, 6), np.round(eb, 6)))
    ok = ok and na < 1e-8 and np.allclose(ea, eb, atol=1e-8)
print('OK' if ok else 'DEFECT: canonical_form of the mixed-dtype state is wrong')
sys.exit(0 if ok else 1)
