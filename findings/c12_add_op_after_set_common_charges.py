"""C12: basis bookkeeping of local Hilbert spaces. Site.add_op(name, dense_matrix) takes the matrix
in the standard basis of the site and permutes it with `site.perm` when the basis was re-ordered;
by default it decides that from `used_sort_charge`. Site.change_charge(new_leg, permute) re-orders
the basis (updates `perm` and `state_labels`) but did not set that flag -- only sort_charge() did.
After set_common_charges(..) (or GroupedSite with charges 'drop' / 'independent'), which sort via
change_charge, a newly added dense operator was therefore stored un-permuted: 'Nnew' given as
diag(0, 1) became 1 - N.
Exit 0 = the new operator equals the existing one; exit 1 = defect present."""
import sys
import warnings
import numpy as np
from tenpy.networks.site import FermionSite, set_common_charges

warnings.simplefilter('ignore')
fu, fd = FermionSite('N'), FermionSite('N')
set_common_charges([fu, fd], [[(1, 0, 'N'), (1, 1, 'N')], [(1, 0, 'N'), (-1, 1, 'N')]], ['N', '2Sz'])
ok = True
for name, s in (('up', fu), ('down', fd)):
    s.add_op('Nnew', np.diag([0., 1.]))        # the number operator in the standard basis (empty, full)
    same = np.allclose(s.Nnew.to_ndarray(), s.N.to_ndarray())
    print('%-4s perm=%s  Nnew == N: %s   (diag N = %s, diag Nnew = %s)' % (
        name, s.perm, same, np.diag(s.N.to_ndarray()), np.diag(s.Nnew.to_ndarray())))
    ok = ok and same
sys.exit(0 if ok else 1)
