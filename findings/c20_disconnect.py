"""C20: EventHandler.disconnect removes listener with id 0 whatever id is passed."""
import warnings
from tenpy.tools.events import EventHandler
ev = EventHandler()
calls = []
ev.connect(lambda: calls.append('first'))
ev.connect(lambda: calls.append('second'))
second = ev.id_of_last_connected
with warnings.catch_warnings():
    warnings.simplefilter('ignore')
    ev.disconnect(second)
ev.emit()
print(calls)
if calls != ['first']:
    print('DEFECT: disconnect(%d) removed the wrong listener' % second)
    raise SystemExit(1)
print('OK')
