"""C01: indexing and assignment agree with numpy, also for legs "split into several blocks of equal
charge". `a[::-1] = b` (or any index array that needs a permutation, e.g. a[[3, 1, 0]] = b) on such
a leg raised ValueError('incompatible LegCharge'): _advanced_setitem_npc permutes `other` with
Array.permute, which bunches the new leg, and then compared it block by block with the (not
bunched) leg of the addressed part of `self`.
Exit 0 = result equals the numpy assignment; exit 1 = defect present."""
import sys
import warnings
import numpy as np
import tenpy.linalg.np_conserved as npc

warnings.simplefilter('ignore')
np.random.seed(0)
ch = npc.ChargeInfo([1])
leg = npc.LegCharge.from_qflat(ch, [0, 1, 1, 2])      # two separate blocks of charge 1
ok = True
for name, idx in (('a[::-1]', slice(None, None, -1)), ('a[[3, 2, 0]]', [3, 2, 0]), ('a[[2, 1]]', [2, 1])):
    a = npc.Array.from_func(np.random.standard_normal, [leg, leg.conj()])
    src = npc.Array.from_func(np.random.standard_normal, [leg, leg.conj()])
    b = src[idx]                       # a tensor with the legs that a[idx] has
    ref = a.to_ndarray().copy()
    ref[idx] = b.to_ndarray()
    try:
        a[idx] = b
    except ValueError as e:
        print('DEFECT: %s = b raises ValueError: %s' % (name, str(e).splitlines()[0]))
        ok = False
        continue
    a.test_sanity()
    same = np.allclose(a.to_ndarray(), ref)
    print('%s = b: %s' % (name, 'equals numpy' if same else 'DIFFERS from numpy'))
    ok = ok and same
sys.exit(0 if ok else 1)
