"""Structural patterns with metavariables over python `ast` (the matching half of rules that
used to compare source text).

    P('$acc += $stride * $$w')        statement pattern
    P('self.slices[$$row[2]] + $$row[0] + $acc')

`$x` matches any *name* (consistently: the same `$x` must be the same identifier everywhere),
`$$x` matches any *expression* (consistently: same source text). Everything else must agree
structurally; `+`, `*`, `==`, `!=`, `and`, `or`, `&`, `|` are matched modulo commutation, keyword
arguments modulo order. `find(pattern, root)` yields every match below `root`.

Patterns are usually applied to the normal form of `sa.normal.inline_temps`, so that renaming,
introducing or inlining temporaries does not matter.
"""
import ast
import re

_N = '__N_'
_E = '__E_'


class Pattern:
    def __init__(self, src):
        self.src = src
        py = re.sub(r'\$\$(\w+)', _E + r'\1', src)
        py = re.sub(r'\$(\w+)', _N + r'\1', py)
        try:
            self.node = ast.parse(py, mode='eval').body
            self.is_stmt = False
        except SyntaxError:
            mod = ast.parse(py)
            if len(mod.body) != 1:
                raise ValueError('pattern must be one expression or one statement: %r' % src)
            self.node = mod.body[0]
            self.is_stmt = True

    def __repr__(self):
        return 'P(%r)' % self.src


def P(src):
    return Pattern(src)


_COMM_BIN = (ast.Add, ast.Mult, ast.BitAnd, ast.BitOr, ast.BitXor)
_COMM_CMP = (ast.Eq, ast.NotEq, ast.Is, ast.IsNot)


def _m(p, n, env):
    """match pattern node p against node n; env is mutated only on success (copy-on-try)"""
    if isinstance(p, ast.Name):
        if p.id.startswith(_N):
            if not isinstance(n, ast.Name):
                return None
            k = '$' + p.id[len(_N):]
            if env.get(k, n.id) != n.id:
                return None
            e = dict(env)
            e[k] = n.id
            return e
        if p.id.startswith(_E):
            if not isinstance(n, ast.expr):
                return None
            k = '$$' + p.id[len(_E):]
            t = ast.unparse(n)
            if k in env and ast.unparse(env[k]) != t:
                return None
            e = dict(env)
            e[k] = n
            return e
    if isinstance(p, ast.Expr) and isinstance(p.value, ast.Name) and p.value.id.startswith(_E) \
            and isinstance(n, ast.stmt) and not isinstance(n, ast.Expr):
        return None
    if type(p) is not type(n):
        return None
    if isinstance(p, ast.BinOp) and isinstance(p.op, _COMM_BIN) and type(p.op) is type(n.op):
        for a, b in ((n.left, n.right), (n.right, n.left)):
            e = _m(p.left, a, env)
            if e is not None:
                e = _m(p.right, b, e)
                if e is not None:
                    return e
        return None
    if isinstance(p, ast.Compare) and len(p.ops) == 1 and len(n.ops) == 1 and \
            isinstance(p.ops[0], _COMM_CMP) and type(p.ops[0]) is type(n.ops[0]):
        for a, b in ((n.left, n.comparators[0]), (n.comparators[0], n.left)):
            e = _m(p.left, a, env)
            if e is not None:
                e = _m(p.comparators[0], b, e)
                if e is not None:
                    return e
        return None
    if isinstance(p, ast.BoolOp) and type(p.op) is type(n.op) and len(p.values) == len(n.values):
        return _perm(p.values, n.values, env)
    if isinstance(p, ast.Call):
        e = _m(p.func, n.func, env)
        if e is None or len(p.args) != len(n.args) or len(p.keywords) != len(n.keywords):
            return None
        for a, b in zip(p.args, n.args):
            e = _m(a, b, e)
            if e is None:
                return None
        nk = {k.arg: k.value for k in n.keywords}
        for k in p.keywords:
            if k.arg not in nk:
                return None
            e = _m(k.value, nk[k.arg], e)
            if e is None:
                return None
        return e
    for fld in p._fields:
        if fld == 'ctx' or fld == 'type_comment':
            continue
        a, b = getattr(p, fld, None), getattr(n, fld, None)
        env = _mval(a, b, env)
        if env is None:
            return None
    return env


def _mval(a, b, env):
    if isinstance(a, ast.AST):
        if not isinstance(b, ast.AST):
            return None
        return _m(a, b, env)
    if isinstance(a, list):
        if not isinstance(b, list) or len(a) != len(b):
            return None
        for x, y in zip(a, b):
            env = _mval(x, y, env)
            if env is None:
                return None
        return env
    if isinstance(a, str) and a.startswith(_N):      # attribute / keyword names
        k = '$' + a[len(_N):]
        if not isinstance(b, str) or env.get(k, b) != b:
            return None
        env = dict(env)
        env[k] = b
        return env
    return env if a == b else None


def _perm(ps, ns, env):
    if not ps:
        return env
    p0 = ps[0]
    for i, n in enumerate(ns):
        e = _m(p0, n, env)
        if e is not None:
            e = _perm(ps[1:], ns[:i] + ns[i + 1:], e)
            if e is not None:
                return e
    return None


class Env(dict):
    """bindings of a successful match; truthy even when no metavariable was bound"""

    def __bool__(self):
        return True


def pmatch(pat, node, env=None):
    """Env ('$x' -> identifier, '$$x' -> ast expression) or None"""
    if isinstance(pat, str):
        pat = Pattern(pat)
    e = _m(pat.node, node, dict(env or {}))
    return None if e is None else Env(e)


def find(pat, root, env=None):
    if isinstance(pat, str):
        pat = Pattern(pat)
    out = []
    for n in ast.walk(root):
        if pat.is_stmt != isinstance(n, ast.stmt):
            continue
        e = _m(pat.node, n, dict(env or {}))
        if e is not None:
            out.append((n, Env(e)))
    return out


def has(pat, root, env=None):
    return bool(find(pat, root, env))


def negate_test(test):
    """(expr, polarity): strip `not` so that flipped if/else compare equal"""
    pol = True
    while isinstance(test, ast.UnaryOp) and isinstance(test.op, ast.Not):
        test = test.operand
        pol = not pol
    if isinstance(test, ast.Compare) and len(test.ops) == 1:
        inv = {ast.NotEq: ast.Eq, ast.IsNot: ast.Is, ast.NotIn: ast.In}
        for k, v in inv.items():
            if isinstance(test.ops[0], k):
                t2 = ast.Compare(left=test.left, ops=[v()], comparators=test.comparators)
                return t2, not pol
    return test, pol


def branches(ifnode):
    """(canonical test, body if test true, body if test false) of an `if` — independent of the
    polarity the author chose"""
    t, pol = negate_test(ifnode.test)
    return (t, ifnode.body, ifnode.orelse) if pol else (t, ifnode.orelse, ifnode.body)


def _always_exits(stmts):
    """the statement list never falls through (ends in return / raise / continue / break on every
    path)"""
    if not stmts:
        return False
    last = stmts[-1]
    if isinstance(last, (ast.Return, ast.Raise, ast.Continue, ast.Break)):
        return True
    if isinstance(last, ast.If):
        return _always_exits(last.body) and _always_exits(last.orelse)
    return False


def _split(test, pol, out):
    if isinstance(test, ast.UnaryOp) and isinstance(test.op, ast.Not):
        return _split(test.operand, not pol, out)
    if isinstance(test, ast.BoolOp):
        if (isinstance(test.op, ast.And) and pol) or (isinstance(test.op, ast.Or) and not pol):
            for v in test.values:
                _split(v, pol, out)
            return
    t, p2 = negate_test(test)
    out.append((ast.unparse(t), pol if p2 else not pol, t))


def guards_of(func, node):
    """Conditions that hold whenever `node` executes, read off the block structure:
    enclosing `if`s (with polarity) and preceding guard clauses (`if T: return/raise/continue`
    earlier in an enclosing block gives `not T`). `A and B` holding, `A or B` failing and `not`
    are split; `!=`, `is not`, `not in` are normalised to their positive form.
    Returns a list of (text, polarity, expr). Apply to the normal form (inline_temps) so that
    named conditions are expanded."""
    out = []
    cur = node
    while cur is not func and cur is not None:
        p = getattr(cur, '_parent', None)
        if p is None:
            break
        for fld in ('body', 'orelse', 'finalbody'):
            blk = getattr(p, fld, None)
            if isinstance(blk, list) and any(cur is s for s in blk):
                idx = [i for i, s in enumerate(blk) if s is cur][0]
                for s in blk[:idx]:
                    if isinstance(s, ast.If):
                        if _always_exits(s.body) and not _always_exits(s.orelse):
                            _split(s.test, False, out)
                        elif s.orelse and _always_exits(s.orelse) and not _always_exits(s.body):
                            _split(s.test, True, out)
                if isinstance(p, ast.If):
                    _split(p.test, fld == 'body', out)
                elif isinstance(p, ast.While) and fld == 'body':
                    _split(p.test, True, out)
        cur = p
    return out


def guards_at(func, node):
    """guards_of the statement containing `node`, plus the conditions imposed inside the
    statement by enclosing conditional expressions (`x if t else y`), short-circuit `and`/`or`
    and comprehension filters"""
    out = []
    cur = node
    while not isinstance(cur, ast.stmt):
        p = getattr(cur, '_parent', None)
        if p is None:
            return out
        if isinstance(p, ast.IfExp):
            if cur is p.body:
                _split(p.test, True, out)
            elif cur is p.orelse:
                _split(p.test, False, out)
        elif isinstance(p, ast.BoolOp):
            idx = [i for i, v in enumerate(p.values) if v is cur]
            if idx:
                for v in p.values[:idx[0]]:
                    _split(v, isinstance(p.op, ast.And), out)
        elif isinstance(p, (ast.ListComp, ast.SetComp, ast.GeneratorExp, ast.DictComp)):
            if cur is getattr(p, 'elt', None) or cur is getattr(p, 'key', None) or \
                    cur is getattr(p, 'value', None):
                for g in p.generators:
                    for c in g.ifs:
                        _split(c, True, out)
        cur = p
    return out + guards_of(func, cur)


def iteration_source(func, name, at=None):
    """the collection a loop / comprehension variable `name` runs over (enumerate / zip position
    resolved), or None. With `at`: the innermost loop / comprehension enclosing that node."""
    if at is not None:
        cands = []
        cur = at
        while cur is not None and cur is not func:
            if isinstance(cur, ast.For):
                cands.append(cur)
            if isinstance(cur, (ast.ListComp, ast.SetComp, ast.GeneratorExp, ast.DictComp)):
                cands.extend(cur.generators)
            cur = getattr(cur, '_parent', None)
    else:
        cands = [n for n in ast.walk(func) if isinstance(n, (ast.For, ast.comprehension))]
    for n in cands:
        if isinstance(n, (ast.For, ast.comprehension)):
            tg, it = n.target, n.iter
            if isinstance(tg, ast.Name) and tg.id == name:
                return it
            if isinstance(tg, ast.Tuple) and isinstance(it, ast.Call) and \
                    isinstance(it.func, ast.Name):
                for k, e in enumerate(tg.elts):
                    if isinstance(e, ast.Name) and e.id == name:
                        if it.func.id == 'enumerate' and k == 1 and it.args:
                            return it.args[0]
                        if it.func.id == 'zip' and k < len(it.args):
                            return it.args[k]
    return None
