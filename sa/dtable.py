"""Decision tables: path enumeration of a (loop-free part of a) function under a truth assignment
of named boolean *atoms*, with constant propagation for local names.

Many small functions of the library are decision tables — "if both operators need a
Jordan-Wigner string use 'JW', if exactly one does raise, else 'Id'" — and what matters is the
table, not whether it is written as if/elif/else, as guard clauses, with the branches in another
order or with De Morgan applied. `run_paths` walks the statement structure, decides each `if`
from the atoms / propagated constants (exploring both branches when it cannot) and returns, per
feasible path, the outcome (`return`, `raise`, fall-through), the final constant environment and
the list of statements executed. Nothing of tenpy is imported or executed: tests are boolean
formulas over atoms given by the rule, values are literals taken from the AST.
"""
import ast

UNKNOWN = object()


class Path:
    def __init__(self, outcome, value, env, trace):
        self.outcome = outcome      # 'return' | 'raise' | 'fall'
        self.value = value          # ast expr of return / raise (or None)
        self.env = env              # name -> python constant | ast expr (last binding)
        self.trace = trace          # simple statements executed, in order

    def const(self, name, default=UNKNOWN):
        v = self.env.get(name, default)
        return v

    def __repr__(self):
        return '<Path %s %s>' % (self.outcome, {k: (v if not isinstance(v, ast.AST) else
                                                    ast.unparse(v)) for k, v in self.env.items()})


def eval_test(test, atoms, env):
    """True / False / None (unknown)"""
    if isinstance(test, ast.BoolOp):
        vals = [eval_test(v, atoms, env) for v in test.values]
        if isinstance(test.op, ast.And):
            if any(v is False for v in vals):
                return False
            return True if all(v is True for v in vals) else None
        if any(v is True for v in vals):
            return True
        return False if all(v is False for v in vals) else None
    if isinstance(test, ast.UnaryOp) and isinstance(test.op, ast.Not):
        v = eval_test(test.operand, atoms, env)
        return None if v is None else (not v)
    txt = ast.unparse(test)
    if txt in atoms:
        return bool(atoms[txt])
    if isinstance(test, ast.Call) and isinstance(test.func, ast.Name) and test.func.id == 'bool' \
            and len(test.args) == 1:
        return eval_test(test.args[0], atoms, env)
    if isinstance(test, ast.Constant):
        return bool(test.value)
    if isinstance(test, ast.IfExp):
        v = _val(test, atoms, env)
        return None if v is UNKNOWN else bool(v)
    if isinstance(test, ast.Name):
        v = env.get(test.id, UNKNOWN)
        if v is not UNKNOWN and not isinstance(v, ast.AST):
            return bool(v)
        if isinstance(v, ast.AST):
            return eval_test(v, atoms, {})
        return None
    if isinstance(test, ast.Compare) and len(test.ops) == 1:
        a, b = _val(test.left, atoms, env), _val(test.comparators[0], atoms, env)
        op = test.ops[0]
        if isinstance(op, (ast.Is, ast.IsNot)) and (a is None or b is None) and \
                (a is UNKNOWN or b is UNKNOWN):
            other = test.left if a is UNKNOWN else test.comparators[0]
            if _never_none(other, env):
                return isinstance(op, ast.IsNot)
        if a is UNKNOWN or b is UNKNOWN:
            t2 = ast.unparse(_subst(test, env))     # the test in terms of what the names hold
            if t2 in atoms:
                return bool(atoms[t2])
            return None
        if isinstance(op, (ast.Eq, ast.Is)):
            return a == b if isinstance(op, ast.Eq) else (a is b or (a == b and type(a) is type(b)))
        if isinstance(op, (ast.NotEq, ast.IsNot)):
            return a != b
        try:
            if isinstance(op, ast.Lt):
                return a < b
            if isinstance(op, ast.LtE):
                return a <= b
            if isinstance(op, ast.Gt):
                return a > b
            if isinstance(op, ast.GtE):
                return a >= b
            if isinstance(op, ast.In):
                return a in b
            if isinstance(op, ast.NotIn):
                return a not in b
        except TypeError:
            return None
    return None


def _never_none(e, env, depth=0):
    """expressions that cannot evaluate to None: arithmetic, displays, non-None literals"""
    if depth > 10:
        return False
    if isinstance(e, ast.Name):
        v = env.get(e.id, UNKNOWN)
        if isinstance(v, ast.AST):
            return _never_none(v, env, depth + 1)
        return v is not UNKNOWN and v is not None
    if isinstance(e, ast.Constant):
        return e.value is not None
    if isinstance(e, (ast.Tuple, ast.List, ast.Dict, ast.Set, ast.JoinedStr, ast.ListComp,
                      ast.DictComp, ast.SetComp, ast.Compare, ast.BoolOp)):
        return not isinstance(e, ast.BoolOp)
    if isinstance(e, ast.BinOp) and isinstance(e.op, (ast.Add, ast.Sub, ast.Mult, ast.Div,
                                                      ast.FloorDiv, ast.Mod, ast.Pow)):
        return True
    return False


def _val(e, atoms, env):
    if isinstance(e, ast.Constant):
        return e.value
    if isinstance(e, ast.Name):
        v = env.get(e.id, UNKNOWN)
        if isinstance(v, ast.AST):
            return _val(v, atoms, {})
        return v
    if isinstance(e, ast.Tuple):          # lists are mutable values: they stay expressions
        vals = [_val(x, atoms, env) for x in e.elts]
        if any(v is UNKNOWN for v in vals):
            return UNKNOWN
        return tuple(vals)
    txt = ast.unparse(e)
    if txt in atoms:
        return atoms[txt]
    if isinstance(e, (ast.ListComp, ast.GeneratorExp)) and len(e.generators) == 1 and \
            isinstance(e.generators[0].target, ast.Name):
        g = e.generators[0]
        src = _val(g.iter, atoms, env) if not isinstance(g.iter, ast.List) else _val(
            ast.Tuple(elts=g.iter.elts, ctx=ast.Load()), atoms, env)
        if not isinstance(src, tuple):
            return UNKNOWN
        out = []
        for item in src:
            env2 = dict(env)
            env2[g.target.id] = item
            keep = True
            for c in g.ifs:
                t = eval_test(c, atoms, env2)
                if t is None:
                    return UNKNOWN
                keep = keep and t
            if keep:
                v = _val(e.elt, atoms, env2)
                if v is UNKNOWN:
                    return UNKNOWN
                out.append(v)
        return tuple(out)
    if isinstance(e, ast.Call) and isinstance(e.func, ast.Name) and not e.keywords and \
            e.func.id in ('max', 'min', 'len', 'any', 'all', 'sum', 'tuple', 'list', 'sorted'):
        args = [_val(a, atoms, env) if not isinstance(a, ast.List) else _val(
            ast.Tuple(elts=a.elts, ctx=ast.Load()), atoms, env) for a in e.args]
        if any(a is UNKNOWN for a in args):
            return UNKNOWN
        try:
            r = {'max': max, 'min': min, 'len': len, 'any': any, 'all': all, 'sum': sum,
                 'tuple': tuple, 'list': tuple, 'sorted': lambda x: tuple(sorted(x))}[e.func.id](
                     *args)
        except (TypeError, ValueError):
            return UNKNOWN
        return r
    if isinstance(e, ast.IfExp):
        t = eval_test(e.test, atoms, env)
        if t is None:
            a, b = _val(e.body, atoms, env), _val(e.orelse, atoms, env)
            return a if (a is not UNKNOWN and a == b and type(a) is type(b)) else UNKNOWN
        return _val(e.body if t else e.orelse, atoms, env)
    if isinstance(e, (ast.BoolOp, ast.Compare)) or (
            isinstance(e, ast.UnaryOp) and isinstance(e.op, ast.Not)):
        t = eval_test(e, atoms, env)
        return UNKNOWN if t is None else t
    if isinstance(e, ast.UnaryOp) and isinstance(e.op, ast.USub):
        v = _val(e.operand, atoms, env)
        return -v if isinstance(v, (int, float)) else UNKNOWN
    if isinstance(e, ast.BinOp) and isinstance(e.op, (ast.Add, ast.Sub)):
        a, b = _val(e.left, atoms, env), _val(e.right, atoms, env)
        if isinstance(a, (int, float)) and isinstance(b, (int, float)) and \
                not isinstance(a, bool) and not isinstance(b, bool):
            return a + b if isinstance(e.op, ast.Add) else a - b
    return UNKNOWN


def run_paths(stmts, atoms, env=None, limit=256, substitute=True):
    """list of Path for the statement list under the truth assignment `atoms`
    (text of a sub-expression -> bool / constant) and initial constants `env`."""
    out = []

    def block(stmts, env, trace, k):
        if len(out) > limit:
            raise ValueError('too many paths')
        if not stmts:
            return k(env, trace)
        s0, rest = stmts[0], stmts[1:]

        def cont(e2, t2):
            return block(rest, e2, t2, k)

        if isinstance(s0, ast.If):
            v = eval_test(s0.test, atoms, env)
            if v is None or v is True:
                block(s0.body, dict(env), list(trace), cont)
            if v is None or v is False:
                block(s0.orelse, dict(env), list(trace), cont)
            return
        if isinstance(s0, ast.Return):
            out.append(Path('return', s0.value, env, trace))
            return
        if isinstance(s0, ast.Raise):
            out.append(Path('raise', s0.exc, env, trace))
            return
        if isinstance(s0, ast.Assert):
            v = eval_test(s0.test, atoms, env)
            if v is False:
                out.append(Path('raise', s0.test, env, trace))
                return
            return cont(env, trace + [s0])
        env = dict(env)
        if isinstance(s0, ast.Assign):
            for t in s0.targets:
                if isinstance(t, ast.Name):
                    v = _val(s0.value, atoms, env)
                    env[t.id] = v if v is not UNKNOWN else (
                        _subst(s0.value, env) if substitute else s0.value)
                elif isinstance(t, (ast.Tuple, ast.List)) and isinstance(
                        s0.value, (ast.Tuple, ast.List)) and len(t.elts) == len(s0.value.elts):
                    olds = [(_val(v, atoms, env), v) for v in s0.value.elts]
                    for te, (cv, ve) in zip(t.elts, olds):
                        if isinstance(te, ast.Name):
                            env[te.id] = cv if cv is not UNKNOWN else (
                                _subst(ve, env) if substitute else ve)
                elif isinstance(t, (ast.Tuple, ast.List)) and isinstance(
                        _val(s0.value, atoms, env), tuple) and \
                        len(_val(s0.value, atoms, env)) == len(t.elts):
                    for te, cv in zip(t.elts, _val(s0.value, atoms, env)):
                        if isinstance(te, ast.Name):
                            env[te.id] = cv
                else:
                    for x in ast.walk(t):
                        if isinstance(x, ast.Name) and isinstance(x.ctx, ast.Store):
                            env.pop(x.id, None)
        elif isinstance(s0, (ast.AugAssign, ast.For, ast.While, ast.With, ast.Try)):
            for x in ast.walk(s0):
                if isinstance(x, ast.Name) and isinstance(x.ctx, ast.Store):
                    env.pop(x.id, None)
        return cont(env, trace + [s0])

    block(list(stmts), dict(env or {}), [], lambda e, t: out.append(Path('fall', None, e, t)))
    return out


def to_ast(v):
    """literal python value -> ast expression (None if not a literal)"""
    if v is None or isinstance(v, (bool, int, float, str, complex)):
        return ast.Constant(v)
    if isinstance(v, tuple):
        elts = [to_ast(x) for x in v]
        if any(e is None for e in elts):
            return None
        return ast.Tuple(elts=elts, ctx=ast.Load())
    return None


def subst(expr, env):
    return _subst(expr, env)


def _subst(expr, env):
    """the expression with names replaced by what they were last bound to on this path (so that
    `x = f(a); a = g(x)` keeps the data flow); returns an ast expr"""
    class S(ast.NodeTransformer):
        def visit_Name(self, node):
            if isinstance(node.ctx, ast.Load) and node.id in env:
                v = env[node.id]
                if isinstance(v, ast.AST):
                    return v
                c = to_ast(v)
                if c is not None:
                    return c
            return node

    from .normal import _dc
    return ast.fix_missing_locations(S().visit(_dc(expr)))
