"""Lowering of the Cython parse tree of tenpy/linalg/_npc_helper.pyx to python `ast`, so the same
rules can be run on the compiled twins. Uses Cython.Compiler from the repository's own /venv
(parser only; nothing is compiled or executed).

C-level constructs: `cdef` declarations with initialiser -> Assign; without -> dropped;
`&x` -> __addr__(x); `<type>x` -> x; `with nogil:` -> body inlined; cdef/cpdef functions ->
FunctionDef (decorator `__cdef__`).
"""
import ast
import hashlib
import os

from .core import AnalysisError, set_parents

_OPS = {'+': ast.Add, '-': ast.Sub, '*': ast.Mult, '/': ast.Div, '//': ast.FloorDiv, '%': ast.Mod,
        '**': ast.Pow, '|': ast.BitOr, '&': ast.BitAnd, '^': ast.BitXor, '<<': ast.LShift,
        '>>': ast.RShift, '@': ast.MatMult}
_CMP = {'==': ast.Eq, '!=': ast.NotEq, '<': ast.Lt, '<=': ast.LtE, '>': ast.Gt, '>=': ast.GtE,
        'is': ast.Is, 'is_not': ast.IsNot, 'is not': ast.IsNot, 'in': ast.In, 'not_in': ast.NotIn,
        'not in': ast.NotIn}


def parse_pyx(path, have_mkl=0):
    try:
        from Cython.Compiler import Options, Parsing, Scanning
        from Cython.Compiler.Main import Context, default_options
        from Cython.Compiler.Symtab import ModuleScope
    except Exception as e:  # pragma: no cover
        raise AnalysisError('Cython parser not importable: %s' % e)
    opts = Options.CompilationOptions(default_options)
    ctx = Context.from_options(opts)
    src_desc = Scanning.FileSourceDescriptor(path)
    with open(path, encoding='utf-8') as f:
        scope = ModuleScope('_npc_helper', None, ctx)
        s = Scanning.PyrexScanner(f, src_desc, source_encoding='utf-8', scope=scope, context=ctx)
        s.compile_time_env.update({'HAVE_MKL': have_mkl, 'MKL_INTERFACE_LAYER': 0})
        try:
            return Parsing.p_module(s, 0, '_npc_helper')
        except Exception as e:
            raise AnalysisError('cannot parse %s: %s' % (path, e))


class Lower:
    def __init__(self):
        self.unknown = set()

    def pos(self, n, node):
        p = getattr(n, 'pos', None)
        if p and len(p) >= 3:
            node.lineno = p[1]
            node.col_offset = p[2]
        else:
            node.lineno = 1
            node.col_offset = 0
        node.end_lineno = node.lineno
        node.end_col_offset = node.col_offset
        return node

    # ---------------- statements
    def stmts(self, n):
        if n is None:
            return []
        k = type(n).__name__
        if k == 'StatListNode':
            out = []
            for s in n.stats:
                out.extend(self.stmts(s))
            return out
        m = getattr(self, 's_' + k, None)
        if m is None:
            self.unknown.add(k)
            return []
        r = m(n)
        if r is None:
            return []
        if isinstance(r, list):
            return [self.pos(n, x) if not hasattr(x, 'lineno') else x for x in r]
        return [self.pos(n, r)]

    def body(self, n):
        b = self.stmts(n)
        return b or [ast.Pass(lineno=1, col_offset=0)]

    def s_SingleAssignmentNode(self, n):
        return ast.Assign(targets=[self.store(self.e(n.lhs))], value=self.e(n.rhs))

    def s_CascadedAssignmentNode(self, n):
        return ast.Assign(targets=[self.store(self.e(x)) for x in n.lhs_list], value=self.e(n.rhs))

    def s_InPlaceAssignmentNode(self, n):
        op = _OPS.get(n.operator, ast.Add)()
        return ast.AugAssign(target=self.store(self.e(n.lhs)), op=op, value=self.e(n.rhs))

    def s_CVarDefNode(self, n):
        out = []
        for d in n.declarators:
            base = d
            while type(base).__name__ in ('CPtrDeclaratorNode', 'CReferenceDeclaratorNode',
                                          'CArrayDeclaratorNode'):
                base = base.base
            if type(base).__name__ == 'CNameDeclaratorNode' and base.default is not None:
                a = ast.Assign(targets=[ast.Name(id=base.name, ctx=ast.Store())],
                               value=self.e(base.default))
                out.append(self.pos(d, a))
        return out

    def s_ExprStatNode(self, n):
        return ast.Expr(value=self.e(n.expr))

    def s_IfStatNode(self, n):
        orelse = self.stmts(n.else_clause) if n.else_clause is not None else []
        for cl in reversed(n.if_clauses):
            node = ast.If(test=self.e(cl.condition), body=self.body(cl.body), orelse=orelse)
            self.pos(cl, node)
            orelse = [node]
        return orelse[0]

    def s_ForInStatNode(self, n):
        it = n.iterator
        seq = it.sequence if type(it).__name__ == 'IteratorNode' else it
        return ast.For(target=self.store(self.e(n.target)), iter=self.e(seq),
                       body=self.body(n.body),
                       orelse=self.stmts(n.else_clause) if n.else_clause is not None else [])

    def s_ForFromStatNode(self, n):
        return ast.For(target=self.store(self.e(n.target)),
                       iter=ast.Call(func=ast.Name(id='range', ctx=ast.Load()),
                                     args=[self.e(n.bound1), self.e(n.bound2)], keywords=[]),
                       body=self.body(n.body), orelse=[])

    def s_WhileStatNode(self, n):
        return ast.While(test=self.e(n.condition), body=self.body(n.body),
                         orelse=self.stmts(n.else_clause) if n.else_clause is not None else [])

    def s_ReturnStatNode(self, n):
        return ast.Return(value=self.e(n.value) if n.value is not None else None)

    def s_RaiseStatNode(self, n):
        return ast.Raise(exc=self.e(n.exc_type) if n.exc_type is not None else None, cause=None)

    def s_AssertStatNode(self, n):
        cond = getattr(n, 'condition', None)
        return ast.Assert(test=self.e(cond) if cond is not None else ast.Constant(True), msg=None)

    def s_BreakStatNode(self, n):
        return ast.Break()

    def s_ContinueStatNode(self, n):
        return ast.Continue()

    def s_PassStatNode(self, n):
        return ast.Pass()

    def s_GILStatNode(self, n):
        return self.stmts(n.body)

    def s_TryExceptStatNode(self, n):
        handlers = []
        for c in n.except_clauses:
            h = ast.ExceptHandler(type=None, name=None, body=self.body(c.body))
            handlers.append(self.pos(c, h))
        return ast.Try(body=self.body(n.body), handlers=handlers,
                       orelse=self.stmts(n.else_clause) if n.else_clause is not None else [],
                       finalbody=[])

    def s_TryFinallyStatNode(self, n):
        return ast.Try(body=self.body(n.body), handlers=[], orelse=[],
                       finalbody=self.body(n.finally_clause))

    def _args(self, arglist, star=None, starstar=None):
        args = []
        defaults = []
        for a in arglist:
            d = a.declarator
            while type(d).__name__ in ('CPtrDeclaratorNode', 'CReferenceDeclaratorNode',
                                       'CArrayDeclaratorNode'):
                d = d.base
            name = getattr(d, 'name', None)
            if not name:
                # `def f(self, x)`: untyped arguments keep their name in base_type
                name = getattr(a.base_type, 'name', None) or 'arg%d' % len(args)
            args.append(ast.arg(arg=name, annotation=None))
            if a.default is not None:
                defaults.append(self.e(a.default))
            elif defaults:
                defaults.append(ast.Constant(None))
        return ast.arguments(posonlyargs=[], args=args,
                             vararg=ast.arg(arg=star.name) if star is not None else None,
                             kwonlyargs=[], kw_defaults=[],
                             kwarg=ast.arg(arg=starstar.name) if starstar is not None else None,
                             defaults=defaults)

    def s_DefNode(self, n):
        decs = []
        for d in (n.decorators or []):
            decs.append(self.e(d.decorator))
        return ast.FunctionDef(name=n.name, args=self._args(n.args, n.star_arg, n.starstar_arg),
                               body=self.body(n.body), decorator_list=decs, returns=None,
                               type_params=[])

    def s_CFuncDefNode(self, n):
        d = n.declarator
        while type(d).__name__ != 'CFuncDeclaratorNode':
            d = d.base
        base = d.base
        while type(base).__name__ in ('CPtrDeclaratorNode', 'CReferenceDeclaratorNode'):
            base = base.base
        return ast.FunctionDef(name=base.name, args=self._args(d.args), body=self.body(n.body),
                               decorator_list=[ast.Name(id='__cdef__', ctx=ast.Load())],
                               returns=None, type_params=[])

    def s_CClassDefNode(self, n):
        return ast.ClassDef(name=n.class_name, bases=[], keywords=[], body=self.body(n.body),
                            decorator_list=[], type_params=[])

    def s_PyClassDefNode(self, n):
        return ast.ClassDef(name=n.name, bases=[], keywords=[], body=self.body(n.body),
                            decorator_list=[], type_params=[])

    # declarations / imports: no effect on the rules
    def _skip(self, n):
        return []
    s_CTypeDefNode = s_FromCImportStatNode = s_FromImportStatNode = s_CImportStatNode = _skip
    s_CStructOrUnionDefNode = s_CEnumDefNode = s_CDefExternNode = s_GlobalNode = _skip
    s_PropertyNode = _skip

    # ---------------- expressions
    def store(self, node):
        for n in ast.walk(node):
            if isinstance(n, (ast.Name, ast.Attribute, ast.Subscript, ast.Tuple, ast.List,
                              ast.Starred)):
                n.ctx = ast.Store()
            if isinstance(n, (ast.Attribute, ast.Subscript)):
                # only the outermost is a store
                for ch in ast.walk(n.value):
                    if hasattr(ch, 'ctx'):
                        ch.ctx = ast.Load()
                if isinstance(n, ast.Subscript):
                    for ch in ast.walk(n.slice):
                        if hasattr(ch, 'ctx'):
                            ch.ctx = ast.Load()
        return node

    def e(self, n):
        if n is None:
            return ast.Constant(None)
        k = type(n).__name__
        m = getattr(self, 'e_' + k, None)
        if m is None:
            # generic binary operators (NumBinopNode family)
            if hasattr(n, 'operand1') and hasattr(n, 'operand2') and hasattr(n, 'operator') and \
                    n.operator in _OPS:
                r = ast.BinOp(left=self.e(n.operand1), op=_OPS[n.operator](),
                              right=self.e(n.operand2))
                return self.pos(n, r)
            self.unknown.add(k)
            return self.pos(n, ast.Name(id='__unknown_%s__' % k, ctx=ast.Load()))
        return self.pos(n, m(n))

    def e_NameNode(self, n):
        return ast.Name(id=n.name, ctx=ast.Load())

    def e_AttributeNode(self, n):
        return ast.Attribute(value=self.e(n.obj), attr=n.attribute, ctx=ast.Load())

    def e_SimpleCallNode(self, n):
        return ast.Call(func=self.e(n.function), args=[self.e(a) for a in n.args], keywords=[])

    def e_GeneralCallNode(self, n):
        args = []
        pa = n.positional_args
        if type(pa).__name__ == 'TupleNode':
            args = [self.e(a) for a in pa.args]
        elif pa is not None:
            args = [ast.Starred(value=self.e(pa), ctx=ast.Load())]
        kws = []
        ka = n.keyword_args
        if ka is not None and type(ka).__name__ == 'DictNode':
            for it in ka.key_value_pairs:
                kws.append(ast.keyword(arg=str(it.key.value), value=self.e(it.value)))
        elif ka is not None:
            kws.append(ast.keyword(arg=None, value=self.e(ka)))
        return ast.Call(func=self.e(n.function), args=args, keywords=kws)

    def e_IndexNode(self, n):
        return ast.Subscript(value=self.e(n.base), slice=self.e(n.index), ctx=ast.Load())

    def e_SliceIndexNode(self, n):
        sl = ast.Slice(lower=self.e(n.start) if n.start is not None else None,
                       upper=self.e(n.stop) if n.stop is not None else None, step=None)
        return ast.Subscript(value=self.e(n.base), slice=sl, ctx=ast.Load())

    def e_SliceNode(self, n):
        def part(x):
            return None if x is None or type(x).__name__ == 'NoneNode' else self.e(x)
        return ast.Slice(lower=part(n.start), upper=part(n.stop), step=part(n.step))

    def e_IntNode(self, n):
        v = str(n.value).rstrip('ULul')
        try:
            return ast.Constant(int(v, 0))
        except ValueError:
            return ast.Constant(0)

    def e_FloatNode(self, n):
        try:
            return ast.Constant(float(n.value))
        except ValueError:
            return ast.Constant(0.0)

    def e_ImagNode(self, n):
        try:
            return ast.Constant(complex(0, float(n.value)))
        except ValueError:
            return ast.Constant(1j)

    def e_BoolNode(self, n):
        return ast.Constant(bool(n.value))

    def e_NoneNode(self, n):
        return ast.Constant(None)

    def e_EllipsisNode(self, n):
        return ast.Constant(Ellipsis)

    def _str(self, n):
        return ast.Constant(str(n.value))
    e_UnicodeNode = e_IdentifierStringNode = e_BytesNode = e_StringNode = _str

    def e_JoinedStrNode(self, n):
        return ast.Constant('<fstring>')

    def _seq(self, n, cls):
        r = cls(elts=[self.e(a) for a in n.args], ctx=ast.Load())
        if getattr(n, 'mult_factor', None) is not None:
            return ast.BinOp(left=r, op=ast.Mult(), right=self.e(n.mult_factor))
        return r

    def e_TupleNode(self, n):
        return self._seq(n, ast.Tuple)

    def e_ListNode(self, n):
        return self._seq(n, ast.List)

    def e_SetNode(self, n):
        return ast.Set(elts=[self.e(a) for a in n.args])

    def e_DictNode(self, n):
        return ast.Dict(keys=[self.e(i.key) for i in n.key_value_pairs],
                        values=[self.e(i.value) for i in n.key_value_pairs])

    def e_PrimaryCmpNode(self, n):
        ops = [_CMP.get(n.operator, ast.Eq)()]
        comps = [self.e(n.operand2)]
        c = n.cascade
        while c is not None:
            ops.append(_CMP.get(c.operator, ast.Eq)())
            comps.append(self.e(c.operand2))
            c = c.cascade
        return ast.Compare(left=self.e(n.operand1), ops=ops, comparators=comps)

    def e_BoolBinopNode(self, n):
        op = ast.And() if n.operator == 'and' else ast.Or()
        return ast.BoolOp(op=op, values=[self.e(n.operand1), self.e(n.operand2)])

    def e_NotNode(self, n):
        return ast.UnaryOp(op=ast.Not(), operand=self.e(n.operand))

    def e_UnaryMinusNode(self, n):
        return ast.UnaryOp(op=ast.USub(), operand=self.e(n.operand))

    def e_UnaryPlusNode(self, n):
        return ast.UnaryOp(op=ast.UAdd(), operand=self.e(n.operand))

    def e_TildeNode(self, n):
        return ast.UnaryOp(op=ast.Invert(), operand=self.e(n.operand))

    def e_AmpersandNode(self, n):
        return ast.Call(func=ast.Name(id='__addr__', ctx=ast.Load()), args=[self.e(n.operand)],
                        keywords=[])

    def e_TypecastNode(self, n):
        return self.e(n.operand)

    def e_SizeofVarNode(self, n):
        return ast.Call(func=ast.Name(id='sizeof', ctx=ast.Load()), args=[self.e(n.operand)],
                        keywords=[])

    def e_SizeofTypeNode(self, n):
        return ast.Call(func=ast.Name(id='sizeof', ctx=ast.Load()), args=[], keywords=[])

    def e_CondExprNode(self, n):
        return ast.IfExp(test=self.e(n.test), body=self.e(n.true_val), orelse=self.e(n.false_val))

    def e_StarredUnpackingNode(self, n):
        return ast.Starred(value=self.e(n.target), ctx=ast.Load())

    def e_LambdaNode(self, n):
        return ast.Name(id='__lambda__', ctx=ast.Load())

    def e_ComprehensionNode(self, n):
        # loop: ForInStatNode(... body -> [IfStatNode ->] ComprehensionAppendNode(expr))
        gens = []
        cur = n.loop
        elt = None
        while cur is not None:
            k = type(cur).__name__
            if k == 'ForInStatNode':
                it = cur.iterator
                seq = it.sequence if type(it).__name__ == 'IteratorNode' else it
                gens.append(ast.comprehension(target=self.store(self.e(cur.target)),
                                              iter=self.e(seq), ifs=[], is_async=0))
                cur = cur.body
            elif k == 'IfStatNode' and gens:
                gens[-1].ifs.append(self.e(cur.if_clauses[0].condition))
                cur = cur.if_clauses[0].body
            elif k == 'StatListNode' and len(cur.stats) == 1:
                cur = cur.stats[0]
            elif k == 'ComprehensionAppendNode':
                elt = self.e(cur.expr)
                cur = None
            else:
                break
        if elt is None or not gens:
            return ast.Name(id='__comprehension__', ctx=ast.Load())
        return ast.ListComp(elt=elt, generators=gens)


class PyxModule:
    """Same interface as core.Module for the functions of the .pyx"""

    def __init__(self, relpath, path, have_mkl=0):
        self.relpath = relpath
        with open(path, encoding='utf-8') as f:
            self.source = f.read()
        self.digest = hashlib.sha256(self.source.encode()).hexdigest()[:16]
        ctree = parse_pyx(path, have_mkl)
        lo = Lower()
        body = lo.stmts(ctree.body)
        self.tree = ast.Module(body=body, type_ignores=[])
        ast.fix_missing_locations(self.tree)
        set_parents(self.tree)
        self.unknown_nodes = sorted(lo.unknown)
        self.functions = {}
        self.classes = {}
        for st in self.tree.body:
            if isinstance(st, ast.FunctionDef):
                self.functions[st.name] = st
                st._qualname = st.name
                st._module = self
        # sanity: the lowered tree must be printable
        try:
            ast.unparse(self.tree)
        except Exception as e:
            raise AnalysisError('lowered pyx tree is not well-formed: %s' % e)

    def func(self, name):
        f = self.functions.get(name)
        if f is None:
            raise AnalysisError('anchor vanished: %s in %s' % (name, self.relpath))
        return f

    def has_func(self, name):
        return name in self.functions


_CACHE = {}


def load_pyx(prog, have_mkl=0):
    rel = 'tenpy/linalg/_npc_helper.pyx'
    key = (prog.repo, have_mkl)
    if key not in _CACHE:
        p = os.path.join(prog.repo, rel)
        if not os.path.exists(p):
            raise AnalysisError('anchor vanished: file %s' % rel)
        _CACHE[key] = PyxModule(rel, p, have_mkl)
    return _CACHE[key]
