"""Result-discipline helper (R-ERRFLOW): does the value produced by a call reach a sink (return,
attribute/subscript store, argument of another call, accumulation into such a name)?"""
import ast

from .core import body_nodes, enclosing_stmt, names_in, stmts_of, unparse


def bound_names(call, index=None):
    """Classify the immediate fate of `call`'s result.
    Returns (kind, names): kind in 'discarded' | 'sink' | 'names'"""
    st = enclosing_stmt(call)
    if isinstance(st, ast.Expr):
        if st.value is call:
            return 'discarded', []
        return 'sink', []  # argument of another call etc.
    if isinstance(st, ast.Return):
        return 'sink', []
    if isinstance(st, ast.AugAssign):
        t = st.target
        if isinstance(t, ast.Name):
            return 'names', [t.id]
        return 'sink', []
    if isinstance(st, (ast.Assign, ast.AnnAssign)):
        targets = st.targets if isinstance(st, ast.Assign) else [st.target]
        names = []
        sink = False
        for t in targets:
            if isinstance(t, (ast.Tuple, ast.List)) and st.value is call and index is not None:
                elts = t.elts
                if any(isinstance(e, ast.Starred) for e in elts):
                    return 'sink', []
                k = index if index >= 0 else len(elts) + index
                if k >= len(elts):
                    return 'discarded', []
                e = elts[k]
                if isinstance(e, ast.Name):
                    names.append(e.id)
                else:
                    sink = True
            elif isinstance(t, ast.Name):
                names.append(t.id)
            elif isinstance(t, (ast.Tuple, ast.List)):
                for e in t.elts:
                    if isinstance(e, ast.Name):
                        names.append(e.id)
                    else:
                        sink = True
            else:
                sink = True
        if sink:
            return 'sink', names
        return 'names', names
    # inside if/while test, with, for iter...: treated as used
    return 'sink', []


def reaches_sink(func, names, ignore_calls=('debug', 'info', 'warning', 'warn', 'log', 'print',
                                            'format', 'str', 'repr', 'isinstance')):
    """Flow-insensitive: does any of `names` reach a return / store into attribute, subscript /
    argument of a (non-logging) call / yield?"""
    names = set(n for n in names if n != '_')
    if not names:
        return False
    changed = True
    while changed:
        changed = False
        for st in stmts_of(func):
            if isinstance(st, ast.Return) and st.value is not None and names & names_in(st.value):
                return True
            if isinstance(st, (ast.Assign, ast.AugAssign, ast.AnnAssign)):
                val = st.value
                if val is None or not (names & names_in(val)):
                    # `x += y` keeps x tainted; nothing new
                    continue
                targets = st.targets if isinstance(st, ast.Assign) else [st.target]
                for t in targets:
                    for e in (t.elts if isinstance(t, (ast.Tuple, ast.List)) else [t]):
                        if isinstance(e, ast.Name):
                            if e.id not in names and e.id != '_':
                                names.add(e.id)
                                changed = True
                        else:
                            return True  # stored into attribute / container
            if isinstance(st, ast.Expr):
                for c in ast.walk(st.value):
                    if isinstance(c, ast.Call):
                        fn = c.func.attr if isinstance(c.func, ast.Attribute) else (
                            c.func.id if isinstance(c.func, ast.Name) else '')
                        if fn in ignore_calls:
                            continue
                        for a in list(c.args) + [k.value for k in c.keywords]:
                            if names & names_in(a):
                                return True
                    if isinstance(c, (ast.Yield, ast.YieldFrom)) and c.value is not None and \
                            names & names_in(c.value):
                        return True
        # dict literals / update_data = {'err': err} handled by Assign above
    return False


def check_errflow(func, producers, qual, module, rep, rule, allow_discard=()):
    """producers: {callee simple name: tuple index of the error or None}. Every such call in
    `func` must pass its error on."""
    n = 0
    for c in body_nodes(func):
        if not isinstance(c, ast.Call):
            continue
        nm = c.func.attr if isinstance(c.func, ast.Attribute) else (
            c.func.id if isinstance(c.func, ast.Name) else None)
        if nm not in producers:
            continue
        idx = producers[nm]
        n += 1
        desc = {'function': qual, 'call': unparse(c)[:80]}
        rep.instance(rule, desc)
        kind, names = bound_names(c, idx)
        ok = kind == 'sink' or (kind == 'names' and reaches_sink(func, names))
        if not ok and not any(a in unparse(c) for a in allow_discard):
            rep.violation(rule, module, qual, 'dropped-error:' + nm,
                          'the truncation error produced by `%s` is %s: it never reaches the '
                          'value this function reports, so the reported error is smaller than the '
                          'sum of the truncations performed' %
                          (unparse(c)[:70], 'discarded' if kind == 'discarded' else
                           'bound to %s but never accumulated/returned' % names), c.lineno)
    return n


def reaching_defs(func):
    """Classic reaching definitions over the statement CFG. Returns (cfg, rd_in) where
    rd_in[node.id] maps a local name to the frozenset of keys of the statements whose binding of
    that name may reach the node ('<param>' for parameters)."""
    from .cfg import CFG
    from .core import assigned_targets, key_text, params
    cfg = CFG(func)
    init = tuple(sorted((p, frozenset(['<param>'])) for p in params(func)))

    def transfer(n, st):
        if n.stmt is None:
            return st
        names = [t.id for t in assigned_targets(n.stmt) if isinstance(t, ast.Name)]
        if not names:
            return st
        d = dict(st)
        k = key_text(n.stmt)
        for nm in names:
            if isinstance(n.stmt, ast.AugAssign):
                d[nm] = d.get(nm, frozenset()) | frozenset([k])
            else:
                d[nm] = frozenset([k])
        return tuple(sorted(d.items()))

    def join(a, b):
        d = dict(a)
        for k, v in b:
            d[k] = d.get(k, frozenset()) | v
        return tuple(sorted(d.items()))

    sin, _ = cfg.forward(init, transfer, join)
    return cfg, {k: dict(v) for k, v in sin.items()}
