"""Result-discipline helper (R-ERRFLOW): does the value produced by a call reach a sink (return,
attribute/subscript store, argument of another call, accumulation into such a name)?"""
import ast

from .core import body_nodes, enclosing_stmt, names_in, stmts_of, unparse


def bound_names(call, index=None):
    """Classify the immediate fate of `call`'s result.
    Returns (kind, names): kind in 'discarded' | 'sink' | 'names'"""
    st = enclosing_stmt(call)
    if isinstance(st, ast.Expr):
        if st.value is call:
            return 'discarded', []
        return 'sink', []  # argument of another call etc.
    if isinstance(st, ast.Return):
        return 'sink', []
    if isinstance(st, ast.AugAssign):
        t = st.target
        if isinstance(t, ast.Name):
            return 'names', [t.id]
        return 'sink', []
    if isinstance(st, (ast.Assign, ast.AnnAssign)):
        targets = st.targets if isinstance(st, ast.Assign) else [st.target]
        names = []
        sink = False
        for t in targets:
            if isinstance(t, (ast.Tuple, ast.List)) and st.value is call and index is not None:
                elts = t.elts
                if any(isinstance(e, ast.Starred) for e in elts):
                    return 'sink', []
                k = index if index >= 0 else len(elts) + index
                if k >= len(elts):
                    return 'discarded', []
                e = elts[k]
                if isinstance(e, ast.Name):
                    names.append(e.id)
                else:
                    sink = True
            elif isinstance(t, ast.Name):
                names.append(t.id)
            elif isinstance(t, (ast.Tuple, ast.List)):
                for e in t.elts:
                    if isinstance(e, ast.Name):
                        names.append(e.id)
                    else:
                        sink = True
            else:
                sink = True
        if sink:
            return 'sink', names
        return 'names', names
    # inside if/while test, with, for iter...: treated as used
    return 'sink', []


def reaches_sink(func, names, ignore_calls=('debug', 'info', 'warning', 'warn', 'log', 'print',
                                            'format', 'str', 'repr', 'isinstance')):
    """Flow-insensitive: does any of `names` reach a return / store into attribute, subscript /
    argument of a (non-logging) call / yield?"""
    names = set(n for n in names if n != '_')
    if not names:
        return False
    changed = True
    while changed:
        changed = False
        for st in stmts_of(func):
            if isinstance(st, ast.Return) and st.value is not None and names & names_in(st.value):
                return True
            if isinstance(st, (ast.Assign, ast.AugAssign, ast.AnnAssign)):
                val = st.value
                if val is None or not (names & names_in(val)):
                    # `x += y` keeps x tainted; nothing new
                    continue
                targets = st.targets if isinstance(st, ast.Assign) else [st.target]
                for t in targets:
                    for e in (t.elts if isinstance(t, (ast.Tuple, ast.List)) else [t]):
                        if isinstance(e, ast.Name):
                            if e.id not in names and e.id != '_':
                                names.add(e.id)
                                changed = True
                        else:
                            return True  # stored into attribute / container
            if isinstance(st, ast.Expr):
                for c in ast.walk(st.value):
                    if isinstance(c, ast.Call):
                        fn = c.func.attr if isinstance(c.func, ast.Attribute) else (
                            c.func.id if isinstance(c.func, ast.Name) else '')
                        if fn in ignore_calls:
                            continue
                        for a in list(c.args) + [k.value for k in c.keywords]:
                            if names & names_in(a):
                                return True
                    if isinstance(c, (ast.Yield, ast.YieldFrom)) and c.value is not None and \
                            names & names_in(c.value):
                        return True
        # dict literals / update_data = {'err': err} handled by Assign above
    return False


def check_errflow(func, producers, qual, module, rep, rule, allow_discard=()):
    """producers: {callee simple name: tuple index of the error or None}. Every such call in
    `func` must pass its error on."""
    n = 0
    for c in body_nodes(func):
        if not isinstance(c, ast.Call):
            continue
        nm = c.func.attr if isinstance(c.func, ast.Attribute) else (
            c.func.id if isinstance(c.func, ast.Name) else None)
        if nm not in producers:
            continue
        idx = producers[nm]
        n += 1
        desc = {'function': qual, 'call': unparse(c)[:80]}
        rep.instance(rule, desc)
        kind, names = bound_names(c, idx)
        ok = kind == 'sink' or (kind == 'names' and reaches_sink(func, names))
        # a plain assignment inside a loop keeps only the error of the LAST iteration when the
        # name is the accumulator itself (it is `+=`-ed elsewhere / returned after the loop)
        if ok and kind == 'names':
            from .core import in_loop, parent
            st = c
            while not isinstance(st, ast.stmt):
                st = parent(st)
            if isinstance(st, ast.Assign) and in_loop(st, func) and len(st.targets) == 1 and \
                    isinstance(st.targets[0], ast.Name):
                nm0 = st.targets[0].id
                lp = st
                while not isinstance(lp, (ast.For, ast.While)):
                    lp = parent(lp)
                used_in_loop = any(isinstance(x, ast.Name) and x.id == nm0 and
                                   isinstance(x.ctx, ast.Load) for x in ast.walk(lp))
                returned = any(isinstance(r, ast.Return) and r.value is not None and any(
                    isinstance(x, ast.Name) and x.id == nm0 for x in ast.walk(r.value))
                    for r in ast.walk(func))
                if returned and not used_in_loop:
                    rep.violation(rule, module, qual, 'last-wins:' + nm,
                                  '`%s` re-binds `%s` in every iteration of the loop and nothing '
                                  'in the loop reads it: only the error of the last truncation '
                                  'reaches the returned value' % (unparse(st)[:70], nm0),
                                  st.lineno)
        if not ok and not any(a in unparse(c) for a in allow_discard):
            rep.violation(rule, module, qual, 'dropped-error:' + nm,
                          'the truncation error produced by `%s` is %s: it never reaches the '
                          'value this function reports, so the reported error is smaller than the '
                          'sum of the truncations performed' %
                          (unparse(c)[:70], 'discarded' if kind == 'discarded' else
                           'bound to %s but never accumulated/returned' % names), c.lineno)
    return n


def reaching_defs(func, by_line=False):
    """Classic reaching definitions over the statement CFG. Returns (cfg, rd_in) where
    rd_in[node.id] maps a local name to the frozenset of keys of the statements whose binding of
    that name may reach the node ('<param>' for parameters)."""
    from .cfg import CFG
    from .core import assigned_targets, key_text, params
    cfg = CFG(func)
    init = tuple(sorted((p, frozenset(['<param>'])) for p in params(func)))

    def transfer(n, st):
        if n.stmt is None:
            return st
        names = [t.id for t in assigned_targets(n.stmt) if isinstance(t, ast.Name)]
        if not names:
            return st
        d = dict(st)
        k = key_text(n.stmt) if not by_line else (key_text(n.stmt), n.stmt.lineno)
        for nm in names:
            if isinstance(n.stmt, ast.AugAssign):
                d[nm] = d.get(nm, frozenset()) | frozenset([k])
            else:
                d[nm] = frozenset([k])
        return tuple(sorted(d.items()))

    def join(a, b):
        d = dict(a)
        for k, v in b:
            d[k] = d.get(k, frozenset()) | v
        return tuple(sorted(d.items()))

    sin, _ = cfg.forward(init, transfer, join)
    return cfg, {k: dict(v) for k, v in sin.items()}


def _header_exprs(st):
    """Expressions evaluated by the CFG node that stands for statement `st`."""
    if isinstance(st, ast.If) or isinstance(st, ast.While):
        return [st.test]
    if isinstance(st, (ast.For, ast.AsyncFor)):
        return [st.iter]
    if isinstance(st, (ast.With, ast.AsyncWith)):
        return [it.context_expr for it in st.items]
    if isinstance(st, ast.Try) or (hasattr(ast, 'TryStar') and isinstance(st, ast.TryStar)):
        return []
    if hasattr(ast, 'Match') and isinstance(st, ast.Match):
        return [st.subject]
    if isinstance(st, (ast.FunctionDef, ast.AsyncFunctionDef, ast.ClassDef)):
        return list(st.decorator_list)
    if isinstance(st, ast.ExceptHandler):
        return [st.type] if st.type is not None else []
    return [st]


def _loads(expr):
    """Names loaded when `expr` is evaluated now (nested def/lambda bodies run later; names bound
    by a comprehension or lambda inside the expression are its own)."""
    own = set()
    out = []

    def walk(n):
        if isinstance(n, (ast.FunctionDef, ast.AsyncFunctionDef, ast.Lambda, ast.ClassDef)):
            return
        if isinstance(n, (ast.ListComp, ast.SetComp, ast.DictComp, ast.GeneratorExp)):
            for g in n.generators:
                for t in ast.walk(g.target):
                    if isinstance(t, ast.Name):
                        own.add(t.id)
        if isinstance(n, ast.Name) and isinstance(n.ctx, ast.Load):
            out.append(n)
        for ch in ast.iter_child_nodes(n):
            walk(ch)

    walk(expr)
    return [n for n in out if n.id not in own]


def possibly_undefined(func):
    """Definite-assignment analysis on the statement CFG: yields (name, stmt, Name node) for every
    read of a local name that some path from the function entry reaches without binding it.
    Path-insensitive (correlated guards are reported): callers confirm instances."""
    from .cfg import CFG
    from .core import assigned_targets, params
    cfg = CFG(func)
    bound_here = {}
    escaping = set()
    for n in ast.walk(func):
        if isinstance(n, (ast.Global, ast.Nonlocal)):
            escaping.update(n.names)
    localnames = set()
    for nd in cfg.nodes:
        st = nd.stmt
        if st is None:
            continue
        names = set()
        for t in assigned_targets(st):
            if isinstance(t, ast.Name):
                names.add(t.id)
        if isinstance(st, (ast.Import, ast.ImportFrom)):
            for a in st.names:
                names.add((a.asname or a.name).split('.')[0])
        if isinstance(st, (ast.FunctionDef, ast.AsyncFunctionDef, ast.ClassDef)):
            names.add(st.name)
        if isinstance(st, ast.ExceptHandler) and st.name:
            names.add(st.name)
        for e in _header_exprs(st):
            for w in ast.walk(e) if not isinstance(e, ast.stmt) or True else ():
                if isinstance(w, ast.NamedExpr) and isinstance(w.target, ast.Name):
                    names.add(w.target.id)
        bound_here[nd.id] = names
        localnames |= names
    # handler names / names bound in constructs the CFG folds into one node
    for n in ast.walk(func):
        if isinstance(n, ast.ExceptHandler) and n.name:
            escaping.add(n.name)
    localnames -= escaping
    a = func.args
    localnames -= {x.arg for x in a.posonlyargs + a.args + a.kwonlyargs}
    localnames -= {x.arg for x in (a.vararg, a.kwarg) if x is not None}
    init = frozenset(localnames)       # set of names that MAY be unbound

    def transfer(nd, st):
        b = bound_here.get(nd.id)
        if not b:
            return st
        if isinstance(nd.stmt, ast.Delete):
            return st
        return st - b

    sin, _ = cfg.forward(init, transfer, lambda a, b: a | b)
    binders = {}
    for nd in cfg.nodes:
        for nm in bound_here.get(nd.id, ()):
            if nd.stmt not in binders.setdefault(nm, []):
                binders[nm].append(nd.stmt)
    out = []
    for nd in cfg.nodes:
        st = nd.stmt
        if st is None or nd.id not in sin:
            continue
        maybe = sin[nd.id]
        if not maybe:
            continue
        for e in _header_exprs(st):
            cands = []
            if isinstance(e, ast.AugAssign) and isinstance(e.target, ast.Name) and \
                    e.target.id in maybe:
                cands.append(e.target)
            cands += [nm for nm in _loads(e) if nm.id in maybe]
            for nm in cands:
                if not _guarded(func, nm.id, st, binders.get(nm.id, [])):
                    out.append((nm.id, st, nm))
    return out


def _conds(func, st):
    """Chain of (test text, polarity) of the `if`s enclosing st, outermost first, and the loops."""
    from .core import parent
    chain = []
    loops = []
    cur = st
    while cur is not func and cur is not None:
        p = parent(cur)
        if isinstance(p, ast.If):
            if cur in p.body:
                chain.append((ast.unparse(p.test), True, p))
            elif cur in p.orelse:
                chain.append((ast.unparse(p.test), False, p))
        if isinstance(p, (ast.For, ast.AsyncFor, ast.While)) and cur in p.body:
            loops.append(p)
        cur = p
    return chain[::-1], loops


def _guarded(func, name, use, binders):
    """Idioms under which a path-insensitive 'maybe unbound' is infeasible (each one makes the
    analysis report LESS, never more):
      * the use sits under the same guard(s) (same test text, same polarity, test names not rebound
        in between) as a binding that precedes it;
      * a binding inside an earlier loop that does not contain the use (the repository's loops over
        sites / sweeps run at least once);
      * both `name` and a flag are bound together (`x = None` default and `if x is not None`) is
        already handled by the CFG."""
    from .core import assigned_targets
    cu, lu = _conds(func, use)
    cu_set = {(t, pol) for t, pol, _ in cu}
    for t, pol, node in cu:            # `if A and B:` implies A and implies B
        if pol and isinstance(node.test, ast.BoolOp) and isinstance(node.test.op, ast.And):
            cu_set |= {(ast.unparse(v), True) for v in node.test.values}
        if not pol and isinstance(node.test, ast.BoolOp) and isinstance(node.test.op, ast.Or):
            cu_set |= {(ast.unparse(v), False) for v in node.test.values}
    for b in binders:
        if getattr(b, 'lineno', 0) >= getattr(use, 'lineno', 0) and b is not use:
            continue
        cb, lb = _conds(func, b)
        if any(l not in lu for l in lb):
            return True
        extra = [(t, pol, node) for t, pol, node in cb if node not in [n for _, _, n in cu]]
        if not extra:
            continue
        if all((t, pol) in cu_set for t, pol, _ in extra):
            # names of the tests must not be rebound between binding and use
            tn = set()
            for t, _, node in extra:
                tn |= {n.id for n in ast.walk(node.test) if isinstance(n, ast.Name)}
            rebound = False
            for x in ast.walk(func):
                if isinstance(x, ast.stmt) and b.lineno < getattr(x, 'lineno', 0) < use.lineno:
                    for tg in assigned_targets(x):
                        if isinstance(tg, ast.Name) and tg.id in tn:
                            rebound = True
            if not rebound:
                return True
    return False


def stale_derived(func):
    """(def stmt, store stmt, use stmt, X, m): `m = g(.., X, ..)` is later used to index X itself
    (`X[m]`) although X was updated in place (element store) on a path between the derivation and
    the use, with no re-derivation of m in between: the mask / index describes the old contents."""
    from .cfg import CFG
    from .core import assigned_targets, names_in, stmts_of
    out = []
    sts = list(stmts_of(func))
    defs = [(st, st.targets[0].id, names_in(st.value)) for st in sts
            if isinstance(st, ast.Assign) and len(st.targets) == 1 and
            isinstance(st.targets[0], ast.Name)]
    stores = []
    for st in sts:
        for t in assigned_targets(st):
            if isinstance(t, ast.Subscript) and isinstance(t.value, ast.Name):
                stores.append((st, t.value.id))
    pairs = 0
    cfg = None
    for d, mname, srcs in defs:
        for u in sts:
            if u is d:
                continue
            hits = {n.value.id for n in ast.walk(u)
                    if isinstance(n, ast.Subscript) and isinstance(n.ctx, ast.Load) and
                    isinstance(n.value, ast.Name) and n.value.id in srcs and
                    isinstance(n.slice, ast.Name) and n.slice.id == mname}
            for X in sorted(hits):
                pairs += 1
                for s, sx in stores:
                    if sx != X or s is d or s is u:
                        continue
                    if cfg is None:
                        cfg = CFG(func)

                    def redef(nd, mname=mname, d=d):
                        st = nd.stmt
                        return st is not None and any(
                            isinstance(t, ast.Name) and t.id == mname for t in assigned_targets(st))

                    from_d = set()
                    for dn in cfg.nodes_of(d):
                        from_d |= {x.id for x in cfg.reachable_from([dn], blocked=redef)}
                    sn = [x for x in cfg.nodes_of(s) if x.id in from_d]
                    if not sn:
                        continue
                    from_s = set()
                    for a in sn:
                        from_s |= {x.id for x in cfg.reachable_from([a], blocked=redef)}
                    if any(x.id in from_s for x in cfg.nodes_of(u)):
                        out.append((d, s, u, X, mname))
    return out, pairs


def dead_bindings(func):
    """Plain assignments `x = <expr>` whose value reaches no read of x (reaching definitions on
    the CFG): (stmt, name). Names starting with '_' , tuple targets, names used in nested
    functions / comprehension scopes closures, and `del`-ed names are skipped."""
    from .core import key_text, stmts_of
    cfg, rd = reaching_defs(func, by_line=True)
    used = set()
    nested_names = set()
    for g in ast.walk(func):
        if isinstance(g, (ast.FunctionDef, ast.AsyncFunctionDef, ast.Lambda)) and g is not func:
            nested_names |= {n.id for n in ast.walk(g) if isinstance(n, ast.Name)}
    for n in cfg.nodes:
        if n.stmt is None:
            continue
        exprs = _header_exprs(n.stmt) if isinstance(
            n.stmt, (ast.If, ast.While, ast.For, ast.With, ast.Try)) else [n.stmt]
        env = rd.get(n.id, {})
        for e in exprs:
            for x in ast.walk(e):
                if isinstance(x, ast.Name) and isinstance(x.ctx, (ast.Load, ast.Del)):
                    for k in env.get(x.id, ()):
                        used.add((x.id, k))
                if isinstance(x, ast.AugAssign) and isinstance(x.target, ast.Name):
                    for k in env.get(x.target.id, ()):
                        used.add((x.target.id, k))
    out = []
    for st in stmts_of(func):
        if isinstance(st, ast.Assign) and len(st.targets) == 1 and isinstance(
                st.targets[0], ast.Name):
            nm = st.targets[0].id
            if nm.startswith('_') or nm in nested_names:
                continue
            if (nm, (key_text(st), st.lineno)) not in used:
                out.append((st, nm))
    return out


def check_dead_computations(prog, rep, rels, rule='VALUE-dead'):
    """A local bound to the result of a call (a contraction, a selection, a composed matrix) whose
    value reaches no read (reaching definitions on the CFG) was computed in the belief that it is
    needed; the statement that should have consumed it uses something else (the un-selected
    spectrum, the old boundary matrices). Unreachable code, option look-ups kept for their side
    effect and plain aliases / constants are not reported."""
    from .cfg import CFG
    from .core import key_text
    n = 0
    for rel in rels:
        m = prog.module(rel)
        rep.unit(m)
        for q, f in m.functions.items():
            dead = dead_bindings(f)
            n += 1
            if not dead:
                continue
            cfg = CFG(f)
            reach = cfg.reachable_from([cfg.entry])
            for st, nm in dead:
                v = st.value
                while isinstance(v, ast.Subscript):
                    v = v.value
                if not isinstance(v, ast.Call):
                    continue
                if isinstance(v.func, ast.Attribute) and v.func.attr in ('get', 'subconfig',
                                                                        'setdefault', 'pop'):
                    continue
                if not any(x in reach for x in cfg.nodes_of(st)):
                    continue
                rep.violation(rule, m, q, 'dead:%s' % nm,
                              '`%s` computes a value that no later statement reads (every path '
                              'either re-binds `%s` or ends first): the result the function '
                              'goes on with is not the one computed here' %
                              (key_text(st)[:70], nm), st.lineno)
    rep.instance(rule, {'functions_analysed': n, 'modules': list(rels)})
    return n


def undefined_self_attrs(ct, ci):
    """[(method name, node)] reads `self.X` in the class body of ci where X is never bound in the
    class, its bases or its subclasses (attribute store on self / cls / a local object of the
    class, class-level name, method, property, setattr with a literal name). Classes (or
    relatives) that create attributes dynamically (__getattr__, __dict__, setattr with computed
    names, unresolved bases) are skipped: returns None for them."""
    from .core import is_self_attr

    def info(k):
        names = set()
        dynamic = False
        src_nodes = list(ast.walk(k.node))
        # copying / pickling / restoring a whole __dict__ (copy, __getstate__, __setstate__,
        # from_hdf5, save_hdf5) moves existing names around and creates none
        benign = set()
        for fn in ast.walk(k.node):
            if isinstance(fn, ast.FunctionDef) and fn.name in (
                    'copy', '__copy__', '__deepcopy__', '__getstate__', '__setstate__',
                    'from_hdf5', 'save_hdf5', '__reduce__'):
                benign.update(id(x) for x in ast.walk(fn))
        for st in k.node.body:
            if isinstance(st, ast.Assign):
                for t in st.targets:
                    names.update(n.id for n in ast.walk(t) if isinstance(n, ast.Name))
            elif isinstance(st, ast.AnnAssign) and isinstance(st.target, ast.Name):
                names.add(st.target.id)
            elif isinstance(st, (ast.FunctionDef, ast.AsyncFunctionDef, ast.ClassDef)):
                names.add(st.name)
                if st.name in ('__getattr__', '__getattribute__'):
                    dynamic = True
        for n in src_nodes:
            if isinstance(n, ast.Attribute) and isinstance(n.ctx, (ast.Store, ast.Del)) and \
                    isinstance(n.value, ast.Name):
                names.add(n.attr)          # stores on self, cls and on locals (obj, res, cp, ..)
            elif isinstance(n, ast.Attribute) and n.attr == '__dict__' and id(n) not in benign:
                dynamic = True
            elif isinstance(n, ast.Call) and isinstance(n.func, ast.Name) and \
                    n.func.id == 'setattr' and len(n.args) >= 2:
                if isinstance(n.args[1], ast.Constant):
                    names.add(n.args[1].value)
                else:
                    dynamic = True
        if '__slots__' in names:
            dynamic = True
        return names, dynamic
    fam = set()
    rel = []
    for k in ct.cone(ci):
        for kk in k.mro:
            if kk not in rel:
                rel.append(kk)
    for k in rel:
        nm, dyn = info(k)
        if dyn:
            return None
        fam |= nm
        known = [b for b in k.base_names if b not in ('object', 'ABC', 'Generic')]
        if len(k.bases) < len(known):
            return None                     # a base class outside the analysed package
    out = []
    for st in ci.node.body:
        if not isinstance(st, (ast.FunctionDef, ast.AsyncFunctionDef)):
            continue
        guarded = set()
        for n in ast.walk(st):
            if isinstance(n, ast.Call) and isinstance(n.func, ast.Name) and n.func.id in (
                    'hasattr', 'getattr') and len(n.args) >= 2 and isinstance(
                        n.args[1], ast.Constant):
                guarded.add(n.args[1].value)
        for n in ast.walk(st):
            if is_self_attr(n) and isinstance(n.ctx, ast.Load) and n.attr not in fam and \
                    n.attr not in guarded and not n.attr.startswith('__'):
                out.append((st.name, n))
    return out


def _is_abstract(ct, ci):
    """some method resolved along the MRO only raises NotImplementedError"""
    seen = set()
    for k in ci.mro:
        for name, f in k.methods.items():
            if name in seen:
                continue
            seen.add(name)
            body = [s for s in f.body if not (isinstance(s, ast.Expr) and isinstance(
                s.value, ast.Constant))]
            if len(body) == 1 and isinstance(body[0], ast.Raise) and body[0].exc is not None and \
                    'NotImplementedError' in ast.unparse(body[0].exc):
                return True
    return False


def subclass_only_attrs(ct, ci):
    """reads `self.X` in the body of a CONCRETE class ci (own __init__, no method that only raises
    NotImplementedError) where X is bound only in subclasses: an instance of ci itself does not
    have it. None if the class family creates attributes dynamically."""
    from .core import is_self_attr
    if '__init__' not in ci.methods or _is_abstract(ct, ci):
        return []
    if undefined_self_attrs(ct, ci) is None:
        return None
    fam = set()
    for k in ci.mro:
        for st in k.node.body:
            if isinstance(st, ast.Assign):
                for t in st.targets:
                    fam.update(n.id for n in ast.walk(t) if isinstance(n, ast.Name))
            elif isinstance(st, ast.AnnAssign) and isinstance(st.target, ast.Name):
                fam.add(st.target.id)
            elif isinstance(st, (ast.FunctionDef, ast.AsyncFunctionDef, ast.ClassDef)):
                fam.add(st.name)
        for n in ast.walk(k.node):
            if isinstance(n, ast.Attribute) and isinstance(n.ctx, (ast.Store, ast.Del)) and \
                    isinstance(n.value, ast.Name):
                fam.add(n.attr)
            elif isinstance(n, ast.Call) and isinstance(n.func, ast.Name) and \
                    n.func.id == 'setattr' and len(n.args) >= 2 and isinstance(
                        n.args[1], ast.Constant):
                fam.add(n.args[1].value)
    out = []
    for st in ci.node.body:
        if not isinstance(st, (ast.FunctionDef, ast.AsyncFunctionDef)):
            continue
        guarded = {n.args[1].value for n in ast.walk(st) if isinstance(n, ast.Call) and isinstance(
            n.func, ast.Name) and n.func.id in ('hasattr', 'getattr') and len(n.args) >= 2 and
            isinstance(n.args[1], ast.Constant)}
        called = {id(c.func) for c in ast.walk(st) if isinstance(c, ast.Call)}
        for n in ast.walk(st):
            if is_self_attr(n) and isinstance(n.ctx, ast.Load) and n.attr not in fam and \
                    n.attr not in guarded and not n.attr.startswith('__') and \
                    id(n) not in called:      # calling a hook of the subclasses: template method
                out.append((st.name, n))
    return out


def check_undefined_attrs(prog, rep, rels, rule='ATTR-defined'):
    """Every `self.X` read in the classes of the given modules names an attribute that some method
    of the class family binds: a read of a name nobody binds is an AttributeError waiting on the
    path that reaches it (typically a renamed option holder)."""
    ct = prog.classtable()
    n = 0
    for ci in ct.all:
        if ci.module.relpath not in rels:
            continue
        res = undefined_self_attrs(ct, ci)
        if res is None:
            continue
        n += 1
        seen = set()
        for meth, node in res:
            if (meth, node.attr) in seen:
                continue
            seen.add((meth, node.attr))
            rep.violation(rule, ci.module, '%s.%s' % (ci.name, meth), 'undefined:' + node.attr,
                          '`self.%s` is read, but no method of %s, its bases or subclasses ever '
                          'binds an attribute of that name: AttributeError on the path that '
                          'reaches this line' % (node.attr, ci.name), node.lineno)
        for meth, node in subclass_only_attrs(ct, ci) or []:
            if (meth, node.attr) in seen:
                continue
            seen.add((meth, node.attr))
            rep.violation(rule, ci.module, '%s.%s' % (ci.name, meth), 'subclass-only:' + node.attr,
                          '`self.%s` is read in the concrete class %s, but only subclasses bind '
                          'an attribute of that name: AttributeError for an instance of %s '
                          'itself' % (node.attr, ci.name, ci.name), node.lineno)
    rep.instance(rule, {'classes_analysed': n, 'modules': sorted(rels)})
    return n


def carried_flags(func):
    """[(loop, name, assignment, read)]: a local that is assigned a CONSTANT under a test inside the
    body of a `for` loop, is read in that body outside the assigning branch, and is not
    (re)initialised unconditionally at the top of the body before that read. Its value then
    carries over from the element that set it to all later elements. Flags that end the loop
    (`break` / `return` right after the assignment) or that are only read after the loop are the
    intended "found" idiom and are not reported."""
    from .core import parent
    out = []
    for lp in ast.walk(func):
        if not isinstance(lp, ast.For):
            continue
        top_init = {}
        for idx, st in enumerate(lp.body):
            if isinstance(st, ast.Assign):
                for t in st.targets:
                    for x in ast.walk(t):
                        if isinstance(x, ast.Name):
                            top_init.setdefault(x.id, idx)
        for st in ast.walk(lp):
            if not (isinstance(st, ast.Assign) and len(st.targets) == 1 and isinstance(
                    st.targets[0], ast.Name) and isinstance(st.value, ast.Constant) and
                    isinstance(st.value.value, (bool, type(None)))):
                continue
            name = st.targets[0].id
            # the branch (directly under the loop body) that contains the assignment
            cur, top = st, None
            while cur is not lp and cur is not None:
                p = parent(cur)
                if p is lp:
                    top = cur
                cur = p
            if top is None or top is st:
                continue          # unconditional assignment at the top level of the body
            blk = parent(st)
            sib = getattr(blk, 'body', []) if any(x is st for x in getattr(blk, 'body', [])) \
                else getattr(blk, 'orelse', [])
            after = sib[[i for i, x in enumerate(sib) if x is st][0] + 1:] if sib else []
            if any(isinstance(x, (ast.Break, ast.Return, ast.Raise)) for x in after):
                continue
            tidx = [i for i, x in enumerate(lp.body) if x is top][0]
            if name in top_init and top_init[name] < tidx:
                continue          # re-initialised at the top of every iteration
            # bound before the loop at all? (otherwise it is a per-iteration local of the branch)
            reads = [x for s2 in lp.body for x in ast.walk(s2) if isinstance(x, ast.Name) and
                     x.id == name and isinstance(x.ctx, ast.Load)]
            outside_reads = []
            for r in reads:
                c2 = r
                inside_top = False
                while c2 is not lp and c2 is not None:
                    if c2 is top:
                        inside_top = True
                    c2 = parent(c2)
                if not inside_top or r.lineno > getattr(top, 'end_lineno', top.lineno):
                    outside_reads.append(r)
            if not outside_reads:
                continue
            pre = [s2 for s2 in ast.walk(func) if isinstance(s2, ast.Assign) and any(
                isinstance(t, ast.Name) and t.id == name for t in s2.targets) and
                s2.lineno < lp.lineno]
            if not pre:
                continue
            out.append((lp, name, st, outside_reads[0]))
    return out


def check_carried_flags(prog, rep, rels, rule='LOOP-carried-flag'):
    from .core import key_text
    n = 0
    for rel in rels:
        m = prog.module(rel)
        rep.unit(m)
        for q, f in m.functions.items():
            n += 1
            for lp, name, st, r in carried_flags(f):
                rep.violation(rule, m, q, 'carried:' + name,
                              '`%s` is set under a test inside the loop and read at line %d of '
                              'the same body without being re-initialised at the top of the '
                              'iteration: once one element has set it, every later element is '
                              'treated the same way' % (key_text(st), r.lineno), st.lineno)
    rep.instance(rule, {'functions_analysed': n, 'modules': list(rels)})
    return n


def mixed_accumulation(func):
    """[(container, accumulating store, overwriting store)]: inside one loop body a local container
    receives `C[a] = f(C[a], x)` (accumulation: the right side reads the element it writes) and
    also a plain `C[b] = y` with another index expression. The slots are shared between
    iterations (that is why one of them accumulates), so the plain store discards whatever an
    earlier iteration put there."""
    out = []
    for lp in ast.walk(func):
        if not isinstance(lp, (ast.For, ast.While)):
            continue
        stores = {}
        inner = set()
        for sub in ast.walk(lp):
            if sub is not lp and isinstance(sub, (ast.For, ast.While)):
                inner |= {id(x) for x in ast.walk(sub)}
        for st in ast.walk(lp):
            if id(st) in inner:
                continue          # belongs to a nested loop: analysed with that loop
            if isinstance(st, ast.Assign) and len(st.targets) == 1 and isinstance(
                    st.targets[0], ast.Subscript) and isinstance(st.targets[0].value, ast.Name):
                t = st.targets[0]
                acc = any(isinstance(x, ast.Subscript) and ast.unparse(x) == ast.unparse(t) and
                          isinstance(x.ctx, ast.Load) for x in ast.walk(st.value))
                stores.setdefault(t.value.id, []).append((ast.unparse(t.slice), acc, st))
            elif isinstance(st, ast.AugAssign) and isinstance(st.target, ast.Subscript) and \
                    isinstance(st.target.value, ast.Name):
                stores.setdefault(st.target.value.id, []).append(
                    (ast.unparse(st.target.slice), True, st))
        for c, lst in stores.items():
            accs = [x for x in lst if x[1]]
            plain = [x for x in lst if not x[1]]
            if accs and plain:
                for p in plain:
                    if any(p[0] != a[0] for a in accs):
                        out.append((c, accs[0][2], p[2]))
    return out


def check_mixed_accumulation(prog, rep, rels, rule='ACCUM-mixed'):
    from .core import key_text
    n = 0
    for rel in rels:
        m = prog.module(rel)
        rep.unit(m)
        for q, f in m.functions.items():
            n += 1
            for c, a, p in mixed_accumulation(f):
                rep.violation(rule, m, q, 'overwrite:%s[%s]' % (c, ast.unparse(p.targets[0].slice)),
                              '`%s` overwrites a slot of `%s` while `%s` in the same loop '
                              'accumulates into that container: slots are shared between '
                              'iterations, the contribution an earlier iteration stored there is '
                              'lost' % (key_text(p)[:60], c, key_text(a)[:60]), p.lineno)
    rep.instance(rule, {'functions_analysed': n, 'modules': list(rels)})
    return n


# ---------------------------------------------------------------------------------------------
# CALL-dict-forward: `self.m(..., **P)` where P is a parameter of the caller and the resolved
# callee declares a parameter named P (and no **kwargs): the callee expects the dict as ONE
# argument; expanding it makes every key an unexpected keyword (TypeError for any non-empty dict),
# or silently binds keys to unrelated parameters.
def check_dict_forward(prog, rep, rels, rule='CALL-dict-forward'):
    import ast
    from .core import params, unparse, key_text
    ct = prog.classtable()

    def scan(f, resolve):
        """yield (call, P, owner_name, callee, bad) for every `self.m(**P)` with P a parameter"""
        ps = set(params(f)) | {a.arg for a in f.args.kwonlyargs}
        for c in ast.walk(f):
            if not (isinstance(c, ast.Call) and isinstance(c.func, ast.Attribute) and
                    unparse(c.func.value) == 'self'):
                continue
            stars = [k.value.id for k in c.keywords if k.arg is None and isinstance(
                k.value, ast.Name) and k.value.id in ps]
            if not stars:
                continue
            oname, g = resolve(c.func.attr)
            if g is None:
                continue
            gps = set(params(g)) | {a.arg for a in g.args.kwonlyargs}
            for P in stars:
                if f.args.kwarg is not None and f.args.kwarg.arg == P:
                    continue          # the caller's own **kwargs: forwarding is the idiom
                yield c, P, oname, g, (g.args.kwarg is None and P in gps)

    # positive control: the shape of the defect this rule was written for
    fx = ast.parse("class K:\n"
                   "    def outer(self, psi, data={}):\n"
                   "        return self.inner(psi, **data)\n"
                   "    def inner(self, psi, data={}):\n"
                   "        return data\n"
                   "    def fine(self, psi, **kw):\n"
                   "        return self.inner(psi, **kw)\n").body[0]
    meths = {x.name: x for x in fx.body}
    hits = [bad for x in ('outer', 'fine') for *_, bad in scan(
        meths[x], lambda nm: ('K', meths.get(nm)))]
    rep.control(rule, hits == [True])
    n = 0
    for rel in rels:
        m = prog.module(rel)
        rep.unit(m)
        for q, f in m.functions.items():
            if '.' not in q:
                continue
            ci = ct.lookup(q.split('.')[0], m)
            if ci is None:
                continue

            def resolve(nm, ci=ci):
                owner, g = ct.resolve_method(ci, nm)
                return (owner.name if owner else None), g
            for c, P, oname, g, bad in scan(f, resolve):
                n += 1
                rep.instance(rule, {'caller': q, 'callee': '%s.%s' % (oname, g.name),
                                    'expanded': P, 'callee_takes_it_whole': bad})
                if bad:
                    rep.violation(rule, m, q, 'expands:%s->%s' % (P, g.name),
                                  '`%s` expands the dict parameter `%s` with **, but %s.%s '
                                  'declares `%s` itself and takes no **kwargs: every key of a '
                                  'non-empty `%s` is an unexpected keyword argument (TypeError)'
                                  % (key_text(c)[:70], P, oname, g.name, P, P), c.lineno)
    rep.instance(rule, {'modules': list(rels), 'expansions_of_parameters': n})
    return n


# ---------------------------------------------------------------------------------------------
# ALIAS-ends: `x = C[-1]` read before `C[0] = ...` (or the other way round) and used afterwards.
# The two ends of a sequence are the SAME element when it has one entry, so x is then the stale
# value from before the store (MPO.from_grids on a single site projected the first grid and then
# projected the unprojected copy of it as "last grid").
def check_alias_ends(prog, rep, rels, rule='ALIAS-ends'):
    import ast
    from .core import unparse, stmts_of, key_text
    ENDS = {'0', '-1'}

    def scan(f):
        out = []
        sts = list(stmts_of(f))
        for st in sts:
            if not (isinstance(st, ast.Assign) and len(st.targets) == 1 and isinstance(
                    st.targets[0], ast.Name) and isinstance(st.value, ast.Subscript) and
                    isinstance(st.value.value, ast.Name) and unparse(st.value.slice) in ENDS):
                continue
            nm, C, idx = st.targets[0].id, st.value.value.id, unparse(st.value.slice)
            other = ({'0', '-1'} - {idx}).pop()
            for s2 in sts:
                if s2.lineno <= st.lineno or not isinstance(s2, ast.Assign):
                    continue
                if not any(isinstance(t, ast.Subscript) and isinstance(t.value, ast.Name) and
                           t.value.id == C and unparse(t.slice) == other for t in s2.targets):
                    continue
                rebinds = [s3 for s3 in sts if st.lineno < s3.lineno and isinstance(
                    s3, ast.Assign) and any(isinstance(t, ast.Name) and t.id == nm
                                            for t in s3.targets)]
                uses = [u for u in ast.walk(f) if isinstance(u, ast.Name) and u.id == nm and
                        isinstance(u.ctx, ast.Load) and u.lineno > s2.lineno and not any(
                            s2.lineno <= r.lineno <= u.lineno for r in rebinds)]
                if uses:
                    out.append((st, s2, uses[0], nm, C, idx, other))
        return out
    fx = ast.parse("def f(grids, k):\n"
                   "    first = grids[0]\n"
                   "    last = grids[-1]\n"
                   "    if len(first) > 1:\n"
                   "        grids[0] = [first[k]]\n"
                   "    if len(last[0]) > 1:\n"
                   "        grids[-1] = [[r[k]] for r in last]\n"
                   "    return grids\n").body[0]
    rep.control(rule, [x[3] for x in scan(fx)] == ['last'])
    n = 0
    for rel in rels:
        m = prog.module(rel)
        rep.unit(m)
        for q, f in m.functions.items():
            n += 1
            for st, s2, use, nm, C, idx, other in scan(f):
                rep.violation(rule, m, q, 'stale-end:%s=%s[%s]' % (nm, C, idx),
                              '`%s` reads %s[%s] before `%s` stores %s[%s], and `%s` is used '
                              'afterwards (line %d): for a one-element %s both are the same entry '
                              'and `%s` is the value from before the store'
                              % (key_text(st)[:50], C, idx, key_text(s2)[:50], C, other, nm,
                                 use.lineno, C, nm), st.lineno)
    rep.instance(rule, {'modules': list(rels), 'functions_scanned': n})
    return n


# ---------------------------------------------------------------------------------------------
# STATE-derived-agree: __init__ and __setstate__ derive the same attribute from the same inputs
# with the same expression (a copied / unpickled / hdf5-loaded object must be the object that the
# constructor builds). Compared only where both expressions have the same non-empty set of free
# names (the state tuple is unpacked into the constructor's names).
def check_state_derived_agree(prog, rep, rels, rule='STATE-derived-agree'):
    import ast
    from .core import unparse, is_self_attr
    ct = prog.classtable()

    def attr_exprs(f):
        out = {}
        for st in ast.walk(f):
            if isinstance(st, ast.Assign) and len(st.targets) == 1 and is_self_attr(st.targets[0]):
                out.setdefault(st.targets[0].attr, []).append(st.value)
        return out
    n = 0
    for ci in ct.all:
        if ci.module.relpath not in rels:
            continue
        a, b = ci.methods.get('__init__'), ci.methods.get('__setstate__')
        if a is None or b is None:
            continue
        ea, eb = attr_exprs(a), attr_exprs(b)
        for k in sorted(set(ea) & set(eb)):
            for y in eb[k]:
                ny = {x.id for x in ast.walk(y) if isinstance(x, ast.Name)} - {'self'}
                cands = [x for x in ea[k] if ({z.id for z in ast.walk(x) if isinstance(
                    z, ast.Name)} - {'self'}) == ny and ny]
                if not cands:
                    continue
                n += 1
                same = any(unparse(x) == unparse(y) for x in cands)
                rep.instance(rule, {'class': ci.name, 'attribute': k, 'agree': same})
                if not same:
                    rep.violation(rule, ci.module, ci.name + '.__setstate__', 'derived-differs:' + k,
                                  '__setstate__ derives self.%s as `%s`, __init__ as `%s` from the '
                                  'same inputs: an object restored by copy / pickle / from_hdf5 '
                                  'differs from the constructed one' %
                                  (k, unparse(y)[:50], unparse(cands[0])[:50]), y.lineno)
    return n


# ---------------------------------------------------------------------------------------------
# PERM-mixed-direction: within one function a permutation p re-orders co-indexed arrays either by
# GATHER (`new = old[p]`) or by SCATTER (`new[p] = old`); the two are inverse to each other. Using
# both directions for the same p on data that belong together (charges gathered, block sizes
# scattered) puts the block sizes of one charge next to another charge whenever p is not an
# involution. The construction of an inverse permutation (`inv[p] = arange(..)`) is the one
# legitimate scatter.
def check_perm_mixed_direction(prog, rep, rels, rule='PERM-mixed-direction'):
    import ast
    from .core import unparse, key_text, call_name
    n = 0
    for rel in rels:
        m = prog.module(rel)
        rep.unit(m)
        for q, f in m.functions.items():
            gathers, scatters = {}, {}
            for st in ast.walk(f):
                if isinstance(st, ast.Assign):
                    for t in st.targets:
                        if isinstance(t, ast.Subscript) and isinstance(t.slice, ast.Name) and \
                                not (isinstance(st.value, ast.Call) and (call_name(st.value) or
                                     '').split('.')[-1] == 'arange'):
                            scatters.setdefault(t.slice.id, []).append(st)
                for x in ast.walk(st) if isinstance(st, (ast.Assign, ast.Expr, ast.Return)) else ():
                    if isinstance(x, ast.Subscript) and isinstance(x.ctx, ast.Load):
                        idx = x.slice
                        if isinstance(idx, ast.Tuple) and idx.elts:
                            idx = idx.elts[0]
                        if isinstance(idx, ast.Name):
                            gathers.setdefault(idx.id, []).append(x)
            for p in sorted(set(gathers) & set(scatters)):
                if 'perm' not in p.lower():
                    continue
                n += 1
                st = scatters[p][0]
                rep.violation(rule, m, q, 'scatter-and-gather:' + p,
                              '`%s` scatters with the permutation `%s` while `%s` gathers with it '
                              'in the same function: the two re-orderings are inverse to each '
                              'other, data that belong together end up at different positions '
                              'unless the permutation is an involution'
                              % (key_text(st)[:50], p, unparse(gathers[p][0])[:40]), st.lineno)
            for p in sorted(set(gathers) | set(scatters)):
                if 'perm' in p.lower() and not (p in gathers and p in scatters):
                    n += 1
                    rep.instance(rule, {'function': q, 'permutation': p,
                                        'direction': 'gather' if p in gathers else 'scatter'})
    return n


# ---------------------------------------------------------------------------------------------
# RESHAPE-C-order: fusing / splitting legs re-interprets a block with the C-ordered strides of the
# pipe (LegPipe._strides, q_map). `reshape(.., order='A'|'F')` follows the MEMORY layout of the
# block instead (Fortran for a transposed view) and puts the entries at other fused indices.
def check_reshape_order(prog, rep, rels, rule='RESHAPE-C-order'):
    import ast
    from .core import unparse, key_text

    def scan(tree):
        out = []
        for c in ast.walk(tree):
            if isinstance(c, ast.Call) and ((isinstance(c.func, ast.Attribute) and
                                             c.func.attr == 'reshape') or
                                            unparse(c.func) in ('np.reshape', 'numpy.reshape')):
                for k in c.keywords:
                    if k.arg == 'order' and not (isinstance(k.value, ast.Constant) and
                                                 k.value.value == 'C'):
                        out.append(c)
        return out
    fx = ast.parse("def f(b, shape):\n    v = b.reshape(shape, order='A')\n    w = b.reshape(shape)\n"
                   "    return v, w\n")
    rep.control(rule, len(scan(fx)) == 1)
    n = 0
    for rel in rels:
        m = prog.module(rel)
        rep.unit(m)
        for q, f in m.functions.items():
            n += 1
            for c in scan(f):
                rep.violation(rule, m, q, 'reshape-order', '`%s` reshapes with a memory-layout '
                              'dependent order; fused indices of leg pipes are C-ordered: a '
                              'Fortran-contiguous block (transposed view) lands at other positions'
                              % key_text(c)[:70], c.lineno)
    rep.instance(rule, {'modules': list(rels), 'functions_scanned': n})
    return n


# ---------------------------------------------------------------------------------------------
# SITE-index-offset: in a function with an index offset parameter (`i_offset`), every site that is
# looked up (`self.sites[..]`, `self.get_site(..)`) is looked up at an index that depends on that
# offset; a lookup at the unshifted index asks ANOTHER site (wrong Jordan-Wigner decision on a
# chain with alternating site types).
def check_site_index_offset(prog, rep, rels, rule='SITE-index-offset', offset='i_offset'):
    import ast
    from .core import params, unparse, key_text
    n = 0
    for rel in rels:
        m = prog.module(rel)
        rep.unit(m)
        for q, f in m.functions.items():
            if offset not in params(f):
                continue
            # locals derived from the offset
            derived = {offset}
            grown = True
            while grown:
                grown = False
                for st in ast.walk(f):
                    if isinstance(st, ast.Assign) and len(st.targets) == 1 and isinstance(
                            st.targets[0], ast.Name) and st.targets[0].id not in derived and any(
                                isinstance(x, ast.Name) and x.id in derived
                                for x in ast.walk(st.value)):
                        derived.add(st.targets[0].id)
                        grown = True
            for x in ast.walk(f):
                idx = None
                if isinstance(x, ast.Subscript) and unparse(x.value) == 'self.sites':
                    idx = x.slice
                elif isinstance(x, ast.Call) and unparse(x.func) == 'self.get_site' and x.args:
                    idx = x.args[0]
                if idx is None:
                    continue
                n += 1
                ok = any(isinstance(y, ast.Name) and y.id in derived for y in ast.walk(idx))
                rep.instance(rule, {'function': q, 'lookup': unparse(x)[:60], 'uses_offset': ok})
                if not ok:
                    rep.violation(rule, m, q, 'site-without-offset:' + unparse(idx)[:30],
                                  '`%s` looks a site up at an index that does not include `%s`, '
                                  'while the operators of the term act on the shifted sites' %
                                  (unparse(x)[:60], offset), x.lineno)
    return n


# ---------------------------------------------------------------------------------------------
# INDEX-mod-compare: `a % L == b` is the periodic-equality test `(a - b) % L == 0` only if b is
# already reduced to [0, L). With b a parameter / loop variable that may lie outside the first unit
# cell (strings starting at an inner operator of a multi-site term) the test is never true.
def check_mod_compare(prog, rep, rels, rule='INDEX-mod-compare'):
    import ast
    from .core import params, unparse, key_text

    def scan(f):
        out = []
        ps = set(params(f))
        for c in ast.walk(f):
            if isinstance(c, ast.Compare) and len(c.ops) == 1 and isinstance(
                    c.ops[0], (ast.Eq, ast.NotEq)):
                l, r = c.left, c.comparators[0]
                for a, b in ((l, r), (r, l)):
                    if isinstance(a, ast.BinOp) and isinstance(a.op, ast.Mod) and isinstance(
                            b, ast.Name) and b.id in ps:
                        out.append((c, b.id))
        return out
    fx = ast.parse("def f(self, i, j):\n    for k in range(i + 1, j):\n"
                   "        if k % self.L == i:\n            pass\n"
                   "        if (k - i) % self.L == 0:\n            pass\n").body[0]
    rep.control(rule, len(scan(fx)) == 1)
    n = 0
    for rel in rels:
        m = prog.module(rel)
        rep.unit(m)
        for q, f in m.functions.items():
            n += 1
            for c, b in scan(f):
                rep.violation(rule, m, q, 'mod-vs-unreduced:' + b,
                              '`%s` compares a reduced index with the parameter `%s`, which is not '
                              'reduced modulo the period: for %s outside the first unit cell the '
                              'test never holds (use `(a - %s) %% L == 0`)' %
                              (unparse(c)[:50], b, b, b), c.lineno)
    rep.instance(rule, {'modules': list(rels), 'functions_scanned': n})
    return n


# ---------------------------------------------------------------------------------------------
# LOOP-stale-read: inside a loop a per-item variable N is READ before anything in that iteration
# assigns it, although the loop body assigns N later on, and N has no initialisation dedicated to
# the loop: every binding outside the loop sits inside some other, already finished loop. The read
# therefore sees the value left by the last iteration of another loop (first pass) or by the
# previous pass. Comprehension variables are excluded; explicitly initialised loop-carried state
# (`prev = None` before the loop) is not affected.
import ast as _ast_sl
ast = _ast_sl
from .core import params as _params_sl
params = _params_sl
def stale_loop_reads(f):
    """yield (name, use_node, loop) for stale loop-carried reads"""
    parents = {}
    for p in ast.walk(f):
        for c in ast.iter_child_nodes(p):
            parents[c] = p
    def loops_of(n):
        out = []
        while n in parents:
            n = parents[n]
            if isinstance(n, (ast.For, ast.While)):
                out.append(n)
            if isinstance(n, (ast.FunctionDef, ast.Lambda)) and n is not f:
                return None
        return out
    def in_comp(n):
        while n in parents:
            n = parents[n]
            if isinstance(n, (ast.ListComp, ast.SetComp, ast.DictComp, ast.GeneratorExp)):
                return True
        return False
    defs = {}
    compnames = set()
    for n in ast.walk(f):
        if isinstance(n, ast.Name) and isinstance(n.ctx, ast.Store):
            if in_comp(n):
                compnames.add(n.id)
            else:
                defs.setdefault(n.id, []).append(n)
    ps = set(params(f))
    hits = []
    for name, dl in defs.items():
        if name in ps or name in compnames: continue
        for u in ast.walk(f):
            if not (isinstance(u, ast.Name) and u.id == name and isinstance(u.ctx, ast.Load)): continue
            lu = loops_of(u)
            if not lu: continue
            for L in lu:   # innermost first
                inside = [d for d in dl if L in (loops_of(d) or []) or any(d is t for t in ast.walk(L.target)) if True] if isinstance(L, ast.For) else [d for d in dl if L in (loops_of(d) or [])]
                if isinstance(L, ast.For) and any(d is t for d in dl for t in ast.walk(L.target)):
                    break   # the loop's own variable
                if not inside: continue
                # defs inside L that precede u textually at the same or enclosing level (dominate approx): any def inside L with lineno < u.lineno
                before = [d for d in inside if (d.lineno, d.col_offset) < (u.lineno, u.col_offset)]
                after = [d for d in inside if (d.lineno, d.col_offset) > (u.lineno, u.col_offset)]
                if before or not after: break
                # self-referential accumulators: the statement defining reads the name
                outside = [d for d in dl if d not in inside]
                if not outside: break   # would be NameError on first iteration -> other analysis
                if all(loops_of(d) and not set(loops_of(d)) <= set(lu) for d in outside):
                    hits.append((name, u, L))
                break
    return hits


def check_stale_loop_reads(prog, rep, rels, rule='LOOP-stale-read'):
    from .core import unparse
    n = 0
    for rel in rels:
        m = prog.module(rel)
        rep.unit(m)
        for q, f in m.functions.items():
            n += 1
            seen = set()
            for name, u, L in stale_loop_reads(f):
                if (name, L.lineno) in seen:
                    continue
                seen.add((name, L.lineno))
                rep.violation(rule, m, q, 'stale-read:' + name,
                              '`%s` is read at line %d inside the loop at line %d before this '
                              'iteration assigns it; the loop assigns it later and every other '
                              'binding lies inside another loop: the value seen is a left-over of '
                              'that loop / of the previous pass' % (name, u.lineno, L.lineno),
                              u.lineno)
    rep.instance(rule, {'modules': list(rels), 'functions_scanned': n})
    return n


# ---------------------------------------------------------------------------------------------
# REINDEX-congruent: a method that re-orders the parallel per-site containers of an MPS (tensors,
# singular values, sites, forms) by comprehensions over index arrays moves every container by the
# SAME map only if the index arrays are the same modulo L: identical names, or one defined as the
# other `% self.L`.  Two independently computed index arrays (one rolled the other way, say) put
# the sites / form labels next to tensors they do not belong to.
def check_reindex_congruent(prog, rep, rels, rule='REINDEX-congruent',
                            attrs=('sites', 'form', '_B', '_S')):
    import ast
    from .core import unparse
    n = 0

    def strip_mod(e, defs, depth=0):
        """base expression text of an index array, looking through `X % L`, np.mod(X, L),
        [i % L for i in X] and single-assignment names bound to such forms"""
        if depth > 4:
            return unparse(e)
        if isinstance(e, ast.BinOp) and isinstance(e.op, ast.Mod):
            return strip_mod(e.left, defs, depth + 1)
        if isinstance(e, ast.Call) and unparse(e.func) in ('np.mod', 'np.remainder') and e.args:
            return strip_mod(e.args[0], defs, depth + 1)
        if isinstance(e, ast.Call) and unparse(e.func) in ('np.array', 'np.asarray', 'list') and \
                e.args and isinstance(e.args[0], ast.ListComp):
            e = e.args[0]
        if isinstance(e, ast.ListComp) and len(e.generators) == 1 and isinstance(
                e.generators[0].target, ast.Name) and isinstance(e.elt, ast.BinOp) and \
                isinstance(e.elt.op, ast.Mod) and isinstance(e.elt.left, ast.Name) and \
                e.elt.left.id == e.generators[0].target.id:
            return strip_mod(e.generators[0].iter, defs, depth + 1)
        if isinstance(e, ast.Name) and len(defs.get(e.id, [])) == 1:
            d = defs[e.id][0]
            inner = strip_mod(d, defs, depth + 1)
            if inner != unparse(d):
                return inner
        return unparse(e)
    for rel in rels:
        m = prog.module(rel)
        for q, f in sorted(m.functions.items()):
            defs = {}
            filled = {}   # local list -> iter expr of the loop / comprehension that fills it
            used = {}     # attribute -> (iter expr, line)
            for st in ast.walk(f):
                if isinstance(st, ast.Assign) and len(st.targets) == 1 and isinstance(
                        st.targets[0], ast.Name):
                    defs.setdefault(st.targets[0].id, []).append(st.value)

            def comp_iter(v):
                if isinstance(v, ast.ListComp) and len(v.generators) == 1 and isinstance(
                        v.generators[0].target, ast.Name):
                    lv = v.generators[0].target.id
                    if any(isinstance(x, ast.Name) and x.id == lv for x in ast.walk(v.elt)):
                        return v.generators[0].iter
                return None
            for st in ast.walk(f):
                if isinstance(st, ast.Assign) and len(st.targets) == 1 and isinstance(
                        st.targets[0], ast.Name):
                    it = comp_iter(st.value)
                    if it is not None:
                        filled[st.targets[0].id] = it
                if isinstance(st, ast.For) and isinstance(st.target, ast.Name):
                    lv = st.target.id
                    for c in ast.walk(st):
                        if isinstance(c, ast.Call) and isinstance(c.func, ast.Attribute) and \
                                c.func.attr == 'append' and isinstance(c.func.value, ast.Name) and \
                                c.args and any(isinstance(x, ast.Name) and x.id == lv
                                               for x in ast.walk(c.args[0])):
                            filled.setdefault(c.func.value.id, st.iter)
            for st in ast.walk(f):
                if not (isinstance(st, ast.Assign) and len(st.targets) == 1):
                    continue
                t, v = st.targets[0], st.value
                if isinstance(t, ast.Attribute) and isinstance(t.value, ast.Name) and \
                        t.value.id == 'self' and t.attr in attrs:
                    it = comp_iter(v)
                    if it is None and isinstance(v, ast.Name) and v.id in filled:
                        it = filled[v.id]
                    if it is not None and not any(
                            ('self.' + a_) in unparse(it) for a_ in attrs):
                        # (iterating over a container itself is an element-wise map, not a
                        # re-ordering by an index array)
                        used[t.attr] = (it, st.lineno)
            if len(used) < 2:
                continue
            n += 1
            bases = {a: strip_mod(it, defs) for a, (it, _) in used.items()}
            rep.instance(rule, {'function': q, 'containers': sorted(used),
                                'index_arrays': sorted({unparse(it)[:40] for it, _ in used.values()}),
                                'bases': sorted(set(bases.values()))})
            if len(set(bases.values())) > 1:
                line = min(l for _, l in used.values())
                rep.violation(rule, m, q, 'independent-index-arrays:' + ':'.join(
                    sorted(set(bases.values())))[:80],
                    'the per-site containers %s are re-ordered with index arrays that are not '
                    'one another modulo L (%s): sites / forms may end up next to tensors they '
                    'do not belong to' % (sorted(used), sorted(set(bases.values()))), line)
    return n


# ---------------------------------------------------------------------------------------------
# GROUP-stride: group_sites(n) groups `n` sites each, but the LAST group is smaller when the
# number of sites is not a multiple of n.  Every loop over the grouped sites therefore moves
# through the old sites by the actual size of the group (`gs.n_sites`); the nominal `n` inside such
# a loop addresses the wrong old site / bond after a short group (sibling agreement of the
# group_sites implementations of MPS, MPO and NearestNeighborModel).
def check_group_stride(prog, rep, rels, rule='GROUP-stride'):
    import ast
    from .core import params, unparse
    n_loops = 0
    for rel in rels:
        m = prog.module(rel)
        for q, f in sorted(m.functions.items()):
            if not q.endswith('group_sites') or 'n' not in params(f):
                continue
            for loop in ast.walk(f):
                if not isinstance(loop, ast.For) or 'grouped_sites' not in unparse(loop.iter):
                    continue
                n_loops += 1
                reads = [x for b in loop.body for x in ast.walk(b)
                         if isinstance(x, ast.Name) and x.id == 'n' and isinstance(x.ctx, ast.Load)]
                rep.instance(rule, {'function': q, 'loop': unparse(loop.target),
                                    'reads_nominal_n': len(reads)})
                for x in reads:
                    rep.violation(rule, m, q, 'nominal-group-size',
                                  'the loop over the grouped sites uses the nominal group size '
                                  '`n`; the last group is smaller when the number of sites is not '
                                  'a multiple of n (use the n_sites of the group)', x.lineno)
    return n_loops
