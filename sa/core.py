"""Engine core: program model, resolution, reporting.

Everything here works on syntax trees of /repo's *current* working tree; tenpy is never
imported or executed.
"""
import ast
import hashlib
import json
import os
import sys
import time

REPO = os.environ.get('TENPY_VERIF_REPO', '/repo')
VERIF = os.path.dirname(os.path.dirname(os.path.abspath(__file__)))


class AnalysisError(Exception):
    """The analyser cannot decide (anchor vanished, unparsable, unknown construct). Exit 2."""


# ----------------------------------------------------------------------------------------------
# program model


class Module:
    def __init__(self, relpath, source, tree):
        self.relpath = relpath  # e.g. 'tenpy/linalg/charges.py'
        self.source = source
        self.tree = tree
        self.digest = hashlib.sha256(source.encode()).hexdigest()[:16]
        self.functions = {}  # qualname -> FunctionDef  ('Class.meth', 'func', 'Class.meth.<inner>')
        self.classes = {}  # name -> ClassDef (top-level and nested by dotted name)
        self._index(tree, '')

    def _index(self, node, prefix):
        for ch in ast.iter_child_nodes(node):
            if isinstance(ch, (ast.FunctionDef, ast.AsyncFunctionDef)):
                q = prefix + ch.name
                # property setters etc. share a name: keep all under q, q#2, ...
                k = q
                n = 2
                while k in self.functions:
                    k = '%s#%d' % (q, n)
                    n += 1
                self.functions[k] = ch
                ch._qualname = k
                ch._module = self
                self._index(ch, q + '.')
            elif isinstance(ch, ast.ClassDef):
                q = prefix + ch.name
                self.classes[q] = ch
                ch._qualname = q
                ch._module = self
                self._index(ch, q + '.')
            elif isinstance(ch, (ast.If, ast.Try, ast.With, ast.For, ast.While)):
                self._index(ch, prefix)

    def func(self, qualname):
        f = self.functions.get(qualname)
        if f is None:
            raise AnalysisError('anchor vanished: function %s in %s' % (qualname, self.relpath))
        return f

    def cls(self, name):
        c = self.classes.get(name)
        if c is None:
            raise AnalysisError('anchor vanished: class %s in %s' % (name, self.relpath))
        return c

    def has_func(self, qualname):
        return qualname in self.functions


class Program:
    """All python units of the package (parsed lazily)."""

    def __init__(self, repo=None):
        self.repo = repo or REPO
        self._mods = {}
        self.units = []
        pkg = os.path.join(self.repo, 'tenpy')
        if not os.path.isdir(pkg):
            raise AnalysisError('package directory %s missing' % pkg)
        for root, dirs, files in os.walk(pkg):
            dirs[:] = sorted(d for d in dirs if d != '__pycache__')
            for f in sorted(files):
                if f.endswith('.py') or f.endswith('.pyx'):
                    self.units.append(os.path.relpath(os.path.join(root, f), self.repo))
        self._classtable = None

    def path(self, relpath):
        return os.path.join(self.repo, relpath)

    def module(self, relpath):
        m = self._mods.get(relpath)
        if m is None:
            p = self.path(relpath)
            if not os.path.exists(p):
                raise AnalysisError('anchor vanished: file %s' % relpath)
            with open(p, encoding='utf-8') as f:
                src = f.read()
            try:
                tree = ast.parse(src, filename=relpath)
            except SyntaxError as e:
                raise AnalysisError('cannot parse %s: %s' % (relpath, e))
            set_parents(tree)
            m = Module(relpath, src, tree)
            # "extract method" undone: helpers unknown to the rule tables are inlined (sa/inline.py)
            from .inline import make_effective
            tree2, inl = make_effective(m)
            if tree2 is not None:
                ast.fix_missing_locations(tree2)
                set_parents(tree2)
                m = Module(relpath, src, tree2)
            m.inlined_helpers = inl
            self._mods[relpath] = m
        return m

    def py_units(self):
        return [u for u in self.units if u.endswith('.py')]

    def all_modules(self):
        return [self.module(u) for u in self.py_units()]

    # ---------------- class table / MRO ------------------
    def classtable(self):
        if self._classtable is None:
            self._classtable = ClassTable(self)
        return self._classtable


def set_parents(tree):
    for node in ast.walk(tree):
        for ch in ast.iter_child_nodes(node):
            ch._parent = node
    tree._parent = None


def parent(node):
    return getattr(node, '_parent', None)


def enclosing(node, types):
    p = parent(node)
    while p is not None and not isinstance(p, types):
        p = parent(p)
    return p


def enclosing_stmt(node):
    while node is not None and not isinstance(node, ast.stmt):
        node = parent(node)
    return node


class ClassInfo:
    def __init__(self, name, node, module, bases):
        self.name = name
        self.node = node
        self.module = module
        self.base_names = bases
        self.bases = []  # ClassInfo
        self.subclasses = []
        self.methods = {}
        for ch in node.body:
            if isinstance(ch, (ast.FunctionDef, ast.AsyncFunctionDef)):
                self.methods.setdefault(ch.name, ch)  # first def (property getter)
        self.mro = None

    def __repr__(self):
        return '<Class %s>' % self.name


class ClassTable:
    """Classes of the package by *simple name* (unique in tenpy up to a handful; duplicates are
    kept in a list and resolution by name prefers the same module)."""

    def __init__(self, prog):
        self.prog = prog
        self.by_name = {}
        self.all = []
        for m in prog.all_modules():
            for q, node in m.classes.items():
                if '.' in q:
                    continue
                bases = []
                for b in node.bases:
                    if isinstance(b, ast.Name):
                        bases.append(b.id)
                    elif isinstance(b, ast.Attribute):
                        bases.append(b.attr)
                ci = ClassInfo(q, node, m, bases)
                self.by_name.setdefault(q, []).append(ci)
                self.all.append(ci)
        for ci in self.all:
            for b in ci.base_names:
                bi = self.lookup(b, ci.module)
                if bi is not None:
                    ci.bases.append(bi)
                    bi.subclasses.append(ci)
        for ci in self.all:
            self._mro(ci)

    def lookup(self, name, module=None):
        lst = self.by_name.get(name)
        if not lst:
            return None
        if module is not None:
            for ci in lst:
                if ci.module is module:
                    return ci
        return lst[0]

    def get(self, name, module=None):
        ci = self.lookup(name, module)
        if ci is None:
            raise AnalysisError('anchor vanished: class %s' % name)
        return ci

    def _mro(self, ci, stack=()):
        if ci.mro is not None:
            return ci.mro
        if ci in stack:
            raise AnalysisError('cyclic inheritance at %s' % ci.name)
        seqs = [list(self._mro(b, stack + (ci, ))) for b in ci.bases] + [list(ci.bases)]
        res = [ci]
        seqs = [s for s in seqs if s]
        while seqs:
            for s in seqs:
                cand = s[0]
                if not any(cand in t[1:] for t in seqs):
                    break
            else:
                raise AnalysisError('inconsistent MRO for %s' % ci.name)
            res.append(cand)
            seqs = [[x for x in s if x is not cand] for s in seqs]
            seqs = [s for s in seqs if s]
        ci.mro = res
        return res

    def resolve_method(self, ci, name, after=None):
        """Resolve `name` along the MRO of ci. With `after`, start after that class (super())."""
        mro = ci.mro
        start = 0
        if after is not None:
            start = mro.index(after) + 1
        for c in mro[start:]:
            if name in c.methods:
                return c, c.methods[name]
        return None, None

    def cone(self, ci):
        """ci and all transitive subclasses."""
        out = []
        todo = [ci]
        while todo:
            c = todo.pop()
            if c in out:
                continue
            out.append(c)
            todo.extend(c.subclasses)
        return out


# ----------------------------------------------------------------------------------------------
# syntax helpers


def unparse(node):
    if node is None:
        return ''
    if isinstance(node, list):
        return '; '.join(unparse(n) for n in node)
    try:
        return ast.unparse(node)
    except Exception:
        return '<%s>' % type(node).__name__


def key_text(node, maxlen=160):
    t = ' '.join(unparse(node).split())
    # keep only the head of compound statements
    if isinstance(node, (ast.If, ast.For, ast.While, ast.With, ast.Try, ast.FunctionDef)):
        t = t.split(':')[0]
    return t[:maxlen]


def dotted(node):
    """'a.b.c' for Name/Attribute chains, else None."""
    parts = []
    while isinstance(node, ast.Attribute):
        parts.append(node.attr)
        node = node.value
    if isinstance(node, ast.Name):
        parts.append(node.id)
        return '.'.join(reversed(parts))
    return None


def root_name(node):
    """Root variable name of an lvalue/rvalue chain (a.b[c].d -> 'a')."""
    while True:
        if isinstance(node, (ast.Attribute, ast.Subscript, ast.Starred)):
            node = node.value
        elif isinstance(node, ast.Call):
            node = node.func
        else:
            break
    if isinstance(node, ast.Name):
        return node.id
    return None


def call_name(call):
    """Simple name of the callee: f(...) -> 'f'; a.b.f(...) -> 'f'."""
    if not isinstance(call, ast.Call):
        return None
    f = call.func
    if isinstance(f, ast.Name):
        return f.id
    if isinstance(f, ast.Attribute):
        return f.attr
    return None


def calls_in(node, name=None):
    out = []
    for n in ast.walk(node):
        if isinstance(n, ast.Call) and (name is None or call_name(n) == name):
            out.append(n)
    return out


def walk_no_nested(node):
    """Pre-order walk in source order that does not descend into nested function/class
    definitions (lambdas and comprehensions are walked)."""
    yield node
    for ch in ast.iter_child_nodes(node):
        if isinstance(ch, (ast.FunctionDef, ast.AsyncFunctionDef, ast.ClassDef)):
            continue
        yield from walk_no_nested(ch)


def body_nodes(func):
    """All nodes of the body of func (not nested defs)."""
    for st in func.body:
        if isinstance(st, (ast.FunctionDef, ast.AsyncFunctionDef, ast.ClassDef)):
            continue
        yield from walk_no_nested(st)


def stmts_of(func):
    """statements of func's body in source order (nested defs and docstrings excluded)"""
    for n in body_nodes(func):
        if isinstance(n, ast.stmt):
            if isinstance(n, ast.Expr) and isinstance(n.value, ast.Constant) and isinstance(
                    n.value.value, str):
                continue
            yield n


def assigned_targets(stmt):
    """Flat list of target expressions of an assignment-like statement."""
    out = []

    def flat(t):
        if isinstance(t, (ast.Tuple, ast.List)):
            for e in t.elts:
                flat(e)
        elif isinstance(t, ast.Starred):
            flat(t.value)
        else:
            out.append(t)

    if isinstance(stmt, ast.Assign):
        for t in stmt.targets:
            flat(t)
    elif isinstance(stmt, (ast.AugAssign, ast.AnnAssign)):
        flat(stmt.target)
    elif isinstance(stmt, (ast.For, ast.AsyncFor)):
        flat(stmt.target)
    elif isinstance(stmt, (ast.With, ast.AsyncWith)):
        for it in stmt.items:
            if it.optional_vars is not None:
                flat(it.optional_vars)
    return out


def attr_stores(func, attr=None):
    """(stmt, target) for every store `X.attr = ...` / `X.attr[...] = ...` / augassign."""
    out = []
    for st in stmts_of(func):
        for t in assigned_targets(st):
            base = t
            sub = False
            while isinstance(base, ast.Subscript):
                base = base.value
                sub = True
            if isinstance(base, ast.Attribute) and (attr is None or base.attr == attr):
                out.append((st, t, base, sub))
    return out


def const_value(node):
    if isinstance(node, ast.Constant):
        return node.value
    return None


def docstring(func):
    return ast.get_docstring(func) or ''


def params(func):
    a = func.args
    names = [x.arg for x in a.posonlyargs + a.args]
    return names


def param_defaults(func):
    a = func.args
    pos = a.posonlyargs + a.args
    d = {}
    for p, dv in zip(pos[len(pos) - len(a.defaults):], a.defaults):
        d[p.arg] = dv
    for p, dv in zip(a.kwonlyargs, a.kw_defaults):
        if dv is not None:
            d[p.arg] = dv
    return d


def decorators(func):
    out = []
    for d in func.decorator_list:
        if isinstance(d, ast.Call):
            out.append((dotted(d.func) or unparse(d.func), d))
        else:
            out.append((dotted(d) or unparse(d), None))
    return out


# ----------------------------------------------------------------------------------------------
# reporting


class Finding:
    def __init__(self, rule, module, function, construct, message, line=None):
        self.rule = rule
        self.module = module
        self.function = function
        self.construct = construct
        self.message = message
        self.line = line

    def key(self):
        return '|'.join([self.rule, self.module, self.function, self.construct])

    def as_dict(self):
        return dict(rule=self.rule, module=self.module, function=self.function,
                    construct=self.construct, message=self.message, line=self.line)


def load_known():
    p = os.path.join(VERIF, 'known_findings.json')
    if not os.path.exists(p):
        return []
    with open(p) as f:
        return json.load(f)['findings']


class Report:
    """Collects rule instances and findings for one property and produces the interface output."""

    def __init__(self, prop, tier='quick'):
        self.prop = prop
        self.tier = tier
        self.t0 = time.time()
        self.instances = []  # (rule, descriptor, nontrivial)
        self.findings = []
        self.notes = []
        self.rules = {}  # rule -> description
        self.floors = {}  # rule -> (floor, count)
        self.units = {}
        self.extra = {}
        self.assumptions = []
        self.controls = []  # (rule, ok)

    def rule(self, rid, description):
        self.rules[rid] = description

    def unit(self, module):
        self.units[module.relpath] = module.digest

    def instance(self, rule, desc, nontrivial=True):
        self.instances.append((rule, desc, nontrivial))

    def violation(self, rule, module, function, construct, message, line=None):
        if hasattr(module, 'relpath'):
            module = module.relpath
        self.findings.append(Finding(rule, module, function, construct, message, line))

    def note(self, text):
        self.notes.append(text)

    def floor(self, rule, floor):
        n = sum(1 for r, _, _ in self.instances if r == rule)
        self.floors[rule] = (floor, n)
        if n < floor and not self.findings:
            raise AnalysisError('rule %s matched %d instances, below the confirmed floor %d '
                                '(anchors moved or analyser no longer sees them)' % (rule, n, floor))

    def control(self, rule, fired):
        """Positive control: a tiny fixture that must trigger the rule."""
        self.controls.append((rule, bool(fired)))
        if not fired:
            raise AnalysisError('positive control of rule %s did not fire (analyser broken)' % rule)

    def finish(self, level='other', explanation='', proof=None):
        known = [k for k in load_known() if k.get('property') == self.prop]
        known_keys = {}
        for k in known:
            if k.get('status') == 'known':
                known_keys['|'.join([k['rule'], k['module'], k['function'], k['construct']])] = k
        viol = []
        seen = set()
        known_hit = []
        for f in self.findings:
            if f.key() in seen:
                continue
            seen.add(f.key())
            if f.key() in known_keys:
                known_hit.append(f)
            else:
                viol.append(f)
        outdir = os.environ.get('TENPY_VERIF_OUT') or os.path.join(VERIF, 'evidence')
        os.makedirs(os.path.join(outdir, 'replay'), exist_ok=True)
        for f in known_hit:
            print('KNOWN-FINDING: property=%s %s %s:%s %s -- %s' %
                  (self.prop, f.rule, f.module, f.function, f.construct, f.message))
        for n in self.notes:
            print('NOTE: ' + n)
        for f in viol:
            h = hashlib.sha256(f.key().encode()).hexdigest()[:10]
            rp = os.path.join(outdir, 'replay', '%s-%s.json' % (self.prop, h))
            with open(rp, 'w') as fh:
                json.dump(dict(property=self.prop, **f.as_dict()), fh, indent=1)
            print('%s:%s: [%s] in %s: %s -- %s' %
                  (f.module, f.line or '?', f.rule, f.function, f.construct, f.message))
            print('VIOLATION property=%s replay=%s' % (self.prop, rp))
        distinct = set()
        for r, d, nt in self.instances:
            if nt:
                distinct.add((r, json.dumps(d, sort_keys=True, default=str)))
        samples = []
        per_rule = {}
        for r, d, nt in self.instances:
            per_rule.setdefault(r, []).append(d)
        for r, lst in per_rule.items():
            for d in lst[:3]:
                samples.append({'rule': r, 'instance': d})
        cov = {
            'evaluations': len(self.instances),
            'distinct_nontrivial': len(distinct),
            'rule': 'one evaluation = one rule instance (a construct of the current /repo source '
                    'matched by the premise of a rule); distinct = different (rule, construct) '
                    'descriptors; non-trivial = the premise matched real code and a decision was '
                    'needed',
            'samples': samples[:40],
            'explanation': explanation,
            'rules': self.rules,
            'instances_per_rule': {r: len(l) for r, l in per_rule.items()},
            'floors': {r: {'floor': a, 'count': b} for r, (a, b) in self.floors.items()},
            'positive_controls': [{'rule': r, 'fired': ok} for r, ok in self.controls],
            'units': self.units,
            'known_findings_hit': [f.as_dict() for f in known_hit],
            'violations': [f.as_dict() for f in viol],
            'notes': self.notes,
        }
        cov.update(self.extra)
        if proof:
            cov.update(proof)
        ev = {
            'property_id': self.prop,
            'tier': self.tier,
            'seed': int(os.environ.get('VERIF_SEED', '0') or 0),
            'level': level,
            'coverage': cov,
            'assumptions': self.assumptions,
            'wall_s': round(time.time() - self.t0, 3),
            'violations': len(viol),
        }
        with open(os.path.join(outdir, '%s.json' % self.prop), 'w') as fh:
            json.dump(ev, fh, indent=1, default=str)
        print('%s: %d rule instances (%d distinct), %d known finding(s), %d violation(s), %.2fs' %
              (self.prop, len(self.instances), len(distinct), len(known_hit), len(viol),
               time.time() - self.t0))
        return 1 if viol else 0


# ----------------------------------------------------------------------------------------------
# small dataflow helpers


def names_in(node):
    return {n.id for n in ast.walk(node) if isinstance(n, ast.Name)}


def local_defs(func):
    """name -> list of value expressions it is (re)bound from (flow-insensitive)."""
    defs = {}
    for st in stmts_of(func):
        if isinstance(st, ast.Assign):
            for t in st.targets:
                _bind(defs, t, st.value)
        elif isinstance(st, ast.AnnAssign) and st.value is not None:
            _bind(defs, st.target, st.value)
        elif isinstance(st, ast.AugAssign):
            _bind(defs, st.target, st.value)
        elif isinstance(st, (ast.For, ast.AsyncFor)):
            _bind(defs, st.target, st.iter)
        elif isinstance(st, (ast.With, ast.AsyncWith)):
            for it in st.items:
                if it.optional_vars is not None:
                    _bind(defs, it.optional_vars, it.context_expr)
    for n in body_nodes(func):
        if isinstance(n, ast.NamedExpr):
            _bind(defs, n.target, n.value)
        elif isinstance(n, ast.comprehension):
            _bind(defs, n.target, n.iter)
    return defs


def _bind(defs, target, value):
    if isinstance(target, ast.Name):
        defs.setdefault(target.id, []).append(value)
    elif isinstance(target, (ast.Tuple, ast.List)):
        if isinstance(value, (ast.Tuple, ast.List)) and len(value.elts) == len(target.elts) \
                and not any(isinstance(e, ast.Starred) for e in target.elts + value.elts):
            for t, v in zip(target.elts, value.elts):
                _bind(defs, t, v)
        else:
            for t in target.elts:
                _bind(defs, t, value)
    elif isinstance(target, ast.Starred):
        _bind(defs, target.value, value)


def depends_on(func, expr, names, defs=None):
    """May the value of `expr` depend on one of the variables `names` (through local
    assignments of `func`, flow-insensitively)?"""
    if defs is None:
        defs = local_defs(func)
    names = set(names)
    seen = set()
    todo = list(names_in(expr))
    while todo:
        n = todo.pop()
        if n in names:
            return True
        if n in seen:
            continue
        seen.add(n)
        for v in defs.get(n, []):
            todo.extend(names_in(v))
    return False


def is_self_attr(node, attr=None, selfname='self'):
    return isinstance(node, ast.Attribute) and isinstance(node.value, ast.Name) and \
        node.value.id == selfname and (attr is None or node.attr == attr)


def method_calls(node, recv_pred=None, name=None):
    """Calls X.name(...) inside node with optional receiver predicate."""
    out = []
    for n in ast.walk(node):
        if isinstance(n, ast.Call) and isinstance(n.func, ast.Attribute):
            if name is not None and n.func.attr != name:
                continue
            if recv_pred is not None and not recv_pred(n.func.value):
                continue
            out.append(n)
    return out


def kwarg(call, name):
    for k in call.keywords:
        if k.arg == name:
            return k.value
    return None


def stmt_calls(stmt):
    """Calls in the 'own' part of a statement (header of compound statements only)."""
    if isinstance(stmt, (ast.If, ast.While)):
        parts = [stmt.test]
    elif isinstance(stmt, (ast.For, ast.AsyncFor)):
        parts = [stmt.iter]
    elif isinstance(stmt, (ast.With, ast.AsyncWith)):
        parts = [i.context_expr for i in stmt.items]
    elif isinstance(stmt, (ast.Try, ast.FunctionDef, ast.AsyncFunctionDef, ast.ClassDef,
                           ast.ExceptHandler)):
        parts = []
    else:
        parts = [stmt]
    out = []
    for p in parts:
        for n in walk_no_nested(p):
            if isinstance(n, ast.Call):
                out.append(n)
    return out


# ----------------------------------------------------------------------------------------------
# method closure along the MRO of a concrete class


def self_method_calls(func):
    """[(kind, name, call)] for self.name(...), super().name(...), Class.name(self, ...)."""
    out = []
    for n in body_nodes(func):
        if isinstance(n, ast.Call) and isinstance(n.func, ast.Attribute):
            v = n.func.value
            if isinstance(v, ast.Name) and v.id in ('self', 'cls'):
                out.append(('self', n.func.attr, n))
            elif isinstance(v, ast.Call) and isinstance(v.func, ast.Name) and v.func.id == 'super':
                out.append(('super', n.func.attr, n))
            elif isinstance(v, ast.Name) and n.args and isinstance(n.args[0], ast.Name) and \
                    n.args[0].id == 'self':
                out.append(('class:' + v.id, n.func.attr, n))
    return out


def closure(ct, cls, start, depth=8):
    """Functions reachable from method `start` of concrete class `cls` via self/super calls,
    resolved along cls's MRO. Returns list of (defining ClassInfo, FunctionDef, chain) where
    chain is the tuple of (class.method) names leading there."""
    out = []
    seen = set()

    def visit(owner, f, chain, d):
        if id(f) in seen or d > depth:
            return
        seen.add(id(f))
        out.append((owner, f, chain))
        for kind, name, call in self_method_calls(f):
            if kind == 'self':
                o2, f2 = ct.resolve_method(cls, name)
            elif kind == 'super':
                if owner not in cls.mro:
                    continue
                o2, f2 = ct.resolve_method(cls, name, after=owner)
            else:
                base = ct.lookup(kind.split(':', 1)[1], owner.module)
                if base is None:
                    continue
                o2, f2 = ct.resolve_method(base, name)
            if f2 is not None:
                visit(o2, f2, chain + ('%s.%s' % (o2.name, name), ), d + 1)

    o, f = ct.resolve_method(cls, start)
    if f is None:
        return out
    visit(o, f, ('%s.%s' % (o.name, start), ), 0)
    return out


def in_loop(node, func):
    p = parent(node)
    while p is not None and p is not func:
        if isinstance(p, (ast.For, ast.While, ast.AsyncFor)):
            return True
        p = parent(p)
    return False


def private_callers(module):
    """name of a private function/method -> set of qualnames of the functions of `module` that
    call it (as `self.NAME(...)`, `cls.NAME(...)`, `Class.NAME(...)` or `NAME(...)`)."""
    priv = {f.name for f in module.functions.values()
            if f.name.startswith('_') and not f.name.startswith('__')}
    out = {n: set() for n in priv}
    for q, f in module.functions.items():
        for c in body_nodes(f):
            if not isinstance(c, ast.Call):
                continue
            nm = None
            if isinstance(c.func, ast.Attribute):
                nm = c.func.attr
            elif isinstance(c.func, ast.Name):
                nm = c.func.id
            if nm in out and f.name != nm:
                out[nm].add(q)
    return out


def phase_helpers(module, seeds):
    """Private helpers that only ever run as part of the functions named in `seeds` (e.g. the
    constructors): every call site in the module lies in a seed function or in another such
    helper. Derived from the current source, so a helper extracted from a constructor tomorrow
    is recognised without a table entry."""
    callers = private_callers(module)
    res = set()
    changed = True
    while changed:
        changed = False
        for nm, qs in callers.items():
            if nm in res or not qs:
                continue
            if all(q.rsplit('.', 1)[-1] in seeds or q.rsplit('.', 1)[-1] in res for q in qs):
                res.add(nm)
                changed = True
    return res


def bound_args(call, callee, skip_self=True):
    """parameter name -> argument expression for a call of the function definition `callee`
    (positional and keyword arguments; defaults not filled in)"""
    a = callee.args
    names = [x.arg for x in a.posonlyargs + a.args]
    if skip_self and names and names[0] in ('self', 'cls'):
        names = names[1:]
    out = {}
    for n, v in zip(names, call.args):
        if isinstance(v, ast.Starred):
            break
        out[n] = v
    for k in call.keywords:
        if k.arg is not None:
            out[k.arg] = k.value
    return out


def split_assign(st):
    """(target, value) pairs of an assignment; `a, b = x, y` is split element-wise"""
    out = []
    if not isinstance(st, ast.Assign):
        return out
    for t in st.targets:
        if isinstance(t, (ast.Tuple, ast.List)) and isinstance(st.value, (ast.Tuple, ast.List)) \
                and len(t.elts) == len(st.value.elts):
            out.extend(zip(t.elts, st.value.elts))
        elif isinstance(t, (ast.Tuple, ast.List)):
            out.extend((e, st.value) for e in t.elts)
        else:
            out.append((t, st.value))
    return out
