"""Generates /verif/MANIFEST.json from the table below (keeps it schema-valid)."""
import json
import os

HERE = os.path.dirname(os.path.dirname(os.path.abspath(__file__)))

BASELINE = ('cd /repo && /venv/bin/python -m pytest -ra -q -p no:cacheprovider --timeout=900 '
            '--continue-on-collection-errors')

# id -> (technique, level text, level note, design_ref)
CLAIMED = {}
NOT_APPLICABLE = {}


def claim(pid, technique, text, note, ref):
    from .manifest_table import EXTRA
    if pid in EXTRA:
        text = text + ' ' + EXTRA[pid]
    CLAIMED[pid] = (technique, text, note, ref)


def na(pid, reason):
    NOT_APPLICABLE[pid] = reason


from .manifest_table import fill  # noqa: E402

fill(claim, na)


def build():
    checks = []
    for pid in sorted(CLAIMED):
        tech, text, note, ref = CLAIMED[pid]
        checks.append({
            'property_id': pid,
            'quick_cmd': './check %s --tier quick' % pid,
            'thorough_cmd': './check %s --tier thorough' % pid,
            'evidence_file': '/verif/evidence/%s.json' % pid,
            'replay_cmd_template': './check %s --replay {path}' % pid,
            'engine': 'sa',
            'level_claimed': {'category': 'other', 'text': text, 'design_ref': ref},
            'level_note': note,
            'technique': tech,
        })
    man = {
        'version': 1,
        'setup_cmd': '/venv/bin/python -m compileall -q sa >/dev/null 2>&1; /venv/bin/python -B sa/main.py --help >/dev/null 2>&1; true',
        'hooks': {
            'guard': 'TENPY_TENPY_VERIF',
            'enable': 'no hooks: the checks are static analyses of the /repo working tree; '
                      'nothing in tenpy is instrumented',
            'baseline_off_cmd': BASELINE,
            'source_commits': [],
            'add_only': True,
        },
        'engines': [{
            'name': 'sa',
            'path': 'sa/',
            'serves_properties': sorted(CLAIMED),
            'kind_free_text': 'repo-specific static analysis over python ast / Cython parse tree: '
                              'CFG path rules, typestate, ownership, sibling/table agreement, '
                              'symbolic linear forms; never imports or runs tenpy',
        }],
        'checks': checks,
        'not_applicable': [{'property_id': p, 'reason': r}
                           for p, r in sorted(NOT_APPLICABLE.items())],
        'notes': 'Exit 0 = all rule instances held (KNOWN-FINDING lines for listed genuine '
                 'defects); exit 1 + VIOLATION line = unlisted violation; exit 2 + ANALYSIS-ERROR = '
                 'analyser could not decide (anchor vanished / below instance floor). See DESIGN.md.',
    }
    with open(os.path.join(HERE, 'MANIFEST.json'), 'w') as f:
        json.dump(man, f, indent=1)
    return man


if __name__ == '__main__':
    import sys
    sys.path.insert(0, HERE)
    build()
