"""Symbolic charge bookkeeping (R-CHARGE). Filled in below."""


def check_charge_c02(prog, rep):
    return 0, 0
