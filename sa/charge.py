"""Symbolic charge bookkeeping (R-CHARGE).

A small abstract interpreter over straight-line code with sign-dependent branches. Charges are
exact polynomials (sa/linform.py) over symbols; a leg is the pair (charges, qconj) and its
*effective* charge is charges*qconj (what `get_charge` returns). Direction symbols (+-1) are
enumerated concretely, so s*s = 1 needs no algebra. `make_valid` is the identity (all equalities
are modulo the charge group). Hypothesis for a rank-2 operand `a`:
eff(a.legs[0]) + eff(a.legs[1]) = a.qtotal on stored blocks.

Obligation at every `Array([l1, l2], dtype, qtotal)` construction: eff(l1) + eff(l2) - qtotal == 0.
"""
import ast
import re
import itertools

from .core import AnalysisError, dotted, key_text, stmts_of, unparse
from .linform import C, NotPoly, Poly

NPC = 'tenpy/linalg/np_conserved.py'
CH = 'tenpy/linalg/charges.py'


class Leg:
    def __init__(self, charges, qc):
        self.charges = charges
        self.qc = qc

    def eff(self):
        return self.charges * self.qc

    def copy(self):
        return Leg(self.charges, self.qc)


class Unknown:
    def __repr__(self):
        return '<?>'


UNK = Unknown()
ZERO = Poly.const(0)


class Interp:
    """config: dict name -> concrete value for sign symbols / None-ness of parameters."""

    def __init__(self, func, signs, none_params=(), operand='a', consts=None):
        self.f = func
        self.signs = signs  # e.g. {'s0': 1, 's1': -1, 'inner_qconj': 1}
        self.none = set(none_params)
        self.operand = operand
        self.env = {}
        self.obligations = []  # (description, residual Poly, lineno)
        self.notes = []
        self.consts = consts or {}
        self.path_conds = []

    # --- operand model
    def operand_leg(self, i):
        s = Poly.const(self.signs['s%d' % i])
        if i == 0:
            e = Poly.sym('E0')
        else:
            # hypothesis: eff0 + eff1 = qtotal(a)
            e = Poly.sym('qt_a') - Poly.sym('E0')
        return Leg(e * s, s)

    # --- expressions
    def ev(self, node):
        if isinstance(node, ast.Constant):
            if node.value is None:
                return None
            if isinstance(node.value, (int, float)) and not isinstance(node.value, bool):
                return Poly.const(node.value)
            return UNK
        if isinstance(node, ast.Name):
            if node.id in self.env:
                return self.env[node.id]
            if node.id in self.none:
                return None
            if node.id in self.signs:
                return Poly.const(self.signs[node.id])
            return UNK
        if isinstance(node, ast.UnaryOp) and isinstance(node.op, (ast.USub, ast.UAdd)):
            v = self.ev(node.operand)
            if isinstance(v, Poly):
                return -v if isinstance(node.op, ast.USub) else v
            return UNK
        if isinstance(node, ast.BinOp) and isinstance(node.op, (ast.Add, ast.Sub, ast.Mult)):
            a, b = self.ev(node.left), self.ev(node.right)
            if isinstance(a, Poly) and isinstance(b, Poly):
                if isinstance(node.op, ast.Add):
                    return a + b
                if isinstance(node.op, ast.Sub):
                    return a - b
                return a * b
            return UNK
        if isinstance(node, (ast.Tuple, ast.List)):
            return [self.ev(e) for e in node.elts]
        if isinstance(node, ast.Attribute):
            base = node.value
            d = dotted(node)
            if d == self.operand + '.qtotal':
                return Poly.sym('qt_a')
            v = self.ev(base) if not (isinstance(base, ast.Name) and base.id == self.operand) \
                else None
            if isinstance(v, Leg):
                if node.attr == 'charges':
                    return v.charges
                if node.attr == 'qconj':
                    return v.qc
                return UNK
            if node.attr == 'qtotal' and isinstance(base, ast.Name) and base.id in self.env and \
                    isinstance(self.env[base.id], dict):
                return self.env[base.id].get('qtotal', UNK)
            return UNK
        if isinstance(node, ast.Subscript):
            d = unparse(node)
            if d == self.operand + '.legs[0]':
                return self.operand_leg(0)
            if d in (self.operand + '.legs[1]', self.operand + '.legs[-1]'):
                return self.operand_leg(1)
            v = self.ev(node.value)
            if isinstance(v, list) and isinstance(node.slice, ast.Constant) and isinstance(
                    node.slice.value, int) and -len(v) <= node.slice.value < len(v):
                return v[node.slice.value]
            return UNK
        if isinstance(node, ast.Call):
            return self.call(node)
        if isinstance(node, ast.IfExp):
            t = self.test(node.test)
            if t is True:
                return self.ev(node.body)
            if t is False:
                return self.ev(node.orelse)
            return UNK
        return UNK

    def call(self, c):
        fn = c.func
        name = fn.attr if isinstance(fn, ast.Attribute) else (fn.id if isinstance(fn, ast.Name)
                                                              else None)
        if name == 'make_valid':
            if not c.args:
                return ZERO
            v = self.ev(c.args[0])
            return ZERO if v is None else v
        if isinstance(fn, ast.Attribute):
            recv = self.ev(fn.value)
            if isinstance(recv, Leg):
                if name == 'conj':
                    return Leg(recv.charges, -recv.qc)
                if name in ('copy', 'to_LegCharge'):
                    return recv.copy()
                if name == 'get_charge':
                    return recv.eff()
                if name == 'project':
                    return [UNK, UNK, recv.copy()]
                if name == 'flip_charges_qconj':
                    return Leg(-recv.charges, -recv.qc)
                return UNK
        if name in ('from_qind', 'LegCharge') and (
                dotted(fn) in ('LegCharge.from_qind', 'LegCharge', 'charges.LegCharge')):
            args = list(c.args)
            if len(args) >= 3:
                ch = self.ev(args[2])
                qc = self.ev(args[3]) if len(args) > 3 else Poly.const(1)
                for k in c.keywords:
                    if k.arg == 'qconj':
                        qc = self.ev(k.value)
                if isinstance(ch, Poly) and isinstance(qc, Poly):
                    return Leg(ch, qc)
            return UNK
        if name in ('Array', 'zeros') and dotted(fn) in ('Array', 'zeros', 'npc.zeros'):
            legs = self.ev(c.args[0]) if c.args else UNK
            qt = self.ev(c.args[2]) if len(c.args) > 2 else None
            for k in c.keywords:
                if k.arg == 'qtotal':
                    qt = self.ev(k.value)
            if qt is None:
                qt = ZERO
            if isinstance(legs, list) and all(isinstance(l, Leg) for l in legs) and isinstance(
                    qt, Poly):
                res = ZERO
                for l in legs:
                    res = res + l.eff()
                res = res - qt
                self.obligations.append((unparse(c)[:90], res, c.lineno))
            else:
                self.obligations.append((unparse(c)[:90], None, c.lineno))
            return {'qtotal': qt if isinstance(qt, Poly) else UNK}
        return UNK

    # --- tests
    def test(self, node):
        if isinstance(node, ast.Compare) and len(node.ops) == 1:
            op = node.ops[0]
            l, r = node.left, node.comparators[0]
            if isinstance(r, ast.Constant) and r.value is None and isinstance(
                    op, (ast.Is, ast.IsNot)):
                v = self.ev(l)
                if v is None:
                    return isinstance(op, ast.Is)
                if isinstance(v, (Poly, Leg, list, dict)):
                    return isinstance(op, ast.IsNot)
                return None
            if isinstance(op, (ast.Eq, ast.NotEq)):
                a, b = self.ev(l), self.ev(r)
                if isinstance(a, Poly) and isinstance(b, Poly) and a.is_const() and b.is_const():
                    eq = a == b
                    return eq if isinstance(op, ast.Eq) else not eq
            return None
        if isinstance(node, ast.BoolOp):
            vals = [self.test(v) for v in node.values]
            if isinstance(node.op, ast.And):
                if any(v is False for v in vals):
                    return False
                if all(v is True for v in vals):
                    return True
            else:
                if any(v is True for v in vals):
                    return True
                if all(v is False for v in vals):
                    return False
            return None
        if isinstance(node, ast.UnaryOp) and isinstance(node.op, ast.Not):
            v = self.test(node.operand)
            return None if v is None else not v
        if isinstance(node, ast.Name) and node.id in self.consts:
            return self.consts[node.id]
        return None

    # --- statements
    def run(self):
        self.block(self.f.body)

    def block(self, stmts):
        for st in stmts:
            if self.stmt(st) == 'stop':
                return 'stop'

    def stmt(self, st):
        if isinstance(st, ast.Assign):
            v = self.ev(st.value)
            for t in st.targets:
                self.assign(t, v)
        elif isinstance(st, ast.AugAssign):
            if isinstance(st.target, ast.Name):
                cur = self.env.get(st.target.id, UNK)
                v = self.ev(st.value)
                if isinstance(cur, Poly) and isinstance(v, Poly):
                    if isinstance(st.op, ast.Add):
                        self.env[st.target.id] = cur + v
                    elif isinstance(st.op, ast.Sub):
                        self.env[st.target.id] = cur - v
                    elif isinstance(st.op, ast.Mult):
                        self.env[st.target.id] = cur * v
                    else:
                        self.env[st.target.id] = UNK
                else:
                    self.env[st.target.id] = UNK
        elif isinstance(st, ast.If):
            t = self.test(st.test)
            key = unparse(st.test)
            if t is None and key in self.consts:
                # decided by the case split of the caller; `np.any(N != 0)` false means N == 0
                t = self.consts[key]
                mm = re.fullmatch(r'np\.any\((\w+) != 0\)', key)
                if t is False and mm:
                    self.env[mm.group(1)] = ZERO
            if t is True:
                return self.block(st.body)
            if t is False:
                return self.block(st.orelse)
            # unknown: run both on copies and merge (values differing -> UNK)
            e0 = dict(self.env)
            r1 = self.block(st.body)
            e1 = self.env
            self.env = dict(e0)
            r2 = self.block(st.orelse)
            e2 = self.env
            merged = {}
            for k in set(e1) | set(e2):
                a, b = e1.get(k, UNK), e2.get(k, UNK)
                merged[k] = a if _same(a, b) else UNK
            if r1 == 'stop' and r2 != 'stop':
                merged = e2
            elif r2 == 'stop' and r1 != 'stop':
                merged = e1
            self.env = merged
            if r1 == 'stop' and r2 == 'stop':
                return 'stop'
        elif isinstance(st, (ast.For, ast.While)):
            # loops handle per-block numerics; names assigned inside become unknown
            for n in ast.walk(st):
                if isinstance(n, ast.Name) and isinstance(n.ctx, ast.Store):
                    self.env[n.id] = UNK
        elif isinstance(st, (ast.Return, ast.Raise)):
            return 'stop'
        elif isinstance(st, ast.Expr):
            self.ev(st.value)
        elif isinstance(st, ast.With):
            return self.block(st.body)
        return None

    def assign(self, t, v):
        if isinstance(t, ast.Name):
            self.env[t.id] = v
        elif isinstance(t, (ast.Tuple, ast.List)):
            if isinstance(v, list) and len(v) == len(t.elts):
                for e, x in zip(t.elts, v):
                    self.assign(e, x)
            else:
                for e in t.elts:
                    self.assign(e, UNK)
        elif isinstance(t, ast.Attribute) and isinstance(t.value, ast.Name):
            obj = self.env.get(t.value.id)
            if isinstance(obj, Leg):
                if t.attr == 'charges' and isinstance(v, Poly):
                    obj.charges = v
                elif t.attr == 'qconj' and isinstance(v, Poly):
                    obj.qc = v
                elif t.attr in ('charges', 'qconj'):
                    self.env[t.value.id] = UNK


def _same(a, b):
    if isinstance(a, Poly) and isinstance(b, Poly):
        return a == b
    if a is None and b is None:
        return True
    if isinstance(a, Leg) and isinstance(b, Leg):
        return a.charges == b.charges and a.qc == b.qc
    return a is b


def _run_cases(rep, m, qual, func, sign_names, none_cases, rule, operand='a', extra_signs=(),
               min_obligations=1, consts_cases=({}, )):
    """Enumerate sign cases x None-ness cases; every constructed Array must balance."""
    n_ob = n_dis = 0
    names = ['s0', 's1'] + list(sign_names)
    reported = set()
    for signs in itertools.product((1, -1), repeat=len(names)):
        cfg = dict(zip(names, signs))
        for none_params in none_cases:
            for consts in consts_cases:
                it = Interp(func, cfg, none_params, operand, consts)
                # parameters that are symbolic charges
                for p in extra_signs:
                    pass
                _bind_params(it, func, none_params, cfg)
                it.run()
                if len(it.obligations) < min_obligations:
                    raise AnalysisError('%s: no Array construction reached in case %s %s' %
                                        (qual, cfg, none_params))
                for desc, residual, line in it.obligations:
                    n_ob += 1
                    case = {'function': qual, 'construction': desc, 'signs': cfg,
                            'None': sorted(none_params), 'consts': consts}
                    rep.instance(rule, case)
                    if residual is None:
                        raise AnalysisError('%s: cannot evaluate the charges of `%s` symbolically '
                                            '(case %s)' % (qual, desc, cfg))
                    if residual.is_zero():
                        n_dis += 1
                    else:
                        key = 'charge-imbalance:' + desc[:50]
                        if key in reported:
                            continue
                        reported.add(key)
                        rep.violation(
                            rule, m, qual, key,
                            'for directions %s (None: %s) the legs of `%s` carry effective '
                            'charges that differ from its total charge by [%r]: the factor is '
                            'not charge-consistent (blocks violate the charge rule / factors '
                            'are not contractible to the input)' %
                            (cfg, sorted(none_params), desc, residual), line)
    return n_ob, n_dis


def _bind_params(it, func, none_params, cfg):
    for a in func.args.args:
        n = a.arg
        if n in none_params or n in cfg or n == it.operand:
            continue
        it.env[n] = Poly.sym(n) if n.startswith('qtotal') or n in ('newqtotal', ) else UNK


def check_factorization_charges(prog, rep, rule='CHARGE-factor'):
    """_svd_worker, qr, orthogonal_columns: legs of the factors balance their total charges."""
    m = prog.module(NPC)
    rep.unit(m)
    n_ob = n_dis = 0
    # _svd_worker(a, full_matrices, compute_uv, overwrite_a, cutoff, qtotal_LR, inner_qconj)
    f = m.func('_svd_worker')
    a, b = _run_cases_svd(rep, m, f, rule)
    n_ob += a
    n_dis += b
    f = m.func('qr')
    a, b = _run_cases(rep, m, 'qr', f, ['inner_qconj'], [(), ('qtotal_Q', )], rule,
                      min_obligations=2)
    n_ob += a
    n_dis += b
    f = m.func('orthogonal_columns')
    a, b = _run_cases_ortho(rep, m, f, rule)
    n_ob += a
    n_dis += b
    return n_ob, n_dis


def _run_cases_svd(rep, m, f, rule):
    n_ob = n_dis = 0
    reported = set()
    for s0, s1, sq in itertools.product((1, -1), repeat=3):
        cfg = {'s0': s0, 's1': s1, 'inner_qconj': sq}
        it = Interp(f, cfg, (), 'a', consts={'full_matrices': False, 'compute_uv': True})
        it.env['qtotal_LR'] = [Poly.sym('qt_a') - Poly.sym('qtotal_R'), Poly.sym('qtotal_R')]
        # qi_R indexes blocks: get_charge(qi_R) is the effective charge of leg 1 on stored blocks
        it.run()
        if len(it.obligations) < 2:
            raise AnalysisError('_svd_worker: constructions of U/VH not reached')
        for desc, residual, line in it.obligations:
            n_ob += 1
            rep.instance(rule, {'function': '_svd_worker', 'construction': desc, 'signs': cfg})
            if residual is None:
                raise AnalysisError('_svd_worker: cannot evaluate `%s` symbolically' % desc)
            if residual.is_zero():
                n_dis += 1
            elif desc not in reported:
                reported.add(desc)
                rep.violation(rule, m, '_svd_worker', 'charge-imbalance:' + desc[:50],
                              'for directions %s the legs of `%s` differ from its total charge '
                              'by [%r] (qtotal_L + qtotal_R = a.qtotal assumed): U / VH are not '
                              'charge-consistent for a non-zero qtotal_LR or inner_qconj=-1' %
                              (cfg, desc, residual), line)
    # full_matrices=True: square factors on the legs of `a`; the blocks are diagonal (qi, qi).
    # Conditions `np.any(qtotal_X != 0)` found in the function are case-split (false: X == 0).
    conds = sorted({unparse(st.test) for st in ast.walk(f) if isinstance(st, ast.If) and
                    re.fullmatch(r'np\.any\(qtotal_\w+ != 0\)', unparse(st.test))})
    for s0, s1 in itertools.product((1, -1), repeat=2):
        for choice in itertools.product((True, False), repeat=len(conds)):
            cfg = {'s0': s0, 's1': s1, 'inner_qconj': 1}
            consts = {'full_matrices': True, 'compute_uv': True}
            consts.update(dict(zip(conds, choice)))
            it = Interp(f, cfg, (), 'a', consts=consts)
            it.env['qtotal_LR'] = [Poly.sym('qt_a') - Poly.sym('qtotal_R'), Poly.sym('qtotal_R')]
            it.run()
            if len(it.obligations) < 2:
                raise AnalysisError('_svd_worker(full_matrices=True): U/VH not reached')
            for desc, residual, line in it.obligations:
                n_ob += 1
                rep.instance(rule, {'function': '_svd_worker', 'construction': desc,
                                    'signs': cfg, 'full_matrices': True,
                                    'case': dict(zip(conds, choice))})
                if residual is None:
                    raise AnalysisError('_svd_worker(full_matrices=True): cannot evaluate `%s`'
                                        % desc)
                if residual.is_zero():
                    n_dis += 1
                elif ('full', desc) not in reported:
                    reported.add(('full', desc))
                    rep.violation(rule, m, '_svd_worker', 'charge-imbalance-full:' + desc[:50],
                                  'full_matrices=True, directions %s, case %s: the diagonal blocks '
                                  '(qi, qi) of `%s` have total charge differing from the declared '
                                  'one by [%r]: the factor fails its sanity check for a.qtotal != 0'
                                  % (cfg, dict(zip(conds, choice)), desc, residual), line)
    return n_ob, n_dis


def _run_cases_ortho(rep, m, f, rule):
    n_ob = n_dis = 0
    reported = set()
    for s0, s1 in itertools.product((1, -1), repeat=2):
        cfg = {'s0': s0, 's1': s1}
        it = Interp(f, cfg, (), 'a', consts={})
        # skip the early-return branches: M > N
        it.env['left_leg'] = it.operand_leg(0)
        body = [st for st in f.body if not (isinstance(st, ast.If) and (
            'M < N' in unparse(st.test) or 'M == N' in unparse(st.test) or
            'a.rank' in unparse(st.test)))]
        it.block(body)
        obs = [o for o in it.obligations]
        if not obs:
            raise AnalysisError('orthogonal_columns: construction not reached')
        for desc, residual, line in obs:
            n_ob += 1
            rep.instance(rule, {'function': 'orthogonal_columns', 'construction': desc,
                                'signs': cfg})
            if residual is None:
                raise AnalysisError('orthogonal_columns: cannot evaluate `%s`' % desc)
            if residual.is_zero():
                n_dis += 1
            elif desc not in reported:
                reported.add(desc)
                rep.violation(rule, m, 'orthogonal_columns', 'charge-imbalance:' + desc[:50],
                              'for directions %s the legs of `%s` differ from its total charge '
                              'by [%r]' % (cfg, desc, residual), line)
    return n_ob, n_dis


# ------------------------------------------------------------------------------------------------
# total charge of results: the documented function of the operands' total charges


def _qtotal_arg(call):
    if len(call.args) > 2:
        return call.args[2]
    for k in call.keywords:
        if k.arg == 'qtotal':
            return k.value
    return None


def _sym_eval(node, env):
    """polynomial over source-text symbols; make_valid(x) -> x; locals substituted"""
    if isinstance(node, ast.Call):
        nm = node.func.attr if isinstance(node.func, ast.Attribute) else getattr(
            node.func, 'id', None)
        if nm == 'make_valid':
            if not node.args:
                return ZERO
            return _sym_eval(node.args[0], env)
        if nm in ('copy', ) and isinstance(node.func, ast.Attribute):
            return _sym_eval(node.func.value, env)
        if nm == 'get_charge':
            return Poly.sym('eff(%s)' % unparse(node.func.value))
        return Poly.sym(unparse(node))
    if isinstance(node, ast.Name):
        if node.id in env:
            return env[node.id]
        return Poly.sym(node.id)
    if isinstance(node, (ast.Attribute, ast.Subscript)):
        return Poly.sym(unparse(node))
    if isinstance(node, ast.UnaryOp) and isinstance(node.op, ast.USub):
        return -_sym_eval(node.operand, env)
    if isinstance(node, ast.BinOp) and isinstance(node.op, (ast.Add, ast.Sub, ast.Mult)):
        a, b = _sym_eval(node.left, env), _sym_eval(node.right, env)
        return a + b if isinstance(node.op, ast.Add) else a - b if isinstance(
            node.op, ast.Sub) else a * b
    if isinstance(node, ast.Constant) and isinstance(node.value, (int, float)) and \
            not isinstance(node.value, bool):
        return Poly.const(node.value)
    if isinstance(node, ast.Constant) and node.value is None:
        return ZERO
    raise NotPoly(unparse(node))


def _local_env(f, upto=None):
    env = {}
    for st in stmts_of(f):
        if upto is not None and st.lineno >= upto:
            break
        if isinstance(st, ast.Assign) and len(st.targets) == 1 and isinstance(
                st.targets[0], ast.Name):
            try:
                env[st.targets[0].id] = _sym_eval(st.value, env)
            except NotPoly:
                env.pop(st.targets[0].id, None)
    return env


QTOTAL_SPEC = [
    # (function, constructor call selector, expected polynomial as text over source symbols)
    ('outer', 'a.qtotal + b.qtotal', 'sum for products'),
    ('tensordot', 'a.qtotal + b.qtotal', 'sum for contractions'),
    ('_tensordot_worker', 'a.qtotal + b.qtotal', 'sum for contractions'),
    ('trace', 'a.qtotal', 'trace removes a contractible pair: unchanged'),
    ('Array.add_leg', 'self.qtotal + eff(leg)', 'added index contributes its charge'),
    ('orthogonal_columns', 'a.qtotal', 'same total charge as the input'),
]


def check_qtotal_forms(prog, rep, rule='CHARGE-qtotal'):
    m = prog.module(NPC)
    n_ob = n_dis = 0
    for fn, expected, why in QTOTAL_SPEC:
        f = m.func(fn)
        want = _sym_eval(ast.parse(expected, mode='eval').body, {})
        found = 0
        for c in ast.walk(f):
            if isinstance(c, ast.Call) and dotted(c.func) in ('Array', 'zeros'):
                qa = _qtotal_arg(c)
                if qa is None:
                    continue
                env = _local_env(f, upto=c.lineno)
                try:
                    got = _sym_eval(qa, env)
                except NotPoly:
                    raise AnalysisError('%s: total charge expression `%s` not understood' %
                                        (fn, unparse(qa)))
                found += 1
                n_ob += 1
                rep.instance(rule, {'function': fn, 'construction': unparse(c)[:80],
                                    'qtotal': repr(got), 'documented': expected})
                if got == want:
                    n_dis += 1
                else:
                    rep.violation(rule, m, fn, 'qtotal-form:' + unparse(qa)[:40],
                                  'the result of %s is built with total charge [%r]; documented: '
                                  '%s = [%r]' % (fn, got, why, want), c.lineno)
        if not found:
            raise AnalysisError('%s: no Array construction with an explicit total charge' % fn)
    # conj: negation
    f = m.func('Array.conj')
    n_ob += 1
    sts = [s for s in stmts_of(f) if isinstance(s, ast.Assign) and
           unparse(s.targets[0]).endswith('.qtotal')]
    rep.instance(rule, {'function': 'Array.conj', 'store': [key_text(s) for s in sts]})
    ok = len(sts) == 1
    if ok:
        x = unparse(sts[0].targets[0])
        got = _sym_eval(sts[0].value, {})
        ok = got == -Poly.sym(x)
    if ok:
        n_dis += 1
        # all legs conjugated
        if not any(isinstance(s, ast.Assign) and unparse(s.targets[0]).endswith('.legs') and
                   isinstance(s.value, ast.ListComp) and unparse(s.value.elt).endswith('.conj()')
                   for s in stmts_of(f)):
            rep.violation(rule, m, 'Array.conj', 'legs-not-conjugated',
                          'conj must replace every leg by its conj()', f.lineno)
    else:
        rep.violation(rule, m, 'Array.conj', 'qtotal-negation',
                      'conjugation must negate the total charge', f.lineno)
    # take_slice / squeeze: difference for removed indices
    for fn, loopvar_src in (('Array.take_slice', 'axes'), ('Array.squeeze', 'axes')):
        f = m.func(fn)
        n_ob += 1
        ok = False
        for s in stmts_of(f):
            if isinstance(s, ast.AugAssign) and unparse(s.target).endswith('.qtotal'):
                rep.instance(rule, {'function': fn, 'update': key_text(s)})
                from .core import parent
                lp = parent(s)
                if isinstance(s.op, ast.Sub) and isinstance(s.value, ast.Call) and isinstance(
                        s.value.func, ast.Attribute) and s.value.func.attr == 'get_charge' and \
                        isinstance(lp, ast.For) and loopvar_src in unparse(lp.iter):
                    recv = unparse(s.value.func.value)
                    tv = lp.target.elts[0] if isinstance(lp.target, ast.Tuple) else lp.target
                    if recv == 'self.legs[%s]' % unparse(tv):
                        ok = True
        if ok:
            n_dis += 1
        else:
            rep.violation(rule, m, fn, 'qtotal-difference',
                          '%s must subtract the charge of every removed index from the total '
                          'charge (difference for removed indices)' % fn, f.lineno)
    # svd: qtotal_L + qtotal_R = a.qtotal on every path
    f = m.func('svd')
    env = {}
    forms = []
    for s in stmts_of(f):
        if isinstance(s, ast.Assign) and isinstance(s.targets[0], ast.Name) and \
                s.targets[0].id in ('qtotal_L', 'qtotal_R') and not isinstance(
                    s.value, (ast.Name, ast.Tuple)):
            try:
                forms.append((s, s.targets[0].id, _sym_eval(s.value, {})))
            except NotPoly:
                pass
    for s, name, form in forms:
        n_ob += 1
        other = 'qtotal_R' if name == 'qtotal_L' else 'qtotal_L'
        rep.instance(rule, {'function': 'svd', 'assign': key_text(s)})
        if form == Poly.sym('a.qtotal') - Poly.sym(other) or form == Poly.sym('a.qtotal'):
            n_dis += 1
        else:
            rep.violation(rule, m, 'svd', 'qtotal_LR:' + name,
                          '`%s`: the two factors must share the total charge, %s = a.qtotal - %s '
                          '(got [%r])' % (key_text(s), name, other, form), s.lineno)
    if len(forms) < 3:
        raise AnalysisError('svd: qtotal_L/qtotal_R completion statements not found')
    from .normal import inline_temps
    try:
        fn = inline_temps(f, keep=('qtotal_L', 'qtotal_R'))   # a named sum is the same test
    except Exception:
        fn = f
    guard = [s for s in ast.walk(fn) if isinstance(s, ast.If) and 'qtotal_L + qtotal_R' in unparse(
        s.test) and any(isinstance(b, ast.Raise) for b in s.body)]
    n_ob += 1
    rep.instance(rule, {'function': 'svd', 'guard': bool(guard)})
    if guard:
        n_dis += 1
    else:
        rep.violation(rule, m, 'svd', 'qtotal_LR-guard',
                      'explicit qtotal_LR that do not add up to a.qtotal must be rejected',
                      f.lineno)
    # qr: r gets the rest
    f = m.func('qr')
    n_ob += 1
    ok = False
    for c in ast.walk(f):
        if isinstance(c, ast.Call) and dotted(c.func) == 'Array' and len(c.args) > 2:
            try:
                got = _sym_eval(c.args[2], {})
            except NotPoly:
                continue
            if got == Poly.sym('a.qtotal') - Poly.sym('q.qtotal'):
                ok = True
    rep.instance(rule, {'function': 'qr', 'r_total': ok})
    if ok:
        n_dis += 1
    else:
        rep.violation(rule, m, 'qr', 'qtotal-R', 'R must carry a.qtotal - Q.qtotal', f.lineno)
    # inner: early exit when the total charges do not cancel
    f = m.func('_inner_worker')
    n_ob += 1
    ok = False
    for s in stmts_of(f):
        if isinstance(s, ast.Assign) and isinstance(s.value, ast.IfExp) and \
                unparse(s.value.test) == 'do_conj':
            try:
                t = _sym_eval(s.value.body, {})
                e = _sym_eval(s.value.orelse, {})
            except NotPoly:
                continue
            A, B = Poly.sym('a.qtotal'), Poly.sym('b.qtotal')
            if (t == B - A or t == A - B) and e == A + B:
                ok = True
    rep.instance(rule, {'function': '_inner_worker', 'ok': ok})
    if ok:
        n_dis += 1
    else:
        rep.violation(rule, m, '_inner_worker', 'qtotal-check',
                      'inner(a, b) vanishes unless qtotal(b) -/+ qtotal(a) = 0 (minus iff '
                      'do_conj)', f.lineno)
    return n_ob, n_dis


def check_gauge(prog, rep, rule='CHARGE-gauge'):
    """gauge_total_charge: eff_new - eff_old = newqtotal - qtotal in all four direction cases."""
    m = prog.module(NPC)
    f = m.func('Array.gauge_total_charge')
    n_ob = n_dis = 0
    for so, sn in itertools.product((1, -1), repeat=2):
        it = Interp(f, {'s0': so, 's1': 1}, (), 'self')
        it.env['old_qconj'] = Poly.const(so)
        it.env['new_qconj'] = Poly.const(sn)
        old = Leg(Poly.sym('E0') * Poly.const(so), Poly.const(so))
        # interpret the arithmetic statements only
        it.env['chdiff'] = None
        for st in stmts_of(f):
            if isinstance(st, ast.Assign) and isinstance(st.targets[0], ast.Name):
                nm = st.targets[0].id
                if nm == 'chdiff':
                    v = _sym_eval(st.value, {'newqtotal': Poly.sym('newqtotal')})
                    it.env['chdiff'] = v
                elif nm == 'new_charges':
                    src = unparse(st.value)
                    if 'self.legs[ax].charges' in src:
                        e = dict(it.env)
                        v = _sym_eval(st.value, {'old_qconj': Poly.const(so),
                                                 'chdiff': it.env['chdiff']})
                        # substitute the operand charges
                        v = _subst(v, 'self.legs[ax].charges', old.charges)
                        it.env['new_charges'] = v
                    elif src.startswith('-') and isinstance(it.env.get('new_charges'), Poly):
                        from .core import parent
                        g = parent(st)
                        if isinstance(g, ast.If):
                            cond = it.test(g.test)
                            if cond is None:
                                raise AnalysisError('gauge_total_charge: sign test not evaluable')
                            if cond:
                                it.env['new_charges'] = -it.env['new_charges']
                    elif 'make_valid' in src:
                        pass
        nc = it.env.get('new_charges')
        if not isinstance(nc, Poly) or not isinstance(it.env.get('chdiff'), Poly):
            raise AnalysisError('gauge_total_charge: charge arithmetic not understood')
        # constructed leg: from_qind(chinfo, slices, new_charges, new_qconj)
        mk = [c for c in ast.walk(f) if isinstance(c, ast.Call) and
              dotted(c.func) == 'LegCharge.from_qind']
        if not mk or unparse(mk[0].args[2]) != 'new_charges' or \
                unparse(mk[0].args[3]) != 'new_qconj':
            raise AnalysisError('gauge_total_charge: new leg construction not found')
        eff_new = nc * Poly.const(sn)
        eff_old = old.eff()
        want = Poly.sym('newqtotal') - Poly.sym('self.qtotal')
        n_ob += 1
        rep.instance(rule, {'old_qconj': so, 'new_qconj': sn, 'delta_eff': repr(eff_new - eff_old)})
        if (eff_new - eff_old) == want:
            n_dis += 1
        else:
            rep.violation(rule, m, 'Array.gauge_total_charge', 'gauge:%+d:%+d' % (so, sn),
                          'for old_qconj=%+d, new_qconj=%+d the effective charge of the gauged '
                          'leg changes by [%r] but the total charge by [%r]: blocks no longer '
                          'satisfy the charge rule' % (so, sn, eff_new - eff_old, want), f.lineno)
    return n_ob, n_dis


def _subst(poly, sym, value):
    out = ZERO
    for mono, c in poly.t.items():
        term = Poly({(): c})
        for s in mono:
            term = term * (value if s == sym else Poly.sym(s))
        out = out + term
    return out


def check_charge_c02(prog, rep):
    a1, b1 = check_qtotal_forms(prog, rep)
    a2, b2 = check_gauge(prog, rep)
    return a1 + a2, b1 + b2
