"""Inlining of private helpers ("extract method" undone) for rules that analyse ONE function.

A rule that models `Simulation.save_results` or `ThreadedStorage.load` statement by statement
must not care whether a few of those statements were moved into a new private helper.
`inline_helpers(func, module, prog, known=...)` returns a copy of `func` in which every
statement-level call

        self._h(a, b)          x = self._h(a, b)          return self._h(a, b)
        _h(a, b)  (module-level private function)          Cls._h(a, b) (staticmethod)

of a private helper that the rule does NOT know by name (`known`: the helper names the rule
reasons about itself) is replaced by the helper's body: parameters are bound by assignments,
locals are renamed apart, `return e` becomes an assignment to a result variable (guard-clause
returns are turned into if/else by pushing the rest of the block into both branches).
Helpers with a `return` inside a loop / try / with, generators, recursion and nested functions
are left alone (the call stays, and the rule treats it as it treats any unknown call).

The result is re-parsed so that positions are consistent; line numbers are relative to the
original function (approximate for inlined statements).
"""
import ast

from .normal import _dc

MAX_HELPER_NODES = 400
MAX_RESULT_NODES = 6000


def _has_return(node):
    for x in ast.walk(node):
        if isinstance(x, (ast.FunctionDef, ast.AsyncFunctionDef, ast.Lambda)) and x is not node:
            continue
        if isinstance(x, ast.Return):
            return True
    return False


class _NotInlinable(Exception):
    pass


def _tail(stmts, ret):
    """statement list without `return`, every path ending with `ret = value` (or falling off)"""
    out = []
    for i, s in enumerate(stmts):
        if isinstance(s, ast.Return):
            val = s.value if s.value is not None else ast.Constant(None)
            out.append(ast.Assign(targets=[ast.Name(ret, ast.Store())], value=val, lineno=s.lineno))
            return out
        if isinstance(s, ast.If) and _has_return(s):
            rest = stmts[i + 1:]
            new = ast.If(test=s.test, body=_tail(list(s.body) + [_dc(r) for r in rest], ret),
                         orelse=_tail(list(s.orelse) + [_dc(r) for r in rest], ret))
            if not new.body:
                new.body = [ast.Pass()]
            out.append(new)
            return out
        if _has_return(s):
            raise _NotInlinable('return inside %s' % type(s).__name__)
        out.append(s)
    return out


class _Rename(ast.NodeTransformer):
    def __init__(self, mapping):
        self.mapping = mapping

    def visit_Name(self, node):
        if node.id in self.mapping:
            return ast.copy_location(ast.Name(self.mapping[node.id], node.ctx), node)
        return node

    def visit_arg(self, node):
        return node


def _locals_of(func):
    names = set()
    for x in ast.walk(func):
        if isinstance(x, ast.Name) and isinstance(x.ctx, (ast.Store, ast.Del)):
            names.add(x.id)
        if isinstance(x, ast.ExceptHandler) and x.name:
            names.add(x.name)
    a = func.args
    for p in a.posonlyargs + a.args + a.kwonlyargs:
        names.add(p.arg)
    for p in (a.vararg, a.kwarg):
        if p is not None:
            names.add(p.arg)
    return names


def _resolve(call, func_qual, module, prog):
    """(helper FunctionDef, kind) for a call of a private helper, else None.
    kind: 'method' (self bound), 'plain' (no implicit first argument)"""
    fn = call.func
    cls = func_qual.rsplit('.', 1)[0] if '.' in func_qual else None
    name = None
    recv = None
    if isinstance(fn, ast.Attribute) and isinstance(fn.value, ast.Name):
        name, recv = fn.attr, fn.value.id
    elif isinstance(fn, ast.Name):
        name = fn.id
    if name is None or not name.startswith('_') or name.startswith('__'):
        return None
    if recv is None:
        h = module.functions.get(name)
        return (h, 'plain') if isinstance(h, ast.FunctionDef) else None
    if recv in ('self', 'cls') or recv == cls:
        if cls is None:
            return None
        h = None
        try:
            if prog is None:
                raise LookupError
            ct = prog.classtable()
            ci = ct.get(cls)
            r = ct.resolve_method(ci, name) if ci is not None else None
            if r is not None:
                h = r[1]
        except Exception:
            h = None
        if h is None:
            h = module.functions.get('%s.%s' % (cls, name))
        if not isinstance(h, ast.FunctionDef):
            return None
        decos = {ast.unparse(d) for d in h.decorator_list}
        if 'classmethod' in decos or 'property' in decos:
            return None
        if 'staticmethod' in decos:
            return (h, 'plain')
        if decos:
            return None
        return (h, 'method') if recv == 'self' else None
    return None


def _expand_call(call, helper, kind, tag):
    """list of statements + name of the result variable"""
    if sum(1 for _ in ast.walk(helper)) > MAX_HELPER_NODES:
        raise _NotInlinable('helper too large')
    for x in ast.walk(helper):
        if isinstance(x, (ast.Yield, ast.YieldFrom, ast.Await, ast.Global, ast.Nonlocal)):
            raise _NotInlinable('generator / global')
        if isinstance(x, (ast.FunctionDef, ast.AsyncFunctionDef, ast.Lambda, ast.ClassDef)) and \
                x is not helper:
            raise _NotInlinable('nested scope')
    if any(isinstance(a, ast.Starred) for a in call.args) or any(k.arg is None
                                                                  for k in call.keywords):
        raise _NotInlinable('star args')
    h = _dc(helper)
    a = h.args
    if a.vararg is not None or a.kwarg is not None:
        raise _NotInlinable('variadic helper')
    pos = a.posonlyargs + a.args
    if kind == 'method':
        if not pos:
            raise _NotInlinable('no self')
        selfname = pos[0].arg
        pos = pos[1:]
    else:
        selfname = None
    mapping = {n: '%s__%s' % (n, tag) for n in _locals_of(h)}
    if selfname is not None:
        mapping[selfname] = 'self'
    binds = []
    actual = {}
    if len(call.args) > len(pos):
        raise _NotInlinable('too many args')
    for p, v in zip(pos, call.args):
        actual[p.arg] = v
    for k in call.keywords:
        if k.arg in actual:
            raise _NotInlinable('duplicate arg')
        actual[k.arg] = k.value
    defaults = dict(zip([p.arg for p in pos[len(pos) - len(a.defaults):]], a.defaults)) \
        if a.defaults else {}
    for p, d in zip(a.kwonlyargs, a.kw_defaults):
        if d is not None:
            defaults[p.arg] = d
    for p in pos + a.kwonlyargs:
        if p.arg in actual:
            v = _dc(actual[p.arg])
        elif p.arg in defaults:
            v = _dc(defaults[p.arg])
        else:
            raise _NotInlinable('missing argument %s' % p.arg)
        binds.append(ast.Assign(targets=[ast.Name(mapping[p.arg], ast.Store())], value=v,
                                lineno=call.lineno))
    body = [s for s in h.body]
    if body and isinstance(body[0], ast.Expr) and isinstance(body[0].value, ast.Constant) and \
            isinstance(body[0].value.value, str):
        body = body[1:]
    ret = '_ret__%s' % tag
    body = _tail(body, ret)
    ren = _Rename(mapping)
    body = [ren.visit(s) for s in body]
    pre = [ast.Assign(targets=[ast.Name(ret, ast.Store())], value=ast.Constant(None),
                      lineno=call.lineno)] if not _always_sets(body, ret) else []
    return binds + pre + body, ret


def _always_sets(body, ret):
    if not body:
        return False
    last = body[-1]
    if isinstance(last, ast.Assign) and isinstance(last.targets[0], ast.Name) and \
            last.targets[0].id == ret:
        return True
    if isinstance(last, ast.If):
        return _always_sets(last.body, ret) and _always_sets(last.orelse, ret)
    if isinstance(last, ast.Raise):
        return True
    return False


def inline_helpers(func, qual, module, prog, known=(), depth=2):
    """see module docstring; returns (new FunctionDef, [names of inlined helpers])"""
    f = _dc(func)
    inlined = []
    counter = [0]

    def do_block(stmts, level, stack):
        out = []
        for st in stmts:
            for fld in ('body', 'orelse', 'finalbody'):
                blk = getattr(st, fld, None)
                if isinstance(blk, list) and blk and isinstance(blk[0], ast.stmt):
                    setattr(st, fld, do_block(blk, level, stack))
            if isinstance(st, ast.Try):
                for hd in st.handlers:
                    hd.body = do_block(hd.body, level, stack)
            call = None
            if isinstance(st, ast.Expr) and isinstance(st.value, ast.Call):
                call = st.value
            elif isinstance(st, ast.Assign) and isinstance(st.value, ast.Call):
                call = st.value
            elif isinstance(st, ast.Return) and isinstance(st.value, ast.Call):
                call = st.value
            if call is None:
                out.append(st)
                continue
            r = _resolve(call, qual, module, prog)
            if r is None or r[0].name in known or r[0].name in stack or r[0] is func or \
                    level >= depth:
                out.append(st)
                continue
            helper, kind = r
            counter[0] += 1
            tag = '%s%d' % (helper.name.strip('_'), counter[0])
            try:
                body, ret = _expand_call(call, helper, kind, tag)
            except _NotInlinable:
                out.append(st)
                continue
            hq = qual.rsplit('.', 1)[0] + '.' + helper.name if '.' in qual and kind == 'method' \
                else helper.name
            body = do_block(body, level + 1, stack + (helper.name, ))
            inlined.append(helper.name)
            out.extend(body)
            if isinstance(st, ast.Expr):
                pass
            elif isinstance(st, ast.Assign):
                out.append(ast.Assign(targets=st.targets, value=ast.Name(ret, ast.Load()),
                                      lineno=st.lineno))
            else:
                out.append(ast.Return(value=ast.Name(ret, ast.Load()), lineno=st.lineno))
        return out

    f.body = do_block(f.body, 0, ())
    if not inlined:
        return func, []
    ast.fix_missing_locations(f)
    if sum(1 for _ in ast.walk(f)) > MAX_RESULT_NODES:
        return func, []
    src = ast.unparse(f)
    new = ast.parse(src).body[0]
    ast.increment_lineno(new, func.lineno - 1)
    from .core import set_parents
    set_parents(new)
    new._parent = getattr(func, '_parent', None)
    new._inlined_helpers = inlined
    return new, inlined


def make_effective(module):
    """The module with every *new* private helper (one not listed in sa/known_private.py) inlined
    into its callers; a new helper all of whose call sites could be inlined is removed (its
    statements are judged where they run). The tree is rewritten, so the function table, the
    class bodies and the class table all see the same effective program. On the tree the rules
    were written against this is the identity. Returns (module or new tree, inlined helper names)."""
    from .known_private import KNOWN_PRIVATE
    from .normal import inline_temps
    known = set(KNOWN_PRIVATE.get(module.relpath, ()))
    priv = {f.name for f in module.functions.values()
            if f.name.startswith('_') and not f.name.startswith('__')}
    new = priv - known
    if not new:
        return None, []
    changed = {}
    for q, f in list(module.functions.items()):
        if q.count('.') > 1 or '#' in q:
            continue
        g, inl = inline_helpers(f, q, module, None, known=priv - new)
        if inl:
            g = inline_temps(g, names_only=True)
            g._inlined_helpers = inl
            changed[q] = (f, g)
    if not changed:
        return None, []
    # which new helpers are still called after inlining?
    still = set()
    for q, f in module.functions.items():
        body = changed[q][1] if q in changed else f
        for c in ast.walk(body):
            if isinstance(c, ast.Call):
                nm = c.func.attr if isinstance(c.func, ast.Attribute) else (
                    c.func.id if isinstance(c.func, ast.Name) else None)
                if nm in new and f.name != nm:
                    still.add(nm)
    for q, (f, g) in changed.items():
        par = getattr(f, '_parent', None)
        blk = getattr(par, 'body', None)
        if isinstance(blk, list):
            for i, s_ in enumerate(blk):
                if s_ is f:
                    blk[i] = g
    removed = []
    for q, f in list(module.functions.items()):
        if f.name in new and f.name not in still and q.count('.') <= 1:
            par = getattr(f, '_parent', None)
            blk = getattr(par, 'body', None)
            if isinstance(blk, list) and any(s_ is f for s_ in blk):
                blk[:] = [s_ for s_ in blk if s_ is not f] or [ast.Pass()]
                removed.append(f.name)
    return module.tree, sorted(set(removed) | {h for _, (_, g) in changed.items()
                                               for h in g._inlined_helpers})


def effective_functions(prog, module):
    """qualname -> FunctionDef to analyse: the module's functions with every *new* private helper
    (one not in sa/known_private.py) inlined into its callers; a new helper all of whose call
    sites could be inlined is not analysed as a unit of its own (its statements are judged where
    they run). On the tree the rules were written against this is the identity."""
    from .known_private import KNOWN_PRIVATE
    from .normal import inline_temps
    cache = getattr(module, '_effective', None)
    if cache is not None:
        return cache
    known = set(KNOWN_PRIVATE.get(module.relpath, ()))
    priv = {f.name for f in module.functions.values()
            if f.name.startswith('_') and not f.name.startswith('__')}
    new = priv - known
    if not new:
        module._effective = module.functions
        return module.functions
    out = {}
    for q, f in module.functions.items():
        g, inl = inline_helpers(f, q, module, prog, known=priv - new)
        out[q] = inline_temps(g, names_only=True) if inl else f
        if inl:
            out[q]._inlined_helpers = inl
    # new helpers still called somewhere (call not inlinable) stay units of their own
    still = set()
    for q, f in out.items():
        for c in ast.walk(f):
            if isinstance(c, ast.Call):
                nm = c.func.attr if isinstance(c.func, ast.Attribute) else (
                    c.func.id if isinstance(c.func, ast.Name) else None)
                if nm in new and f.name != nm:
                    still.add(nm)
    res = {q: f for q, f in out.items() if f.name not in new or f.name in still}
    module._effective = res
    module._new_helpers = sorted(new)
    return res
