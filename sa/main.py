"""CLI: check <ID> [--tier quick|thorough] [--replay PATH]."""
import importlib
import json
import os
import sys
import traceback

sys.path.insert(0, os.path.dirname(os.path.dirname(os.path.abspath(__file__))))
sys.dont_write_bytecode = True

from sa.core import AnalysisError, Program, Report  # noqa: E402


def run_property(pid, tier, replay=None):
    try:
        mod = importlib.import_module('sa.rules.%s' % pid.lower())
    except ModuleNotFoundError:
        print('ANALYSIS-ERROR property=%s reason=no rule module (not implemented)' % pid)
        return 2
    try:
        prog = Program()
        rep = Report(pid, tier)
        if replay:
            with open(replay) as f:
                rep.extra['replay_of'] = json.load(f)
        rc = mod.run(prog, rep, tier)
        if tier == 'thorough' and not replay and not os.environ.get('TENPY_VERIF_NO_SENSITIVITY'):
            _add_sensitivity(pid)
        return rc
    except AnalysisError as e:
        print('ANALYSIS-ERROR property=%s reason=%s' % (pid, e))
        return 2
    except Exception as e:  # analyser bug: never dress up as violation
        traceback.print_exc()
        print('ANALYSIS-ERROR property=%s reason=analyser raised %s: %s' %
              (pid, type(e).__name__, e))
        return 2


def _add_sensitivity(pid):
    """thorough tier: run the mutant corpus of this property on scratch copies of the current
    tree and record the outcome as evidence (never changes the exit code)"""
    import concurrent.futures
    from sa import selftest
    from sa.core import VERIF
    from sa.mutants import MUTANTS
    muts = [m for m in MUTANTS if m['property'] == pid]
    out = os.environ.get('TENPY_VERIF_OUT') or os.path.join(VERIF, 'evidence')
    path = os.path.join(out, '%s.json' % pid)
    try:
        os.environ['TENPY_VERIF_NO_SENSITIVITY'] = '1'
        with concurrent.futures.ThreadPoolExecutor(max_workers=16) as ex:
            res = list(ex.map(selftest.run_mutant, muts))
        with open(path) as f:
            ev = json.load(f)
        ev['coverage']['sensitivity'] = {
            'mutants': len(res),
            'as_expected': sum(1 for r in res if r['result'] == 'ok'),
            'skipped_anchor_moved': sum(1 for r in res if r['result'] == 'skipped'),
            'not_as_expected': [r['name'] for r in res if r['result'] in ('MISSED',
                                                                            'FALSE-ALARM')],
            'note': 'single-edit mutants (and behaviour-preserving twins) of the current tree on '
                    'scratch copies; evidence only',
        }
        with open(path, 'w') as f:
            json.dump(ev, f, indent=1, default=str)
        print('%s: sensitivity %d/%d mutants as expected' % (
            pid, ev['coverage']['sensitivity']['as_expected'], len(res)))
    except Exception as e:  # evidence only: never fail the check
        print('NOTE: sensitivity run skipped (%s: %s)' % (type(e).__name__, e))
    finally:
        os.environ.pop('TENPY_VERIF_NO_SENSITIVITY', None)


def main(argv):
    tier = os.environ.get('VERIF_TIER', 'quick')
    replay = None
    ids = []
    i = 0
    while i < len(argv):
        a = argv[i]
        if a == '--tier':
            tier = argv[i + 1]
            i += 2
        elif a == '--replay':
            replay = argv[i + 1]
            i += 2
        elif a == '--all':
            d = os.path.join(os.path.dirname(os.path.abspath(__file__)), 'rules')
            ids = sorted(f[:-3].upper() for f in os.listdir(d)
                         if f.startswith('c') and f.endswith('.py') and f[1:-3].isdigit())
            i += 1
        elif a == '--selftest':
            from sa import selftest
            return selftest.main(argv[i + 1:])
        else:
            ids.append(a.upper())
            i += 1
    if tier not in ('quick', 'thorough'):
        tier = 'quick'
    if not ids:
        print(__doc__)
        return 2
    rc = 0
    for pid in ids:
        r = run_property(pid, tier, replay)
        rc = max(rc, r)
    return rc


if __name__ == '__main__':
    sys.exit(main(sys.argv[1:]))
