"""CLI: check <ID> [--tier quick|thorough] [--replay PATH]."""
import importlib
import json
import os
import sys
import traceback

sys.path.insert(0, os.path.dirname(os.path.dirname(os.path.abspath(__file__))))
sys.dont_write_bytecode = True

from sa.core import AnalysisError, Program, Report  # noqa: E402


def run_property(pid, tier, replay=None):
    try:
        mod = importlib.import_module('sa.rules.%s' % pid.lower())
    except ModuleNotFoundError:
        print('ANALYSIS-ERROR property=%s reason=no rule module (not implemented)' % pid)
        return 2
    try:
        prog = Program()
        rep = Report(pid, tier)
        if replay:
            with open(replay) as f:
                rep.extra['replay_of'] = json.load(f)
        return mod.run(prog, rep, tier)
    except AnalysisError as e:
        print('ANALYSIS-ERROR property=%s reason=%s' % (pid, e))
        return 2
    except Exception as e:  # analyser bug: never dress up as violation
        traceback.print_exc()
        print('ANALYSIS-ERROR property=%s reason=analyser raised %s: %s' %
              (pid, type(e).__name__, e))
        return 2


def main(argv):
    tier = os.environ.get('VERIF_TIER', 'quick')
    replay = None
    ids = []
    i = 0
    while i < len(argv):
        a = argv[i]
        if a == '--tier':
            tier = argv[i + 1]
            i += 2
        elif a == '--replay':
            replay = argv[i + 1]
            i += 2
        elif a == '--all':
            d = os.path.join(os.path.dirname(os.path.abspath(__file__)), 'rules')
            ids = sorted(f[:-3].upper() for f in os.listdir(d)
                         if f.startswith('c') and f.endswith('.py') and f[1:-3].isdigit())
            i += 1
        elif a == '--selftest':
            from sa import selftest
            return selftest.main(argv[i + 1:])
        else:
            ids.append(a.upper())
            i += 1
    if tier not in ('quick', 'thorough'):
        tier = 'quick'
    if not ids:
        print(__doc__)
        return 2
    rc = 0
    for pid in ids:
        r = run_property(pid, tier, replay)
        rc = max(rc, r)
    return rc


if __name__ == '__main__':
    sys.exit(main(sys.argv[1:]))
