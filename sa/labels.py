"""Typestate of leg-label sets: for a local tensor whose complete set of labels is established by
a literal `transpose([...])` / `itranspose([...])` (or derived from such tensors by operations with
a known effect on labels), every later use of a literal label on it must name a label the tensor
has. Must-information only: whatever is not known exactly is not checked.

State: name -> frozenset of labels. Statements are interpreted block by block; a nested block starts
from a copy of the state and every name it (re)binds or updates in place is forgotten afterwards."""
import ast

from .core import call_name, dotted, key_text, unparse

SAME = {'copy', 'scale_axis', 'iscale_axis', 'astype', 'iproject', 'unary_blockwise',
        'iunary_blockwise', 'iscale_prefactor', 'isort_qdata', 'sort_legcharge', 'gauge_total_charge',
        'make_contiguous'}


def _lits(e):
    """list of literal strings of a label / list-of-labels expression, or None"""
    if isinstance(e, ast.Constant) and isinstance(e.value, str):
        return [e.value]
    if isinstance(e, (ast.List, ast.Tuple)) and all(
            isinstance(x, ast.Constant) and isinstance(x.value, str) for x in e.elts):
        return [x.value for x in e.elts]
    return None


def _conj_label(l):
    # mirrors Array._conj_leg_label for plain and piped labels
    if l.startswith('(') and l.endswith(')'):
        inner = l[1:-1]
        parts, depth, cur = [], 0, ''
        for ch in inner:
            if ch == '(':
                depth += 1
            elif ch == ')':
                depth -= 1
            if ch == '.' and depth == 0:
                parts.append(cur)
                cur = ''
            else:
                cur += ch
        parts.append(cur)
        return '(' + '.'.join(_conj_label(p) for p in parts) + ')'
    return l[:-1] if l.endswith('*') else l + '*'


class LabelState:
    def __init__(self, func, report):
        self.func = func
        self.report = report      # callable(node, name, label, known, what)
        self.checked = 0

    # ---- value of an expression: frozenset or None
    def value(self, e, st):
        if isinstance(e, ast.Name):
            return st.get(e.id)
        if isinstance(e, ast.BinOp) and isinstance(e.op, (ast.Mult, ast.Div)):
            a, b = self.value(e.left, st), self.value(e.right, st)
            return a if a is not None and b is None else (b if a is None else None)
        if isinstance(e, ast.Call) and isinstance(e.func, ast.Attribute):
            m = e.func.attr
            recv = self.value(e.func.value, st)
            if m in ('transpose', 'itranspose') and e.args:
                ls = _lits(e.args[0])
                if ls is not None:
                    if recv is not None:
                        self.use(e, e.func.value, ls, recv, m, exact=True)
                    return frozenset(ls)
                return recv
            if recv is None:
                return None
            if m in SAME:
                self.check_call(e, recv)
                return recv
            if m in ('conj', 'iconj', 'complex_conj'):
                return frozenset(_conj_label(l) for l in recv) if m != 'complex_conj' else recv
            if m in ('replace_label', 'ireplace_label') and len(e.args) == 2:
                a, b = _lits(e.args[0]), _lits(e.args[1])
                if a and b and len(a) == 1 and len(b) == 1:
                    self.use(e, e.func.value, a, recv, m)
                    return frozenset((recv - {a[0]}) | {b[0]}) if a[0] in recv else None
                return None
            if m in ('replace_labels', 'ireplace_labels') and len(e.args) == 2:
                a, b = _lits(e.args[0]), _lits(e.args[1])
                if a and b and len(a) == len(b):
                    self.use(e, e.func.value, a, recv, m)
                    if all(x in recv for x in a):
                        return frozenset((recv - set(a)) | set(b))
                return None
            return None
        if isinstance(e, ast.Call) and (dotted(e.func) or '').endswith('tensordot') and \
                len(e.args) >= 2:
            a, b = self.value(e.args[0], st), self.value(e.args[1], st)
            ax = e.args[2] if len(e.args) > 2 else None
            for k in e.keywords:
                if k.arg == 'axes':
                    ax = k.value
            if ax is None or not isinstance(ax, (ast.List, ast.Tuple)) or len(ax.elts) != 2:
                return None
            la, lb = _lits(ax.elts[0]), _lits(ax.elts[1])
            if a is not None and la is not None:
                self.use(e, e.args[0], la, a, 'tensordot')
            if b is not None and lb is not None:
                self.use(e, e.args[1], lb, b, 'tensordot')
            if a is not None and b is not None and la is not None and lb is not None and \
                    all(x in a for x in la) and all(x in b for x in lb):
                ra, rb = a - set(la), b - set(lb)
                if not (ra & rb):
                    return frozenset(ra | rb)
            return None
        return None

    def use(self, node, recv_expr, labels, known, what, exact=False):
        self.checked += 1
        name = unparse(recv_expr)
        if exact:
            if set(labels) != set(known) or len(labels) != len(set(labels)):
                self.report(node, name, sorted(set(labels) ^ set(known)), known, what)
            return
        for l in labels:
            if l not in known:
                self.report(node, name, [l], known, what)

    def check_call(self, e, recv):
        """label arguments of methods that keep the label set"""
        m = e.func.attr
        lab = None
        if m in ('iproject', 'scale_axis', 'iscale_axis') and len(e.args) >= 2:
            lab = _lits(e.args[1])
        for k in e.keywords:
            if k.arg in ('axes', 'axis') and m in ('iproject', 'scale_axis', 'iscale_axis'):
                lab = _lits(k.value)
        if lab:
            self.use(e, e.func.value, lab, recv, m)

    def scan_uses(self, stmt, st):
        """label uses on known tensors that are not part of a value we track"""
        for c in ast.walk(stmt):
            if not (isinstance(c, ast.Call) and isinstance(c.func, ast.Attribute)):
                continue
            recv = c.func.value
            if not isinstance(recv, ast.Name) or st.get(recv.id) is None:
                continue
            known = st[recv.id]
            m = c.func.attr
            if m in ('get_leg', 'get_leg_index') and c.args:
                ls = _lits(c.args[0])
                if ls:
                    self.use(c, recv, ls, known, m)
            elif m in ('take_slice', ) and len(c.args) >= 2:
                ls = _lits(c.args[1])
                if ls:
                    self.use(c, recv, ls, known, m)

    def block(self, stmts, st):
        for s in stmts:
            if isinstance(s, (ast.FunctionDef, ast.AsyncFunctionDef, ast.ClassDef)):
                continue
            if isinstance(s, (ast.If, ast.For, ast.While, ast.With, ast.Try)):
                hdr = s.test if isinstance(s, (ast.If, ast.While)) else (
                    s.iter if isinstance(s, ast.For) else None)
                if hdr is not None:
                    self.scan_uses(ast.Expr(value=hdr), st)
                touched = set()
                for x in ast.walk(s):
                    if isinstance(x, ast.Name) and isinstance(x.ctx, (ast.Store, ast.Del)):
                        touched.add(x.id)
                    if isinstance(x, ast.Call) and isinstance(x.func, ast.Attribute) and \
                            isinstance(x.func.value, ast.Name) and x.func.attr.startswith('i'):
                        touched.add(x.func.value.id)
                if isinstance(s, (ast.For, ast.While)):
                    # a loop body may run after its own updates: start without the touched names
                    inner = {k: v for k, v in st.items() if k not in touched}
                else:
                    inner = dict(st)
                for fld in ('body', 'orelse', 'finalbody'):
                    blk = getattr(s, fld, None)
                    if blk:
                        self.block(blk, dict(inner))
                if isinstance(s, ast.Try):
                    for h in s.handlers:
                        self.block(h.body, dict(inner))
                for t in touched:
                    st.pop(t, None)
                continue
            self.scan_uses(s, st)
            if isinstance(s, ast.Assign) and len(s.targets) == 1 and isinstance(
                    s.targets[0], ast.Name):
                v = self.value(s.value, st)
                if v is None:
                    st.pop(s.targets[0].id, None)
                else:
                    st[s.targets[0].id] = v
                continue
            if isinstance(s, ast.Expr) and isinstance(s.value, ast.Call) and isinstance(
                    s.value.func, ast.Attribute) and isinstance(s.value.func.value, ast.Name):
                nm = s.value.func.value.id
                m = s.value.func.attr
                if m.startswith('i') and m[1:2] != 's' or m in ('iscale_axis', 'iscale_prefactor',
                                                                'isort_qdata'):
                    v = self.value(s.value, st)      # in-place: the receiver takes the new labels
                    if v is None:
                        st.pop(nm, None)
                    else:
                        st[nm] = v
                    continue
            # any other statement: names it binds are forgotten
            for x in ast.walk(s):
                if isinstance(x, ast.Name) and isinstance(x.ctx, (ast.Store, ast.Del)):
                    st.pop(x.id, None)
            if isinstance(s, (ast.Assign, ast.AugAssign, ast.Expr)):
                self.value(getattr(s, 'value', None), st) if getattr(s, 'value', None) is not None \
                    else None


def check_labels(prog, rep, rels, rule='LABEL-known'):
    n_funcs = 0
    n_uses = 0
    for rel in rels:
        m = prog.module(rel)
        rep.unit(m)
        for q, f in m.functions.items():
            hits = []

            def report(node, name, labels, known, what, hits=hits):
                hits.append((node, name, labels, known, what))
            ls = LabelState(f, report)
            ls.block(f.body, {})
            if ls.checked:
                n_funcs += 1
                n_uses += ls.checked
            seen = set()
            for node, name, labels, known, what in hits:
                k = (name, tuple(labels), what)
                if k in seen:
                    continue
                seen.add(k)
                rep.violation(rule, m, q, 'unknown-label:%s:%s' % (name, ','.join(labels)),
                              '`%s` uses the label(s) %s on `%s`, whose labels at this point are '
                              'exactly %s (established by a literal transposition / the '
                              'contractions since): KeyError "label not found" when this line '
                              'runs' % (key_text(node)[:70], labels, name, sorted(known)),
                              node.lineno)
    rep.instance(rule, {'functions_with_known_labels': n_funcs, 'label_uses_checked': n_uses,
                        'modules': list(rels)})
    return n_uses
