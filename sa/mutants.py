"""Mutant corpus for the sensitivity self-test (single text edits on a scratch copy of the
current tree). `expect='silent'` marks behaviour-preserving twins that must NOT raise an alarm."""

MUTANTS = []


def M(prop, name, file, old, new, rule=None, expect='fire'):
    MUTANTS.append(dict(property=prop, name=name, file=file, old=old, new=new, rule=rule,
                        expect=expect))


TH = 'tenpy/tools/thread.py'
CA = 'tenpy/tools/cache.py'
EV = 'tenpy/tools/events.py'
ALG = 'tenpy/algorithms/algorithm.py'
TEBD = 'tenpy/algorithms/tebd.py'
TDVP = 'tenpy/algorithms/tdvp.py'
EXPM = 'tenpy/algorithms/mpo_evolution.py'
HIO = 'tenpy/tools/hdf5_io.py'
CH = 'tenpy/linalg/charges.py'
NPC = 'tenpy/linalg/np_conserved.py'
LAT = 'tenpy/models/lattice.py'
SIM = 'tenpy/simulations/simulation.py'
TR = 'tenpy/linalg/truncation.py'
MPS = 'tenpy/networks/mps.py'
MPO = 'tenpy/networks/mpo.py'
MODEL = 'tenpy/models/model.py'
SITE = 'tenpy/networks/site.py'
KRY = 'tenpy/linalg/krylov_based.py'
SPARSE = 'tenpy/linalg/sparse.py'
MC = 'tenpy/algorithms/mps_common.py'
TERMS = 'tenpy/networks/terms.py'

# ---------------------------------------------------------------- C20
M('C20', 'disconnect compares with literal 0 (original defect)', EV,
  'if listener.listener_id == listener_id:', 'if listener.listener_id == 0:',
  'EV-disconnect-guard')
M('C20', 'delitem leaves short-term value (original defect)', CA,
  '            self.short_term_cache.pop(key, None)\n', '', 'DC-coupled-delete')
M('C20', 'task_done not in finally', TH,
  """                finally:
                    self.tasks.task_done()""",
  """                finally:
                    pass""", 'SYNC-get-task_done')
M('C20', 'blocking get without timeout', TH, 'task = self.tasks.get(timeout=1.0)',
  'task = self.tasks.get()', 'SYNC-timeout')
M('C20', 'worker exception does not set exit', TH,
  """        except Exception:
            self.exit.set()
            logger.exception""", """        except Exception:
            logger.exception""", 'SYNC-fail-path')
M('C20', '__exit__ joins before exit.set', TH,
  """            self.exit.set()
            self.worker_thread.join()""", """            self.worker_thread.join()
            self.exit.set()""", 'SYNC-exit-order')
M('C20', 'join_tasks no re-check', TH,
  """        self._test_worker_alive()
        self.tasks.join()
        self._test_worker_alive()""", """        self._test_worker_alive()
        self.tasks.join()""", 'SYNC-alive-check')
M('C20', 'preload forgets to queue the load', CA,
  """        self._waiting_for_load.add(key)
        self.worker.put_task(self.disk_storage.load, key, return_dict=self._loaded, return_key=key)

    def save""", """        self._waiting_for_load.add(key)

    def save""", 'TS-wait-load-pair')
M('C20', 'threaded delete bypasses the worker', CA,
  'self.worker.put_task(self.disk_storage.delete, key)', 'self.disk_storage.delete(key)',
  'TS-fifo-only')
M('C20', 'save with pending load does not join', CA,
  """            self.worker.join_tasks()
            assert key in self._loaded
            self._loaded[key] = value""", """            self._loaded[key] = value""",
  'TS-save-pending-load')
M('C20', 'priority sorted ascending', EV, 'key=lambda listener: -listener.priority',
  'key=lambda listener: listener.priority', 'EV-priority-order')
M('C20', 'emit skips _prepare_emit', EV,
  """        self._prepare_emit()
        results = []""", """        results = []""", 'EV-emit-sorted')
M('C20', 'subcache shares storage', CA,
  'return DictCache(self.long_term_storage.subcontainer(name))',
  'return DictCache(self.long_term_storage)', 'DC-subcache')
M('C20', 'twin: rename loop variable in disconnect', EV,
  """        for i, listener in enumerate(self.listeners):
            if listener.listener_id == listener_id:
                del self.listeners[i]""", """        for idx, lst in enumerate(self.listeners):
            if lst.listener_id == listener_id:
                del self.listeners[idx]""", None, 'silent')
M('C20', 'twin: delitem uses del with membership test', CA,
  '            self.short_term_cache.pop(key, None)\n',
  """            if key in self.short_term_cache:
                del self.short_term_cache[key]
""", None, 'silent')

# ---------------------------------------------------------------- C14
M('C14', 'two-site TDVP backward step on the wrong site when moving right', TDVP,
  "            self.one_site_update(i0 + 1, 0.5j * self.dt)", "            self.one_site_update(i0, 0.5j * self.dt)",
  'TDVP-half-steps')
M('C14', 'two-site TDVP backward step also at the end of the sweep', TDVP,
  "        elif self.move_right is False:\n            self.one_site_update(i0, 0.5j * self.dt)",
  "        else:\n            self.one_site_update(i0, 0.5j * self.dt)", 'TDVP-half-steps')
M('C14', 'run_evolution adds trunc_err again (original defect)', ALG,
  '        self.evolve(N_steps, dt)  # updates self.evolved_time and self.trunc_err\n',
  '        trunc_err = self.evolve(N_steps, dt)\n        self.trunc_err = self.trunc_err + trunc_err\n',
  'ACCOUNT-trunc_err')
M('C14', 'TDVP evolve does not accumulate', TDVP,
  '        self.trunc_err = self.trunc_err + trunc_err  # not += : make a copy!\n', '',
  'ACCOUNT-trunc_err')
M('C14', 'order 2 schedule misses final half step', TEBD,
  'return [a, b] + [a2, b] * (N_steps - 1) + [a]', 'return [a, b] + [a2, b] * (N_steps - 1)',
  'TROTTER-sum')
M('C14', 'order 4 repeats N_steps times', TEBD,
  'steps = steps + [a2, b, a2, b, c, d, c, b, a2, b] * (N_steps - 1)',
  'steps = steps + [a2, b, a2, b, c, d, c, b, a2, b] * N_steps', 'TROTTER-sum')
M('C14', '4_opt coefficient table changed', TEBD,
  'return [a1, b1, a2, b2, 0.5 - a1 - a2, 1.0 - 2 * (b1 + b2), 2 * a1]',
  'return [a1, b1, a2, b2, 0.5 - a1 - a2, 1.0 - 2 * (b1 - b2), 2 * a1]', 'TROTTER-sum')
M('C14', 'evolved_time advanced inside loop', ALG,
  """        self.evolved_time = self.evolved_time + N_steps * dt
        self.trunc_err""", """        for _ in range(2):
            self.evolved_time = self.evolved_time + N_steps * dt
        self.trunc_err""", 'ACCOUNT-evolved_time')
M('C14', 'TEBD time uses delta_t of last call wrongly (N_steps dropped)', TEBD,
  "        self.evolved_time = self.evolved_time + N_steps * self._U_param['tau']\n        self.trunc_err = self.trunc_err + trunc_err  # not += : make a copy!\n        # (this is done to avoid problems of users storing self.trunc_err after each `evolve`)",
  "        self.evolved_time = self.evolved_time + self._U_param['tau']\n        self.trunc_err = self.trunc_err + trunc_err  # not += : make a copy!\n        # (this is done to avoid problems of users storing self.trunc_err after each `evolve`)",
  'ACCOUNT-evolved_time')
M('C14', 'imaginary-time gate exponent sign', TEBD, 'H2 = (-dt) * H2', 'H2 = dt * H2',
  'TEBD-tau-prefactor')
M('C14', 'ExpMPO order-2 coefficients', EXPM, 'U2 = H_MPO.make_U(-(1.0 - 1j) / 2.0 * dt * 1j',
  'U2 = H_MPO.make_U(-(1.0 + 1j) / 2.0 * dt * 1j', 'EXPMPO-time-sum')
M('C14', 'TDVP backward step wrong sign', TDVP,
  'self.one_site_update(i0 + 1, 0.5j * self.dt)', 'self.one_site_update(i0 + 1, -0.5j * self.dt)',
  'TDVP-half-steps')
M('C14', 'TDVP turning point off by one', TDVP, """        if i0 == L - 2:
            dt = 2.0 * dt""", """        if i0 == L - 1:
            dt = 2.0 * dt""", 'TDVP-turning-point')
M('C14', 'update_bond error dropped in evolve_step', TEBD,
  'trunc_err += self.update_bond(i_bond, Us[i_bond])', 'self.update_bond(i_bond, Us[i_bond])',
  'ERRFLOW')
M('C14', 'twin: += instead of explicit sum for time', ALG,
  '        self.evolved_time = self.evolved_time + N_steps * dt\n        self.trunc_err',
  '        self.evolved_time = N_steps * dt + self.evolved_time\n        self.trunc_err', None,
  'silent')

# ---------------------------------------------------------------- C18
M('C18', 'backup deleted before the new file is written', SIM,
  """        self._save_to_file(results, output_filename)

        if backup_filename is not None and backup_filename.exists():
            # successfully saved, so we can safely remove the old backup
            backup_filename.unlink()
""",
  """        if backup_filename is not None and backup_filename.exists():
            backup_filename.unlink()
        self._save_to_file(results, output_filename)
""", 'CRASH-typestate')
M('C18', 'old output unlinked instead of renamed', SIM,
  '                output_filename.rename(backup_filename)', '                output_filename.unlink()',
  'CRASH-typestate')
M('C18', 'resume_run measures initially', SIM,
  """        self._connect_measurements()
        self.options.touch('measure_initial')

        self.resume_run_algorithm()""", """        self.init_measurements()

        self.resume_run_algorithm()""", 'RESUME-measure-once')
M('C18', 'checkpoint not connected', SIM,
  '        self.engine.checkpoint.connect(self.save_at_checkpoint, priority=-100)\n', '',
  'RESUME-checkpoint-connected')
M('C18', 'measurements stay arrays on resume', SIM,
  "sim.results['measurements'] = {k: list(v) for k, v in sim.results['measurements'].items()}",
  "pass", 'RESUME-from-checkpoint')
M('C18', 'evolved_time not in resume data', ALG, "        data['evolved_time'] = self.evolved_time\n",
  '', 'RESUME-keys')
M('C18', 'SIGINT raises before saving', SIM,
  """            self.save_results()
            if self.received_signal_sigint:
                raise KeyboardInterrupt""", """            if self.received_signal_sigint:
                raise KeyboardInterrupt""", 'RESUME-sigint')

# ---------------------------------------------------------------- C17
M('C17', 'LegPipe no longer writes sorted (original defect)', CH,
  "        h5gr.attrs['sorted'] = self.sorted  # needed by from_hdf5 for any LegCharge format\n", '',
  'HDF5-keys')
M('C17', 'dipolar setstate two args (original defect)', CH,
  'obj.__setstate__(((qnumber, qmod, names), (charge_idcs, dipole_idcs, dipole_dims)))',
  'obj.__setstate__((qnumber, qmod, names), (charge_idcs, dipole_idcs, dipole_dims))', 'ARITY')
M('C17', 'save_reduce saves state as listitems (original defect)', HIO,
  "self.save(listitems, subpath + 'listitems')", "self.save(state, subpath + 'listitems')",
  'HDF5-reduce')
M('C17', 'MPS saves singular values under tensors key', MPS,
  "        hdf5_saver.save(self._B, subpath + 'tensors')\n        hdf5_saver.save(self._S, subpath + 'singular_values')",
  "        hdf5_saver.save(self._S, subpath + 'tensors')\n        hdf5_saver.save(self._B, subpath + 'singular_values')",
  'HDF5-field')
M('C17', 'Array loader forgets block_inds_sorted key rename', NPC,
  "h5gr.attrs['block_inds_sorted'] = self._qdata_sorted", "h5gr.attrs['blocks_sorted'] = self._qdata_sorted",
  'HDF5-keys')
M('C17', 'LegCharge getstate order swapped', CH,
  'self.qconj,\n            self.sorted,\n            self.bunched,',
  'self.qconj,\n            self.bunched,\n            self.sorted,', 'HDF5-state-tuple')
M('C17', 'load_list memorizes late', HIO, """        obj = []
        self.memorize_load(h5gr, obj)
        length = self.get_attr(h5gr, ATTR_LEN)
        for i in range(length):
            sub_obj = self.load(subpath + str(i))
            obj.append(sub_obj)
        return obj

    dispatch_load[REPR_LIST]""", """        obj = []
        length = self.get_attr(h5gr, ATTR_LEN)
        for i in range(length):
            sub_obj = self.load(subpath + str(i))
            obj.append(sub_obj)
        self.memorize_load(h5gr, obj)
        return obj

    dispatch_load[REPR_LIST]""", 'HDF5-memo-load')
M('C17', 'range loader dropped from dispatch', HIO,
  '    dispatch_load[REPR_RANGE] = (load_range, REPR_RANGE)\n', '', 'HDF5-dispatch')
M('C17', 'saver forgets memo for datasets', HIO, """        h5gr.attrs[ATTR_TYPE] = type_repr
        self.memorize_save(h5gr, obj)
        return h5gr

    for _t, _type_repr in TYPES_FOR_HDF5_DATASETS:
        dispatch_save""", """        h5gr.attrs[ATTR_TYPE] = type_repr
        return h5gr

    for _t, _type_repr in TYPES_FOR_HDF5_DATASETS:
        dispatch_save""", 'HDF5-memo-save')

# ---------------------------------------------------------------- C15
M('C15', 'accumulated mask passed second', TR, "good = _combine_constraints(good, good2, 'svd_min')",
  "good = _combine_constraints(good2, good, 'svd_min')", 'TRUNC-combine')
M('C15', '_combine_constraints falls back to the new mask', TR,
  """    warnings.warn("truncation: can't satisfy constraint for " + warn, stacklevel=3)
    return good1""", """    warnings.warn("truncation: can't satisfy constraint for " + warn, stacklevel=3)
    return good2""", 'TRUNC-fallback')
M('C15', 'chi_min off by one', TR, 'good2[-chi_min + 1 :] = False', 'good2[-chi_min:] = False',
  'TRUNC-mask-shape')
M('C15', 'error computed from kept values', TR,
  'TruncationError.from_S(S[np.logical_not(mask)])', 'TruncationError.from_S(S[mask])',
  'TRUNC-report')
M('C15', 'VH projected on wrong axis', TR, 'VH.iproject(piv, axes=0)', 'VH.iproject(piv, axes=1)',
  'TRUNC-svd-theta')
M('C15', 'renormalization not updated', TR, '    renormalization *= new_norm\n', '',
  'TRUNC-svd-theta')
M('C15', 'from_S uses abs instead of squares', TR, 'eps = np.sum(np.square(S_discarded))',
  'eps = np.sum(np.abs(S_discarded))', 'TRUNC-error-def')

# ---------------------------------------------------------------- C02
M('C02', 'itranspose keeps sorted flag', NPC,
  """        self._qdata = np.array(self._qdata[:, axes_arr], order='C')
        self._qdata_sorted = False""",
  """        self._qdata = np.array(self._qdata[:, axes_arr], order='C')""", 'FLAG-Q-reset')
M('C02', 'concatenate claims sorted', NPC, """    res._qdata = np.concatenate(res_qdata, axis=0)
    res._qdata_sorted = False""", """    res._qdata = np.concatenate(res_qdata, axis=0)
    res._qdata_sorted = True""", 'FLAG-Q-true-claim')
M('C02', 'get_block insert keeps flag', NPC,
  """                self._qdata = np.append(self._qdata, [qindices], axis=0)
                self._qdata_sorted = False""",
  """                self._qdata = np.append(self._qdata, [qindices], axis=0)""", 'FLAG-Q-reset')
M('C02', 'qr shifted inner leg keeps sorted', NPC,
  """        inner_leg.charges = a.chinfo.make_valid(inner_leg.charges - inner_leg.qconj * qtotal_Q)
        inner_leg.sorted = False""",
  """        inner_leg.charges = a.chinfo.make_valid(inner_leg.charges - inner_leg.qconj * qtotal_Q)""",
  'FLAG-L-reset')
M('C02', 'flip_charges_qconj keeps sorted', CH,
  """        res.charges = self.chinfo.make_valid(-self.charges)
        res.sorted = False""", """        res.charges = self.chinfo.make_valid(-self.charges)""",
  'FLAG-L-reset')
M('C02', 'outer_conj keeps sorted (original defect)', CH,
  "        res.sorted = False  # negating the charges reverses their order\n", '', 'FLAG-L-reset')
M('C02', 'from_qdict claims sorted (original defect)', CH,
  '        res.sorted = res.is_sorted()\n        res.bunched = res.is_bunched()\n        return res\n\n    @classmethod\n    def from_add_charge',
  '        res.sorted = True\n        res.bunched = res.is_bunched()\n        return res\n\n    @classmethod\n    def from_add_charge',
  'FLAG-L-true-claim')
M('C02', 'change_charge forgets qtotal (original defect)', NPC,
  '        res.qtotal = chinfo2.make_valid(self.qtotal)\n', '', 'COUPLED-chinfo')
M('C02', 'outer subtracts total charges', NPC,
  'qtotal = a.chinfo.make_valid(a.qtotal + b.qtotal)\n    res = Array(a.legs + b.legs, dtype, qtotal)',
  'qtotal = a.chinfo.make_valid(a.qtotal - b.qtotal)\n    res = Array(a.legs + b.legs, dtype, qtotal)',
  'CHARGE-qtotal')
M('C02', 'take_slice adds removed charge', NPC,
  'res.qtotal -= self.legs[a].get_charge(qi)', 'res.qtotal += self.legs[a].get_charge(qi)',
  'CHARGE-qtotal')
M('C02', 'gauge chdiff sign', NPC, 'chdiff = newqtotal - self.qtotal',
  'chdiff = self.qtotal - newqtotal', 'CHARGE-gauge')
M('C02', 'gauge forgets old_qconj factor', NPC,
  'new_charges = self.legs[ax].charges + old_qconj * chdiff',
  'new_charges = self.legs[ax].charges + chdiff', 'CHARGE-gauge')
M('C02', 'svd completes qtotal_L with sum', NPC,
  'qtotal_L = a.chinfo.make_valid(a.qtotal - qtotal_R)',
  'qtotal_L = a.chinfo.make_valid(a.qtotal + qtotal_R)', 'CHARGE-qtotal')
M('C02', 'extend without set_shape', NPC,
  """        extended.legs[ax] = extended.legs[ax].extend(extra)
        extended._set_shape()""", """        extended.legs[ax] = extended.legs[ax].extend(extra)""",
  'COUPLED-shape')
M('C02', 'twin: flag written before the data in itranspose', NPC,
  """        self._qdata = np.array(self._qdata[:, axes_arr], order='C')
        self._qdata_sorted = False""",
  """        self._qdata_sorted = False
        self._qdata = np.array(self._qdata[:, axes_arr], order='C')""", None, 'silent')
M('C02', 'twin: outer total charge with swapped summands', NPC,
  'qtotal = a.chinfo.make_valid(a.qtotal + b.qtotal)\n    res = Array(a.legs + b.legs, dtype, qtotal)',
  'qtotal = a.chinfo.make_valid(b.qtotal + a.qtotal)\n    res = Array(a.legs + b.legs, dtype, qtotal)',
  None, 'silent')

# ---------------------------------------------------------------- C05
M('C05', 'svd new leg from qtotal_L', NPC,
  'new_leg_charges = (qtotal_R - a.legs[1].get_charge(qi_R)) * inner_qconj',
  'new_leg_charges = (qtotal_L - a.legs[1].get_charge(qi_R)) * inner_qconj', 'CHARGE-factor')
M('C05', 'svd new_leg_L not conjugated', NPC, 'new_leg_L = new_leg_R.conj()',
  'new_leg_L = new_leg_R', 'CHARGE-factor')
M('C05', 'svd inner_qconj not applied to charges', NPC,
  'new_leg_charges = (qtotal_R - a.legs[1].get_charge(qi_R)) * inner_qconj',
  'new_leg_charges = (qtotal_R - a.legs[1].get_charge(qi_R))', 'CHARGE-factor')
M('C05', 'qr qtotal_Q shift sign', NPC,
  'inner_leg.charges - inner_leg.qconj * qtotal_Q', 'inner_leg.charges + inner_leg.qconj * qtotal_Q',
  'CHARGE-factor')
M('C05', 'qr R total charge', NPC, 'a.chinfo.make_valid(a.qtotal - q.qtotal)',
  'a.chinfo.make_valid(a.qtotal + q.qtotal)', 'CHARGE-factor')
M('C05', 'qr flip forgets qconj', NPC,
  """        inner_leg.sorted = False
        inner_leg.qconj = inner_qconj""", """        inner_leg.sorted = False""", 'CHARGE-factor')
M('C05', 'orthogonal_columns right charges sign', NPC,
  'right_qconj * (a.qtotal - left_leg.get_charge(right_kept_blocks))',
  'right_qconj * (a.qtotal + left_leg.get_charge(right_kept_blocks))', 'CHARGE-factor')
M('C05', 'svd splits VH on wrong axis', NPC, 'VH = VH.split_legs(1)', 'VH = VH.split_legs(0)',
  'FACT-pipes')
M('C05', 'svd inner labels swapped', NPC, 'U.iset_leg_labels([a_labels[0], labL])',
  'U.iset_leg_labels([a_labels[0], labR])', 'FACT-labels')
M('C05', 'lq forgets to reverse inner labels', NPC, 'inner_labels=inner_labels[::-1]',
  'inner_labels=inner_labels', 'FACT-lq')
M('C05', 'svd always overwrites', NPC, 'overwrite_a = len(piped_axes) > 0', 'overwrite_a = True',
  'FACT-overwrite')
M('C05', 'twin: qr shift written with commuted product', NPC,
  'inner_leg.charges - inner_leg.qconj * qtotal_Q', 'inner_leg.charges - qtotal_Q * inner_leg.qconj',
  None, 'silent')

# ---------------------------------------------------------------- C06
M('C06', 'outer_conj literal direction (original defect)', CH, 'res.qconj = -self.qconj\n        res._set_charges',
  'res.qconj = -1\n        res._set_charges', 'DIR-literal')
M('C06', 'LegCharge.conj also negates charges', CH,
  """        res = self.copy()  # shallow copy
        res.qconj = -self.qconj
        return res""", """        res = self.copy()  # shallow copy
        res.qconj = -self.qconj
        res.charges = self.chinfo.make_valid(-self.charges)
        return res""", 'DIR-algebra')
M('C06', 'LegPipe.conj forgets incoming legs', CH,
  '        res.legs = tuple([l.conj() for l in self.legs])\n', '', 'DIR-algebra')
M('C06', 'extend negates when directions agree', CH, 'if self.qconj == extra.qconj:',
  'if self.qconj != extra.qconj:', 'DIR-sign-conditional')
M('C06', 'fusion rule drops pipe direction', CH,
  'legcharges = [(self.qconj * l.qconj) * l.charges for l in self.legs]',
  'legcharges = [l.qconj * l.charges for l in self.legs]', 'FUSION-rule')
M('C06', 'sort permutation not applied to block sizes', CH,
  '            blocksizes = blocksizes[perm_qind]\n', '', 'FUSION-perm')
M('C06', 'combine_legs uses incoming column for block index', NPC,
  'qdata[:, ax] = pipes[j].q_map[q_map_inds[j], 2]', 'qdata[:, ax] = pipes[j].q_map[q_map_inds[j], 3]',
  'QMAP-roles')
M('C06', 'split worker extent reversed', NPC, 'q_map[:, 1] - q_map[:, 0]', 'q_map[:, 0] - q_map[:, 1]',
  'QMAP-roles')
M('C06', 'twin: conj via unary minus written as multiplication', CH,
  """        res = self.copy()  # shallow copy
        res.qconj = -self.qconj
        return res""", """        res = self.copy()  # shallow copy
        res.qconj = (-1) * self.qconj
        return res""", None, 'silent')

# ---------------------------------------------------------------- C03
M('C03', 'E_shift written into the caller\'s operator (original defect)', KRY,
  """                shifted = ShiftNpcLinearOperator(self.H.orig_operator, self.E_shift)
                self.H = OrthogonalNpcLinearOperator(shifted, [v.copy() for v in self.H.ortho_vecs])""",
  """                self.H.orig_operator = ShiftNpcLinearOperator(self.H.orig_operator, self.E_shift)""",
  'OWN-attr-alias')
M('C03', 'make_valid asarray (original defect)', CH,
  'charges = np.array(charges, dtype=QTYPE)  # copy: never write into the argument',
  'charges = np.asarray(charges, dtype=QTYPE)', 'OWN-write')
M('C03', 'iproject edits shared _qdata (caught at the shallow-copy call sites)', NPC,
  '        self._qdata = self._qdata.copy()\n', '', 'OWN-write')
M('C03', '__add__ on shallow copy', NPC,
  """            res = self.copy(deep=True)
            return res.iadd_prefactor_other(1.0, other)""",
  """            res = self.copy(deep=False)
            return res.iadd_prefactor_other(1.0, other)""", 'OWN-write')
M('C03', 'take_slice on shallow copy', NPC, """        res = self.copy(deep=True)
        if len(axes) == 0:
            return res  # nothing to do""", """        res = self.copy(deep=False)
        if len(axes) == 0:
            return res  # nothing to do""", 'OWN-write')
M('C03', 'squeeze shares qtotal', NPC, 'res.qtotal = self.qtotal.copy()', 'res.qtotal = self.qtotal',
  'OWN-write')
M('C03', 'add_trivial_leg writes shared block list', NPC, '        res._data = res._data[:]  # make a copy\n', '',
  'OWN-write')
M('C03', 'from_ndarray zeroes the caller array', NPC,
  'data_flat = data_flat.astype(dtype, copy=True)\n        res = cls(legcharges, dtype, qtotal, labels)',
  'data_flat = data_flat.astype(dtype, copy=False)\n        res = cls(legcharges, dtype, qtotal, labels)',
  'OWN-write')
M('C03', 'tensordot transposes operands in place', NPC,
  """        a = a.copy(deep=False)  # shallow copy allows to call itranspose
        b = b.copy(deep=False)  # which would otherwise break views.
""", "", 'OWN-callee')
M('C03', 'MPS init keeps caller tensors', MPS,
  'self._B = [B.astype(dtype, copy=True).itranspose(self._B_labels) for B in Bs]',
  'self._B = [B.astype(dtype, copy=False).itranspose(self._B_labels) for B in Bs]',
  'OWN-network-copy')
M('C03', 'flip_charges_qconj edits charges in place', CH,
  'res.charges = self.chinfo.make_valid(-self.charges)', 'res.charges *= -1', 'OWN-legs')
M('C03', 'extend on shallow copy', NPC, """        extended = self.copy(deep=True)
        ax = self.get_leg_index(axis)""", """        extended = self.copy(deep=False)
        ax = self.get_leg_index(axis)""", None, 'silent')  # legs list is owned by a shallow copy
M('C03', 'conj real path without copy', NPC, """            if inplace:
                res = self
            else:
                res = self.copy(deep=True)
        res.qtotal = self.chinfo.make_valid(-res.qtotal)""", """            res = self
        res.qtotal = self.chinfo.make_valid(-res.qtotal)""", 'OWN-inplace-flag')

# ---------------------------------------------------------------- C10
M('C10', 'add_onsite halves nothing under explicit_plus_hc', MODEL,
  """        if self.explicit_plus_hc:
            if plus_hc:
                plus_hc = False  # explicitly add the h.c. later; don't do it here.
            else:
                strength /= 2  # avoid double-counting this term: add the h.c. explicitly later on
        if not self.lat.unit_cell[u].valid_opname(opname):""",
  """        if self.explicit_plus_hc:
            if plus_hc:
                plus_hc = False  # explicitly add the h.c. later; don't do it here.
        if not self.lat.unit_cell[u].valid_opname(opname):""", 'PLUSHC-guard')
M('C10', 'add_coupling hc keeps dx', MODEL, 'u1, hc_op1, -dx, hc_opstr, category, plus_hc=False',
  'u1, hc_op1, dx, hc_opstr, category, plus_hc=False', 'PLUSHC-reverse')
M('C10', 'add_coupling_term hc forgets conj', MODEL,
  'ct.add_coupling_term(np.conj(strength), i, j, hc_op_i, hc_op_j, hc_op_string)',
  'ct.add_coupling_term(strength, i, j, hc_op_i, hc_op_j, hc_op_string)', 'PLUSHC-hc-block')
M('C10', 'add_onsite_term hc uses same operator', MODEL,
  'ot.add_onsite_term(np.conj(strength), i, hc_op)', 'ot.add_onsite_term(np.conj(strength), i, op)',
  'PLUSHC-hc-block')
M('C10', 'calc_H_MPO forgets the flag', MODEL,
  '        H_MPO.explicit_plus_hc = self.explicit_plus_hc\n', '', 'HCFLAG-model')
M('C10', 'exp decay lambda not conjugated (seed)', MODEL,
  'np.conj(strength), np.conj(lambda_), hc_op_i, hc_op_j, subsites, subsites_start, hc_opstr',
  'np.conj(strength), lambda_, hc_op_i, hc_op_j, subsites, subsites_start, hc_opstr',
  'PLUSHC-hc-block')
M('C10', 'coupling terms overwrite instead of accumulate', TERMS,
  'd3[op_j] = d3.get(op_j, 0) + strength', 'd3[op_j] = strength', 'TERMS-accumulate')

# ---------------------------------------------------------------- C12
M('C12', 'multi-coupling handler multiplies JW before the toggle', TERMS,
  """                if JW_right:
                    new_op_str.append('JW')""", """                if not op_needs_JW[x] and JW_right:
                    new_op_str.append('JW')""", 'JW-entry')
M('C12', 'multi-coupling handler accepts an odd number of fermionic operators', TERMS,
  "            if JW_right:\n                raise ValueError('odd number of Jordan Wigner strings')\n", "",
  'JW-entry')
M('C12', 'get_hc_op_name keeps the factor order', SITE, "for name2 in reversed(names):", "for name2 in names:",
  'SITE-hc-name')
M('C12', 'get_hc_op_name reverses the result instead (equivalent)', SITE,
  """        for name2 in reversed(names):
            hc_name_2 = self.hc_ops.get(name2)
            if hc_name_2 is None:
                raise ValueError(f'hermitian conjugate of operator {name2!s} unknown')
            hc_names.append(hc_name_2)
        return ' '.join(hc_names)""",
  """        for name2 in names:
            hc_name_2 = self.hc_ops.get(name2)
            if hc_name_2 is None:
                raise ValueError(f'hermitian conjugate of operator {name2!s} unknown')
            hc_names.insert(0, hc_name_2)
        return ' '.join(hc_names)""", None, 'silent')
M('C12', 'grouped site restores the JW list only', SITE, "                Ids[i] = site.Id\n", "", 'GROUPED-jw')
M('C12', 'coupling handler accepts a single fermionic operator', TERMS,
  "            elif need_JW_i or need_JW_j:\n                raise ValueError('Only one of the operators needs a Jordan-Wigner string?!')\n",
  "", 'JW-entry')
M('C12', 'coupling handler multiplies JW onto the right operator', TERMS,
  "            op_i = site_i.multiply_op_names([op_i, op_string])",
  "            op_j = site_j.multiply_op_names([op_j, op_string])", 'JW-entry')
M('C12', 'coupling handler looks both operators up on site i', TERMS,
  "        site_j = sites[j % L]\n        need_JW_i", "        site_j = sites[i % L]\n        need_JW_i", 'JW-entry')
M('C12', 'coupling handler with De Morgan and guard clause (equivalent)', TERMS,
  """            if need_JW_i and need_JW_j:
                op_string = 'JW'
            elif need_JW_i or need_JW_j:
                raise ValueError('Only one of the operators needs a Jordan-Wigner string?!')
            else:
                op_string = 'Id'
""", """            if need_JW_i != need_JW_j:
                raise ValueError('Only one of the operators needs a Jordan-Wigner string?!')
            op_string = 'JW' if need_JW_i else 'Id'
""", None, 'silent')
M('C12', 'correlation_function ops1 for sites2 (original defect)', MPS,
  'op_needs_JW(ops2[j % len(ops2)])', 'op_needs_JW(ops1[j % len(ops1)])', 'FAMILY-mix')
M('C12', 'grouped drop uses sites[0] (original defect)', SITE,
  'from_drop_charge(site.leg, chargeinfo=chinfo)', 'from_drop_charge(sites[0].leg, chargeinfo=chinfo)',
  'LOOPVAR-unused')
M('C12', 'remove_op keeps JW flag', SITE, '        self.need_JW_string.discard(name)\n', '',
  'SITE-registry')
M('C12', 'add_op hc one direction only', SITE,
  '            self.hc_ops[hc] = name\n            self.hc_ops[name] = hc',
  '            self.hc_ops[name] = hc', 'SITE-registry')
M('C12', 'op_needs_JW is an OR instead of parity', SITE,
  '                need_JW = not need_JW', '                need_JW = True', 'SITE-jw-parity')
M('C12', 'fermionic sign on every swap', TERMS, 'if t1[2] and t2[2]:', 'if t1[2] or t2[2]:',
  'JW-entry')
M('C12', 'grouped site restores wrong list', SITE, '            JW_Ids[i] = site.JW',
  '            JW_Ids[i] = site.Id', 'GROUPED-jw')
M('C12', 'TermList shares the strength array (seed)', TERMS, 'self.strength = np.array(strength)',
  'self.strength = np.asarray(strength)', 'OWN-attr')
M('C12', 'term_correlation_function_left reuses has_extra_JW (original defect)', MPS,
  """        ops_L, i_min, odd_JW = self._term_to_ops_list(term_L, autoJW, i_L[0], has_extra_JW)
        i_min = i_min - i_L[0]
        if autoJW and odd_JW:""",
  """        ops_L, i_min, has_extra_JW = self._term_to_ops_list(term_L, autoJW, i_L[0], has_extra_JW)
        i_min = i_min - i_L[0]
        if autoJW and has_extra_JW:""", 'RECOMPUTE-agree')
M('C12', 'loop re-computation of ops_L drops the JW flag', MPS,
  'ops_L, _, _ = self._term_to_ops_list(term_L, autoJW, i, has_extra_JW)',
  'ops_L, _, _ = self._term_to_ops_list(term_L, autoJW, i)', 'RECOMPUTE-agree')
M('C12', 'renaming the flag consistently is fine', MPS,
  """        ops_R, j_min, has_extra_JW = self._term_to_ops_list(term_R, autoJW, j_R)
        if autoJW:
            opstr = 'JW' if has_extra_JW else None
        ops_L, i_min, odd_JW = self._term_to_ops_list(term_L, autoJW, i_L[0], has_extra_JW)""",
  """        ops_R, j_min, JW_R = self._term_to_ops_list(term_R, autoJW, j_R)
        has_extra_JW = JW_R
        if autoJW:
            opstr = 'JW' if has_extra_JW else None
        ops_L, i_min, odd_JW = self._term_to_ops_list(term_L, autoJW, i_L[0], has_extra_JW)""",
  None, 'silent')
M('C12', 'set_common_charges unsorted leg unbound (original defect)', SITE,
  '            leg = leg_unsorted\n            perm_flat = None', '            perm_flat = None',
  'DEF-before-use')
M('C12', 'GroupedSite independent branch forgets legs = []', SITE,
  """            # charges are separately conserved
            legs = []""", """            # charges are separately conserved""", 'DEF-before-use')

M('C03', 'from_full transposes the operand in place (original defect)', MPS,
  "psi = psi.transpose(psi_labels)  # not in place: `psi` may still be the caller's tensor",
  'psi.itranspose(psi_labels)', 'OWN-param-icall')
M('C03', 'apply_local_op normalises the labels of the operator in place', MPS,
  "        else:\n            op = self.shift_Array_unit_cells(op, -num_unit_cells, inplace=False)",
  "        else:\n            op.iset_leg_labels([str(l) for l in op._labels])\n"
  "            op = self.shift_Array_unit_cells(op, -num_unit_cells, inplace=False)",
  'OWN-param-icall')

# ---------------------------------------------------------------- C11
M('C11', 'overlap reads the raw range of the other operand (original defect)', MPO,
  "other.L + 2 * other_max_range)", "other.L + 2 * other.max_range)", 'RANGE-sanitised')
M('C11', 'to_TermList compares the raw IdR (original defect)', MPO,
  "                    IdR = IdR % W.get_leg('wR').ind_len  # may be stored as a negative index",
  "                    pass", 'ID-normalised')
M('C11', 'to_TermList carries the narrowed range (original defect)', MPO,
  """            max_range_i = max_range
            if self.finite:
                max_range_i = min(max_range, L - i - 1)  # (don't narrow it for later `start`)
            for k in range(max_range_i + 1):""",
  """            if self.finite:
                max_range = min(max_range, L - i - 1)
            for k in range(max_range + 1):""", 'RANGE-loop-carried')
M('C11', 'sum of MPOs: range is the max of the known ranges (seed a)', MPO,
  """        if self.max_range is not None and other.max_range is not None:
            max_range = max(self.max_range, other.max_range)
        else:
            max_range = None""",
  """        known_ranges = [r for r in (self.max_range, other.max_range) if r is not None]
        max_range = max(known_ranges) if known_ranges else None""", 'RANGE-derived')
M('C11', 'sum of MPOs: equivalent conditional expression', MPO,
  """        if self.max_range is not None and other.max_range is not None:
            max_range = max(self.max_range, other.max_range)
        else:
            max_range = None""",
  """        unknown = self.max_range is None or other.max_range is None
        max_range = None if unknown else max(self.max_range, other.max_range)""", None, 'silent')
M('C11', 'MPO addition ignores differing explicit_plus_hc', MPO,
  "        if self.explicit_plus_hc != other.explicit_plus_hc:\n            raise ValueError('Can not add MPOs with different explicit_plus_hc flags')\n",
  "", 'HCFLAG-derived')
M('C11', 'get_IdR without the bond offset', MPO,
  "        return self.IdR[self._to_valid_site_index(i) + 1]", "        return self.IdR[self._to_valid_site_index(i)]",
  'ID-pairing')
M('C11', 'dagger ignores the implicit h.c.', MPO,
  "        if self.explicit_plus_hc:\n            return self.copy()\n        # complex conjugate and transpose everything",
  "        # complex conjugate and transpose everything", 'HCFLAG-derived')

# ---------------------------------------------------------------- C13
M('C13', 'mixer identity weight ignores explicit_plus_hc', MC,
  "    one = 1.0 if not H.explicit_plus_hc else 0.5", "    one = 1.0", 'HCFLAG-mixer')
M('C13', 'mixer identity weight as if/else (equivalent)', MC,
  "    one = 1.0 if not H.explicit_plus_hc else 0.5",
  "    if H.explicit_plus_hc:\n        one = 0.5\n    else:\n        one = 1.0", None, 'silent')
M('C13', 'update_env deletes LP on the left index', MC, "            env.del_LP(i_R)", "            env.del_LP(i_L)",
  'HOOKS-env-pairing')
M('C13', 'update_env indices: and instead of or', MC, "        if n == 2 or move_right:", "        if n == 2 and move_right:",
  'HOOKS-env-pairing')
M('C13', 'update_env rebuilds RP from U', MC, "self.eff_H.update_RP(self.env, i_L, update_data['VH'])",
  "self.eff_H.update_RP(self.env, i_L, update_data['U'])", 'HOOKS-env-pairing')
M('C13', '_update_env_inds with guard clause (equivalent)', MC,
  """        if n == 2 or move_right:
            i_L = self.i0
            i_R = self.i0 + 1
        else:  # n == 1 and left moving
            # TODO is this also correct if move_right is None?
            i_L = self.i0 - 1
            i_R = self.i0
        return i_L, i_R""",
  """        if n != 2 and not move_right:
            return self.i0 - 1, self.i0
        return self.i0, self.i0 + 1""", None, 'silent')

# ---------------------------------------------------------------- C09
M('C09', 'set_svd_theta stores VH as form A', MPS,
  "self.set_B(i + 1, VH.itranspose(self._B_labels), form='B')", "self.set_B(i + 1, VH.itranspose(self._B_labels), form='A')",
  'MPS-form-flow')
M('C09', 'spatial_inversion keeps the forms in place', MPS,
  "self.form = [(f if f is None else (f[1], f[0])) for f in self.form[::-1]]",
  "self.form = [(f if f is None else (f[1], f[0])) for f in self.form]", 'MPS-sided')
M('C09', 'spatial_inversion does not exchange vL and vR', MPS,
  "B.replace_labels(['vL', 'vR'], ['vR', 'vL']).transpose(self._B_labels)", "B.transpose(self._B_labels)",
  'MPS-sided')
M('C09', 'apply_local_op puts the JW string on vR', MPS,
  "_ = self.apply_JW_string_left_of_virt_leg(self._B[i], 'vL', i)", "_ = self.apply_JW_string_left_of_virt_leg(self._B[i], 'vR', i)",
  'MPS-norm')
M('C09', 'get_B scales the left leg by the change of the right exponent', MPS,
  "self._scale_axis_B(B, self.get_SL(i), new_form[0] - old_form[0], 'vL', cutoff)",
  "self._scale_axis_B(B, self.get_SL(i), new_form[1] - old_form[1], 'vL', cutoff)", 'MPS-form-flow')
M('C09', 'get_B exponent difference reversed', MPS,
  "self._scale_axis_B(B, self.get_SR(i), new_form[1] - old_form[1], 'vR', cutoff)",
  "self._scale_axis_B(B, self.get_SR(i), old_form[1] - new_form[1], 'vR', cutoff)", 'MPS-form-flow')
M('C09', 'roll converts to B form (original defect)', MPS,
  'new_B = [self.get_B(i, form=None) for i in inds]', 'new_B = [self.get_B(i) for i in inds]',
  'MPS-form-flow')
M('C09', 'inversion ignores bc (original defect)', MPS,
  """        if self.bc == 'infinite':
            # L bonds, S[i] left of site i: the new left bond of site i is the old S[(L-i) % L]
            self._S = self._S[:1] + self._S[:0:-1]
        else:
            self._S = self._S[::-1]""", """        self._S = self._S[::-1]""", 'MPS-bond-reindex')
M('C09', 'enlarge reads tensors after forms were replaced', MPS,
  """        self._B = [self.get_B(j, form=None) for j in range(0, factor * self.L)]
        self._S = [self.get_SL(j) for j in range(0, factor * self.L)]
        if self.finite:
            self._S.append([self.get_SR(factor * self.L - 1)])
        self.sites = [self.get_site(j) for j in range(0, factor * self.L)]
        self.form = factor * self.form""",
  """        self.form = factor * self.form
        self._B = [self.get_B(j, form=None) for j in range(0, factor * self.L)]
        self._S = [self.get_SL(j) for j in range(0, factor * self.L)]
        if self.finite:
            self._S.append([self.get_SR(factor * self.L - 1)])
        self.sites = [self.get_site(j) for j in range(0, factor * self.L)]""", 'MPS-coupled-order')
M('C09', 'inversion forgets to swap form exponents', MPS, '(f[1], f[0])', '(f[0], f[1])',
  'MPS-sided')
M('C09', 'swap_sites parity order (seed)', MPS,
  'n_i = np.outer(siteL.JW_exponent, np.ones(dR)).reshape(dL * dR)',
  'n_i = np.outer(np.ones(dR), siteL.JW_exponent).reshape(dL * dR)', 'MPS-sided')
M('C09', 'swap_sites drops truncation error', MPS,
  "U, S, V, err, renormalize = svd_theta(theta, trunc_par, inner_labels=['vR', 'vL'])\n        B_R = V.split_legs(1).ireplace_label('p1', 'p')\n        B_L = npc.tensordot(",
  "U, S, V, _, renormalize = svd_theta(theta, trunc_par, inner_labels=['vR', 'vL'])\n        err = TruncationError()\n        B_R = V.split_legs(1).ireplace_label('p1', 'p')\n        B_L = npc.tensordot(",
  'MPS-errflow')
M('C09', 'permute_sites forgets swap errors', MPS, '                trunc_err += trunc\n', '',
  'MPS-errflow')
M('C09', 'get_B scales vR with left singular values', MPS,
  "B = self._scale_axis_B(B, self.get_SR(i), new_form[1] - old_form[1], 'vR', cutoff)",
  "B = self._scale_axis_B(B, self.get_SL(i), new_form[1] - old_form[1], 'vR', cutoff)",
  'MPS-form-flow')

# ---------------------------------------------------------------- C01 / C07
M('C01', 'get_qindex accepts the index one past the end (original defect)', 'tenpy/linalg/charges.py',
  "        elif flat_index >= self.ind_len:", "        elif flat_index > self.ind_len:", 'BOUND-inclusive')
M('C01', 'concatenate promotes only first and last dtype (seed)', NPC,
  "    dtype = res.dtype = np.result_type(*[a.dtype for a in arrays])",
  "        dtype = np.promote_types(res.dtype, a.dtype)\n    res.dtype = dtype", 'ACCUM-last-wins')
M('C02', 'project inherits the bunched claim (seed)', 'tenpy/linalg/charges.py',
  "cp.bunched = self.is_blocked()", "cp.bunched = self.bunched or self.is_blocked()", 'FLAG-L-inherit')
M('C10', 'bond_energies evaluates H_bond one bond off (original defect)', 'tenpy/models/model.py',
  """            H_bond = self.H_bond[1:] + self.H_bond[:1]
            E_bond = psi.expectation_value(H_bond, axes=(['p0', 'p1'], ['p0*', 'p1*']))
            return np.roll(E_bond, 1)""",
  """            return psi.expectation_value(self.H_bond, axes=(['p0', 'p1'], ['p0*', 'p1*']))""",
  'BOND-convention')
M('C10', 'onsite weights of the end sites also on infinite chains (seed)', 'tenpy/models/model.py',
  "strength_i = 1.0 if finite and i == 0 else 0.5", "strength_i = 1.0 if i == 0 else 0.5", 'WEIGHT-onsite')
M('C10', 'exporter sorts a second time instead of undoing (seed)', 'tenpy/algorithms/exact_diag.py',
  "perm = inverse_permutation(sites[i].perm)", "perm = sites[i].perm", 'PERM-undo')
M('C12', 'change_charge updates state_labels in place (seed)', SITE,
  "            self.state_labels = dict((lbl, int(inv_perm[i])) for lbl, i in self.state_labels.items())",
  "            for lbl, i in self.state_labels.items():\n                self.state_labels[lbl] = int(inv_perm[i])",
  'OWN-shallow')
M('C09', 'add() takes the first site in B form (seed)', MPS,
  "theta_self = self.get_B(0, 'Th').transpose(legs)", "theta_self = self.get_B(0, 'B').transpose(legs)",
  'MPS-bond-coverage')
M('C01', 'take_slice labels from removed axes', NPC, 'res._labels = [labels[a] for a in keep_axes]',
  'res._labels = [labels[a] for a in axes]', 'AXIS-carriers')
M('C01', 'trace keeps labels of all axes but two wrong', NPC,
  'res._labels = [a_labels[ax] for ax in keep]', 'res._labels = [a_labels[ax] for ax in range(len(keep))]',
  'AXIS-carriers')
M('C01', 'tensordot labels cut at wrong position', NPC,
  '_drop_duplicate_labels(a._labels[: a.rank - axes], b._labels[axes:])',
  '_drop_duplicate_labels(a._labels[: a.rank - axes], b._labels[: b.rank - axes])', 'LABEL-cut')
M('C01', 'binary merge swaps operands (seed)', NPC,
  'data.append(func(np.zeros_like(bdata[j]), bdata[j]))',
  'data.append(func(bdata[j], np.zeros_like(bdata[j])))', 'SIDES-binary')
M('C01', 'add_leg inserts label at wrong axis', NPC, '        labels.insert(axis, label)\n',
  '        labels.insert(0, label)\n', 'AXIS-insert')
M('C07', 'canonical form: S stored before normalisation', MPS,
  """            S = S / np.linalg.norm(S)  # normalize
            self.set_SL(i, S)""",
  """            self.set_SL(i, S)
            S = S / np.linalg.norm(S)  # normalize""", 'FORM-canonical')
M('C07', 'canonical form: norm always tracked', MPS,
  "        if not renormalize:\n            self.norm = self.norm * np.linalg.norm(S)",
  "        if renormalize:\n            self.norm = self.norm * np.linalg.norm(S)", 'FORM-canonical')
M('C07', 'get_theta uses the left exponent of the previous site', MPS,
  "            _, old_fR = self.form[self._to_valid_site_index(i + k)]", "            old_fR, _ = self.form[self._to_valid_site_index(i + k)]",
  'FORM-canonical')
M('C07', 'entropy from unsquared singular values', MPS, "res.append(entropy(s**2, n))", "res.append(entropy(s, n))",
  'FORM-canonical')
M('C07', 'entropy reads the bond right of site ib', MPS, "                s = self.get_SL(ib)", "                s = self.get_SR(ib)",
  'FORM-canonical')
M('C07', 'get_theta n=1 ignores the requested form (original defect)', MPS,
  "return self.get_B(i, (formL, formR), True, cutoff, '0')", "return self.get_B(i, (1.0, 1.0), True, cutoff, '0')",
  'PARAM-dropped')
M('C07', 'segment boundary composed in the wrong order (seed a)', MPS,
  "new_VR = npc.tensordot(VR_segment, old_VR, axes=['vR', 'vL'])", "new_VR = npc.tensordot(old_VR, VR_segment, axes=['vR', 'vL'])",
  'SEGMENT-order')
M('C07', 'Schmidt values gathered with destination indices (seed b)', MPS,
  "SR = SR[inverse_permutation(perm)]", "SR = SR[perm]", 'PERM-direction')
M('C07', 'set_svd_theta records U as B form', MPS,
  "self.set_B(i, U.itranspose(self._B_labels), form='A')",
  "self.set_B(i, U.itranspose(self._B_labels), form='B')", None)
M('C07', 'TDVP stores VH as A', TDVP, "self.psi.set_B(i0 + 1, B1, form='B')",
  "self.psi.set_B(i0 + 1, B1, form='A')", 'FORM-isometry')
M('C07', 'canonical form back sweep reads B tensors', MPS, "            M = self.get_B(i, 'A')\n",
  "            M = self.get_B(i, 'B')\n", 'FORM-canonical')
M('C07', 'valid forms table C changed', MPS, "'C': (0.5, 0.5),", "'C': (0.5, 1.0),", 'MPS-form-table')

# ---------------------------------------------------------------- C04
PYXF = 'tenpy/linalg/_npc_helper.pyx'
M('C04', 'tensordot sends block-less operands to the worker', NPC,
  '    elif no_block or one_block:', '    elif one_block:', 'PAIR-precondition')
M('C04', 'tensordot trivial cases as guard clause (equivalent)', NPC,
  '    elif no_block or one_block:', '    elif one_block or no_block:', None, 'silent')
M('C04', 'python make_valid aliases (original defect)', CH,
  'charges = np.array(charges, dtype=QTYPE)  # copy: never write into the argument',
  'charges = np.asarray(charges, dtype=QTYPE)', 'PAIR-mutation')
M('C04', 'pyx itranspose keeps sorted flag', PYXF,
  '    self._qdata = np.PyArray_GETCONTIGUOUS(self._qdata[:, axes])\n    self._qdata_sorted = False\n',
  '    self._qdata = np.PyArray_GETCONTIGUOUS(self._qdata[:, axes])\n', None)
M('C04', 'python itranspose keeps sorted flag', NPC,
  """        self._qdata = np.array(self._qdata[:, axes_arr], order='C')
        self._qdata_sorted = False""",
  """        self._qdata = np.array(self._qdata[:, axes_arr], order='C')""", 'PAIR-effects')
M('C04', 'python _make_stride default changed', CH, 'def _make_stride(shape, cstyle=True):',
  'def _make_stride(shape, cstyle=False):', 'PAIR-signature')
M('C04', 'python check_valid raises TypeError', CH,
  """    @use_cython(replacement='ChargeInfo_check_valid')
    def check_valid(self, charges):""", """    @use_cython(replacement='ChargeInfo_check_valid')
    def check_valid(self, charges):
        if charges is None:
            raise TypeError('charges is None')""", 'PAIR-raises')
M('C04', 'replacement name typo', NPC, "@use_cython(replacement='Array__imake_contiguous')",
  "@use_cython(replacement='Array_imake_contiguous')", 'PAIR-exists')
M('C04', 'pyx edited without rebuild (stale extension)', PYXF,
  'charges_ = np.array(charges, dtype=QTYPE, copy=True, order="C")',
  'charges_ = np.array(charges, dtype=QTYPE, copy=False, order="C")', None)
M('C04', 'python split worker leaves flag', NPC, """    res._qdata = new_qdata
    res._qdata_sorted = False
    res._data = new_data""", """    res._qdata = new_qdata
    res._data = new_data""", 'PAIR-effects')

M('C04', 'python _make_stride reads shape shifted by one (round-3 seed a)', CH,
  """        for a in range(0, L - 1):
            stride *= shape[a]
            res[a + 1] = stride""", """        for a in range(1, L):
            stride *= shape[a]
            res[a] = stride""", 'PAIR-regions')
M('C04', 'python _make_stride loop re-indexed consistently (equivalent)', CH,
  """        for a in range(0, L - 1):
            stride *= shape[a]
            res[a + 1] = stride""", """        for a in range(1, L):
            stride *= shape[a - 1]
            res[a] = stride""", None, expect='silent')
M('C04', 'python tensordot skips the transposition on the sorted complement (round-3 seed b)', NPC,
  "        a.itranspose(not_axes_a + axes_a)\n",
  "        if not_axes_a != list(range(len(not_axes_a))):\n            a.itranspose(not_axes_a + axes_a)\n",
  'PAIR-skip-transpose')
M('C04', 'python tensordot skips the transposition on the ordered contracted axes (equivalent)', NPC,
  "        a.itranspose(not_axes_a + axes_a)\n",
  "        if axes_a != list(range(a.rank - len(axes_a), a.rank)):\n            a.itranspose(not_axes_a + axes_a)\n",
  None, expect='silent')

M('C11', 'plus_identity: middle block without beta**(1/N) (round-3 seed a)', MPO,
  "dW[i + 1, j + 1] = b * A_npc[i, j]", "dW[i + 1, j + 1] = A_npc[i, j]", 'WEIGHT-path')
M('C11', 'plus_identity: end block exponent off by one', MPO,
  "b ** (N - counter + 1) * B_npc[i, 0]", "b ** (N - counter) * B_npc[i, 0]", 'WEIGHT-path')
M('C11', 'plus_identity: identity chains swapped', MPO,
  "dW[-1, -1] = g * Id_npc", "dW[-1, -1] = d * Id_npc", 'WEIGHT-path')
M('C11', 'plus_identity: beta on the last site of the finished chain', MPO,
  "g = 1 if counter != 0 else beta", "g = 1 if counter != N - 1 else beta", 'WEIGHT-path')
M('C11', 'plus_identity: factors commuted / condition flipped (equivalent)', MPO,
  "dW[i + 1, j + 1] = b * A_npc[i, j]", "dW[i + 1, j + 1] = A_npc[i, j] * b", None, expect='silent')
M('C11', 'plus_identity: chain condition flipped (equivalent)', MPO,
  "g = 1 if counter != 0 else beta", "g = beta if counter == 0 else 1", None, expect='silent')

M('C17', 'LegPipe.from_hdf5 passes sorted/bunched in swapped roles (round-3 seed b)', CH,
  "obj = cls(legs, qconj, sorted, bunched)", "obj = cls(legs, qconj, bunched, sorted)", 'HDF5-ctor-roles')
M('C17', 'LegPipe.from_hdf5 passes the flags by keyword in another order (equivalent)', CH,
  "obj = cls(legs, qconj, sorted, bunched)", "obj = cls(legs, qconj, bunch=bunched, sort=sorted)", None,
  expect='silent')
M('C17', 'Config.from_hdf5 memorizes after load_dict entered the bare dict (round-3 seed a)',
  'tenpy/tools/params.py', """        hdf5_loader.memorize_load(h5gr, obj)
        obj.options = hdf5_loader.load_dict(h5gr, dict_format, subpath)
        obj.name = hdf5_loader.get_attr(h5gr, 'name')
        obj.unused = set(hdf5_loader.get_attr(h5gr, 'unused'))
""", """        obj.options = hdf5_loader.load_dict(h5gr, dict_format, subpath)
        obj.name = hdf5_loader.get_attr(h5gr, 'name')
        obj.unused = set(hdf5_loader.get_attr(h5gr, 'unused'))
        hdf5_loader.memorize_load(h5gr, obj)
""", 'HDF5-memo-from')
M('C17', 'Config.from_hdf5 reads the plain attributes first (equivalent)',
  'tenpy/tools/params.py', """        hdf5_loader.memorize_load(h5gr, obj)
        obj.options = hdf5_loader.load_dict(h5gr, dict_format, subpath)
        obj.name = hdf5_loader.get_attr(h5gr, 'name')
""", """        obj.name = hdf5_loader.get_attr(h5gr, 'name')
        hdf5_loader.memorize_load(h5gr, obj)
        obj.options = hdf5_loader.load_dict(h5gr, dict_format, subpath)
""", None, expect='silent')

M('C17', 'masked array: compact format chosen when ANY element agrees (original defect)', HIO,
  "if np.any((filled == fill_value) != obj.mask):", "if np.any((filled == fill_value) == obj.mask):",
  'HDF5-masked-compact')
M('C17', 'masked array: compact format condition written with np.all (equivalent)', HIO,
  "if np.any((filled == fill_value) != obj.mask):", "if not np.all((filled == fill_value) == obj.mask):",
  None, expect='silent')
M('C17', 'UniformMPS.from_hdf5 does not restore unit_cell_width (original defect)',
  'tenpy/networks/uniform_mps.py', """        if 'unit_cell_width' in h5gr:
            obj.unit_cell_width = hdf5_loader.load(subpath + 'unit_cell_width')
        else:  # files written before unit_cell_width was saved: same default as for MPS
            obj.unit_cell_width = len(obj.sites)
""", "", 'HDF5-new-typestate')

M('C17', "'' accepted as a simple dict key (original defect)", HIO,
  "and name not in ('', '.')", "and name != '.'", 'HDF5-path-component')
M('C17', "simple-key predicate spelled with two comparisons (equivalent)", HIO,
  "and name not in ('', '.')", "and name != '' and name != '.'", None, expect='silent')

M('C18', "sequential resume forwards 'sequential' twice (original defect)", SIM,
  "        simulation_params = {k: v for k, v in options.items() if k != 'sequential'}\n",
  "        simulation_params = dict(options)\n", 'RESUME-sequential')
M('C18', 'sequential resume forwards the generated output_filename (original defect)', SIM,
  "            simulation_params.pop('output_filename', None)\n", "            pass\n", 'RESUME-sequential')
M('C18', "sequential resume removes 'sequential' with pop (equivalent)", SIM,
  "        simulation_params = {k: v for k, v in options.items() if k != 'sequential'}\n",
  "        simulation_params = dict(options)\n        simulation_params.pop('sequential')\n", None, expect='silent')

M('C18', 'DMRGEngine.reset_stats drops resume_data (round-3 seed b)', 'tenpy/algorithms/dmrg.py',
  "        super().reset_stats(resume_data)\n        self.update_stats = {",
  "        super().reset_stats()\n        self.update_stats = {", 'RESUME-forward')
M('C18', 'DMRGEngine.reset_stats forwards resume_data by keyword (equivalent)', 'tenpy/algorithms/dmrg.py',
  "        super().reset_stats(resume_data)\n        self.update_stats = {",
  "        super().reset_stats(resume_data=resume_data)\n        self.update_stats = {", None, expect='silent')
M('C18', 'TEBD engine constructor drops **kwargs (resume_data, cache)', TEBD,
  "        TimeEvolutionAlgorithm.__init__(self, psi, model, options, **kwargs)",
  "        TimeEvolutionAlgorithm.__init__(self, psi, model, options)", 'RESUME-forward')
M('C18', 't=0 operator applied whenever operator_t0 is unset (round-3 seed a)',
  'tenpy/simulations/time_evolution.py', """            self.psi = self.psi_ground_state.copy()
            self.apply_operator_t0_to_psi()
""", """            self.psi = self.psi_ground_state.copy()
        if self.operator_t0 is None:
            self.apply_operator_t0_to_psi()
""", 'RESUME-init-once')
M('C18', 't=0 operator applied under the flipped test with else (equivalent)',
  'tenpy/simulations/time_evolution.py', """        if not hasattr(self, 'psi'):
            # copy is essential, since time evolution is probably only performed on psi
            self.psi = self.psi_ground_state.copy()
            self.apply_operator_t0_to_psi()
""", """        if hasattr(self, 'psi'):
            pass
        else:
            self.psi = self.psi_ground_state.copy()
            self.apply_operator_t0_to_psi()
""", None, expect='silent')

M('C14', 'update_imag advances the clock by the real delta_t (round-3 seed a)', TEBD,
  """        self._update_index = None
        self.evolved_time = self.evolved_time + N_steps * self._U_param['tau']
        self.trunc_err = self.trunc_err + trunc_err  # not += : make a copy!
        # (this is done to avoid problems of users storing self.trunc_err after each `update`)
        if call_canonical_form:""", """        self._update_index = None
        self.evolved_time = self.evolved_time + N_steps * self._U_param['delta_t']
        self.trunc_err = self.trunc_err + trunc_err  # not += : make a copy!
        # (this is done to avoid problems of users storing self.trunc_err after each `update`)
        if call_canonical_form:""", 'ACCOUNT-evolved_time')

M('C15', 'eigh_rho: eigenvalues not normalised before the final rescaling (round-3 seed a)', TR,
  """    W = W / renormalization
    # We normalize the eigenvalues to have sum 1 to represent a valid density matrix.
    # Truncation assumes SVs, so take square root.
    piv, new_norm, err = truncate(np.sqrt(W), trunc_par)""", """    # We normalize the eigenvalues to have sum 1 to represent a valid density matrix.
    # Truncation assumes SVs, so take square root.
    piv, new_norm, err = truncate(np.sqrt(W / renormalization), trunc_par)""", 'TRUNC-scale')
M('C15', 'eigh_rho: truncate() on the eigenvalues instead of their square roots', TR,
  "piv, new_norm, err = truncate(np.sqrt(W), trunc_par)", "piv, new_norm, err = truncate(W, trunc_par)",
  'TRUNC-scale')
M('C15', 'eigh_rho: kept eigenvalues divided by new_norm instead of new_norm**2', TR,
  "W = W[piv] / new_norm**2 * renormalization", "W = W[piv] / new_norm * renormalization", 'TRUNC-scale')
M('C15', 'eigh_rho: final rescaling written as one factor (equivalent)', TR,
  "W = W[piv] / new_norm**2 * renormalization", "W = W[piv] * (renormalization / new_norm**2)", None,
  expect='silent')

M('C15', 'degeneracy mask via np.diff(prepend=first) forbids cut 0 (round-3 seed b)', TR,
  """        good2 = np.empty(len(piv), np.bool_)
        good2[0] = True
        good2[1:] = np.greater_equal(logS[1:] - logS[:-1], deg_tol)
""", """        good2 = np.greater_equal(np.diff(logS, prepend=logS[0]), deg_tol)
""", 'TRUNC-first-cut')
M('C15', 'degeneracy mask via np.diff(prepend=-inf) (equivalent)', TR,
  """        good2 = np.empty(len(piv), np.bool_)
        good2[0] = True
        good2[1:] = np.greater_equal(logS[1:] - logS[:-1], deg_tol)
""", """        good2 = np.greater_equal(np.diff(logS, prepend=-np.inf), deg_tol)
""", None, expect='silent')
M('C15', 'degeneracy mask starts from np.ones (equivalent)', TR,
  """        good2 = np.empty(len(piv), np.bool_)
        good2[0] = True
        good2[1:] = np.greater_equal(logS[1:] - logS[:-1], deg_tol)
""", """        good2 = np.ones(len(piv), np.bool_)
        good2[1:] = np.greater_equal(logS[1:] - logS[:-1], deg_tol)
""", None, expect='silent')

M('C15', '_qr_theta_Y0 drops the gauged copy (original defect)', TR,
  "            Y0 = Y0.gauge_total_charge('vL', old_qtotal_R)", "            Y0.gauge_total_charge('vL', old_qtotal_R)",
  'TRUNC-value-dropped')

M('C19', 'mps2lat_idx shift by sites per ring (rounded) (round-3 seed a)', LAT,
  "                lat[..., 0] += (i0 - i) * self.N_rings // self.N_sites\n",
  "                sites_per_ring = self.N_sites // self.N_rings\n                lat[..., 0] += (i0 - i) // sites_per_ring\n",
  'GEOM-exact-div')
M('C19', 'mps2lat_idx shift: number of unit cells first (equivalent)', LAT,
  "                lat[..., 0] += (i0 - i) * self.N_rings // self.N_sites\n",
  "                lat[..., 0] += ((i0 - i) // self.N_sites) * self.N_rings\n", None, expect='silent')
M('C19', 'HelicalLattice.enlarge: _set_Ls only when Ls changed (round-3 seed b)', LAT,
  "        self._set_Ls(self.regular_lattice.Ls)\n        order_reg = self.regular_lattice.order",
  "        if self.Ls != self.regular_lattice.Ls:\n            self._set_Ls(self.regular_lattice.Ls)\n        order_reg = self.regular_lattice.order",
  'GEOM-derived-refresh')

M('C20', 'result stored after task_done (round-3 seed a)', TH,
  """                    res = fct(*args, **kwargs)
                    if return_dict is not None:
                        return_dict[return_key] = res
                finally:
                    self.tasks.task_done()
""", """                    res = fct(*args, **kwargs)
                finally:
                    self.tasks.task_done()
                if return_dict is not None:
                    return_dict[return_key] = res
""", 'SYNC-publish-before-done')
M('C20', 'delete forgets a pending preload (round-3 seed b)', CA,
  "    def delete(self, key):\n        self.worker.put_task(self.disk_storage.delete, key)",
  "    def delete(self, key):\n        self._waiting_for_load.discard(key)\n        self._loaded.pop(key, None)\n        self.worker.put_task(self.disk_storage.delete, key)",
  'TS-forget-pending')
M('C20', 'delete waits for pending tasks before forgetting (equivalent discipline)', CA,
  "    def delete(self, key):\n        self.worker.put_task(self.disk_storage.delete, key)",
  "    def delete(self, key):\n        if key in self._waiting_for_load:\n            self.worker.join_tasks()\n            self._waiting_for_load.discard(key)\n            self._loaded.pop(key, None)\n        self.worker.put_task(self.disk_storage.delete, key)",
  None, expect='silent')

M('C07', '_scale_axis_B inverts S for every negative form difference (round-3 seed b)', MPS,
  "                S = _negative_power_keep_zeros(S, form_diff)", "                S = _negative_power_keep_zeros(S, -1.0)",
  'FORM-scale-exponent')
M('C07', '_scale_axis_B: general power first (equivalent)', MPS,
  """            if form_diff < 0:
                S = _negative_power_keep_zeros(S, form_diff)
            elif form_diff != 1.0:
                S = S**form_diff
""", """            if form_diff < 0.0:
                S = _negative_power_keep_zeros(S, exponent=form_diff)
            elif form_diff != 1:
                S = S ** form_diff
""", None, expect='silent')
M('C07', 'original defect: negative powers of S turn exact zeros into inf', MPS,
  "    res[nonzero] = S[nonzero] ** exponent\n    return res", "    res = S ** exponent\n    return res",
  'FORM-zero-sv')
M('C07', 'gauge fix reads both tensors before writing the first (round-3 seed a)', MPS,
  """        self.set_B(i0, npc.tensordot(self.get_B(i0), Yl, axes=['vR', 'vL']))
        self.set_B(i1, npc.tensordot(Yr, self.get_B(i1), axes=['vR', 'vL']))
""", """        B0, B1 = self.get_B(i0), self.get_B(i1)
        self.set_B(i0, npc.tensordot(B0, Yl, axes=['vR', 'vL']))
        self.set_B(i1, npc.tensordot(Yr, B1, axes=['vR', 'vL']))
""", 'SITE-rmw-order')
M('C07', 'gauge fix reads each tensor right before its write (equivalent)', MPS,
  """        self.set_B(i0, npc.tensordot(self.get_B(i0), Yl, axes=['vR', 'vL']))
        self.set_B(i1, npc.tensordot(Yr, self.get_B(i1), axes=['vR', 'vL']))
""", """        B0 = self.get_B(i0)
        self.set_B(i0, npc.tensordot(B0, Yl, axes=['vR', 'vL']))
        B1 = self.get_B(i1)
        self.set_B(i1, npc.tensordot(Yr, B1, axes=['vR', 'vL']))
""", None, expect='silent')

M('C13', '_mix_LR reads IdL of the bond left of i0 (round-3 seed a)', MC,
  "IdL, IdR = H.get_IdL(i0 + 1), H.get_IdR(i0)", "IdL, IdR = H.get_IdL(i0), H.get_IdR(i0)",
  'MPO-bond-coherence')
M('C13', '_mix_LR reads the two identity indices separately (equivalent)', MC,
  "    IdL, IdR = H.get_IdL(i0 + 1), H.get_IdR(i0)\n", "    IdR = H.get_IdR(i0)\n    IdL = H.get_IdL(1 + i0)\n",
  None, expect='silent')
M('C13', 'TwoSiteH.adjoint leaves the combined tensors unconjugated (round-3 seed b)', MC,
  """        adj.W1 = self.W1.conj().ireplace_labels(['wL*', 'wR*'], ['wL', 'wR'])
        if self.combine:
            adj.LHeff = self.LHeff.conj().ireplace_label('wR*', 'wR')
            adj.RHeff = self.RHeff.conj().ireplace_label('wL*', 'wL')
""", """        adj.W1 = self.W1.conj().ireplace_labels(['wL*', 'wR*'], ['wL', 'wR'])
""", 'HEFF-adjoint')

M('C09', 'from_product_mps_covering passes argsort itself (original defect)', MPS,
  "local_psi.permute_sites(inverse_permutation(argsort))", "local_psi.permute_sites(argsort)",
  'MPS-permute-direction')
M('C09', 'permute_sites documents the inverse map (original defect)', MPS,
  "such that ``psi.permute_sites(perm)[perm[i]] = psi[i]``", "such that ``psi.permute_sites(perm)[i] = psi[perm[i]]``",
  'MPS-permute-direction')

M('C07', 'TransferMatrix dtype from the first tensors only (original defect)', MPS,
  "dtype = np.result_type(*[B.dtype for B in M + N])", "dtype = np.promote_types(M[0].dtype, N[0].dtype)",
  'DTYPE-all-tensors')

M('C07', 'canonical_form_infinite1 rescales a (shared) stored tensor in place (original defect)', MPS,
  "        self._B[i1] = self._B[i1] / np.sqrt(norm)  # correct norm again\n",
  "        self._B[i1] /= np.sqrt(norm)  # correct norm again\n", 'SITE-shared-inplace')

M('C07', 'extract_enlarged_segment stores the old boundary pair (original defect)', MPS,
  "psi_new.segment_boundaries = (U_L_new, V_R_new)", "psi_new.segment_boundaries = (U_L, V_R)", 'VALUE-dead')
M('C05', 'speigsh dense fallback returns the unselected spectrum (original defect)', 'tenpy/tools/math.py',
  """            W = np.linalg.eigvalsh(Amat)
            keep = misc.argsort(W, which)[:k]
            return W[keep]""", """            W = np.linalg.eigvalsh(Amat)
            keep = misc.argsort(W, which)[:k]
            return W""", 'VALUE-dead')
M('C05', 'speigs dense fallback: selection applied directly (equivalent)', 'tenpy/tools/math.py',
  """            W = np.linalg.eigvals(Amat)
            keep = misc.argsort(W, which)[:k]
            return W[keep]""", """            W = np.linalg.eigvals(Amat)
            return W[misc.argsort(W, which)[:k]]""", None, expect='silent')

M('C14', 'TDVP basis expansion reads the non-existent Krylov_options (original defect)', TDVP,
  "self.Krylov_params.subconfig('apply_mpo_options')", "self.Krylov_options.subconfig('apply_mpo_options')",
  'ATTR-defined')

M('C05', 'speigs: dtype passed as the column count of np.eye (original defect)', NPC,
  "np.eye(k, dtype=a.dtype)", "np.eye(k, a.dtype)", 'FACT-numpy-roles')

M('C03', 'ExactDiag.full_to_mps relabels its argument (original defect)', 'tenpy/algorithms/exact_diag.py',
  "        psi = psi.copy(deep=False)  # don't relabel the argument\n", "", 'OWN-param-icall')

M('C10', 'dense/sparse exporters ignore explicit_plus_hc (original defect)', 'tenpy/algorithms/exact_diag.py',
  """    if model.explicit_plus_hc:
        # the model stores only one half of each hermitian pair of terms
        H = H + H.conj().T
    return H
""", """    return H
""", 'HCFLAG-model')

M('C10', 'calc_H_bond_from_MPO reads the flag from the model (original defect)', MODEL,
  """        if H_MPO.explicit_plus_hc:
            # represented H = H_MPO + h.c.""", """        if self.explicit_plus_hc:
            # represented H = H_MPO + h.c.""", 'ATTR-defined')

M('C10', "AKLTChain logs with the non-existent self.name (original defect)", 'tenpy/models/aklt.py',
  "self.logger.info('%s: set conserve to %s', self.__class__.__name__, conserve)",
  "self.logger.info('%s: set conserve to %s', self.name, conserve)", 'ATTR-defined')

M('C18', 'TimeDependentCorrelation.resume_run drops the results (original defect)',
  'tenpy/simulations/time_evolution.py', "        return super().resume_run()\n", "        super().resume_run()\n",
  'RESUME-return')

M('C13', 'OneSiteH.adjoint reads LHeff and RHeff in both directions (original defect)', MC,
  """            if self.move_right:
                adj.LHeff = self.LHeff.conj().ireplace_label('wR*', 'wR')
                tensors.append('LHeff')
            else:
                adj.RHeff = self.RHeff.conj().ireplace_label('wL*', 'wL')
                tensors.append('RHeff')
""", """            adj.LHeff = self.LHeff.conj().ireplace_label('wR*', 'wR')
            adj.RHeff = self.RHeff.conj().ireplace_label('wL*', 'wL')
            tensors.extend(['LHeff', 'RHeff'])
""", 'HEFF-conditional-attr')

M('C13', 'subspace expansion (right move) projects a leg the tensor does not have', MC,
  "                LHeff.iproject(proj, 'wR')\n", "                LHeff.iproject(proj, 'wL')\n", 'LABEL-known')

M('C18', 'checkpoint payload works on self.results itself', SIM,
  "        results = self.results.copy()\n        if len(self.errors_during_run) > 0:",
  "        results = self.results\n        if len(self.errors_during_run) > 0:", 'RESUME-save-payload')
M('C18', 'checkpoint payload: local renamed (equivalent)', SIM,
  "        results = self.results.copy()\n        if len(self.errors_during_run) > 0:\n            results['errors_during_run'] = self.errors_during_run\n        results['simulation_parameters'] = self.options.as_dict()",
  "        results = self.results.copy()\n        if len(self.errors_during_run) > 0:\n            results['errors_during_run'] = self.errors_during_run\n        results['simulation_parameters'] = dict(self.options.as_dict())",
  None, expect='silent')

M('C01', 'tensordot labels sliced with [:-axes] (round-4 seed a)', NPC,
  "_drop_duplicate_labels(a._labels[: a.rank - axes], b._labels[axes:])", "_drop_duplicate_labels(a._labels[:-axes], b._labels[axes:])",
  'SLICE-neg-zero')
M('C04', 'python _tensordot_transpose_axes compares shapes also for axes == 0 (original defect)', NPC,
  "    elif axes > 0 and a.shape[-axes:] != b.shape[:axes]:", "    elif a.shape[-axes:] != b.shape[:axes]:", 'PAIR-raise-guards')

M('C02', 'ibinary_blockwise takes the dtype from the first block (round-4 seed a)', NPC,
  """            self.dtype = np.result_type(*[d.dtype for d in self._data])
            self._data = [np.asarray(a, dtype=self.dtype) for a in self._data]
""", """            self.dtype = self._data[0].dtype
""", 'DTYPE-blocks')

M('C05', 'qr_li returns before the second factorisation (round-4 seed b)', 'tenpy/tools/math.py',
  "    R = R[:, misc.inverse_permutation(P)]\n", "    R = R[:, misc.inverse_permutation(P)]\n    if np.all(keep):\n        return Q, R\n",
  'FACT-triangular')
M('C05', 'speigs: fallback search with its own loop variable, qi left stale (round-4 seed a)', NPC,
  """        for qi in range(a.legs[0].block_number):
            if np.all(a.chinfo.make_valid(a.legs[0].get_charge(qi)) == charge_sector):
                sl = a.legs[0].slices
                block_size = sl[qi + 1] - sl[qi]
                break""", """        sl = a.legs[0].slices
        for j in range(a.legs[0].block_number):
            if np.all(a.chinfo.make_valid(a.legs[0].get_charge(j)) == charge_sector):
                block_size = sl[j + 1] - sl[j]
                break""", 'FACT-search-flag')
M('C03', 'init_LP relabels the boundary tensor of the ket in place (round-4 seed a)', MPS,
  "init_LP = U_ket.replace_label('vL', 'vR*')", "init_LP = U_ket.ireplace_label('vL', 'vR*')", 'OWN-borrowed')

M('C09', 'enlarge_chi reads the last bond charge from the unconjugated vR leg (original defect)', MPS,
  "leg = self._B[-1].get_leg('vR').conj()", "leg = self._B[-1].get_leg('vR')", 'LEG-side-direction')
M('C07', 'entanglement_spectrum: boundary leg not conjugated (round-4 seed a)', MPS,
  "                    leg = self._B[i - 1].get_leg('vR').conj()\n", "                    leg = self._B[i - 1].get_leg('vR')\n",
  'LEG-side-direction')

M('C07', 'from_product_state: permutation flag initialised once before the loop (round-4 seed b)', MPS,
  "        for p_st, site in zip(p_state, sites):\n            perm = permute\n",
  "        perm = permute\n        for p_st, site in zip(p_state, sites):\n", 'LOOP-carried-flag')

M('C09', 'apply_local_term adds i_offset to i_min again (round-4 seed a)', MPS,
  "                i = self._to_valid_site_index(i_min)\n                self.apply_JW_string_left_of_virt_leg(self._B[i], 'vL', i)",
  "                i = self._to_valid_site_index(i_min + i_offset)\n                self.apply_JW_string_left_of_virt_leg(self._B[i], 'vL', i)",
  'OFFSET-once')
M('C09', 'compress_svd overwrites the accumulated error in the infinite sweep (round-4 seed b)', MPS,
  "                trunc_err += self.set_svd_theta(i, theta, trunc_par, update_norm=False)\n        else:\n            raise NotImplementedError('unsupported boundary conditions '",
  "                trunc_err = self.set_svd_theta(i, theta, trunc_par, update_norm=False)\n        else:\n            raise NotImplementedError('unsupported boundary conditions '",
  'MPS-errflow')

M('C10', 'calc_H_MPO_from_bond overwrites the right on-site part (round-4 seed a)', MODEL,
  "onsite_terms[i] = add_with_None_0(onsite_terms[i], onsite_R)", "onsite_terms[i] = onsite_R", 'ACCUM-mixed')

M('C10', 'add_local_term: h.c. term converted with the index reduced modulo N (round-4 seed b)', MODEL,
  "self.lat.mps2lat_idx(i)) for op, i in reversed(term)]", "self.lat.mps2lat_idx(i % N)) for op, i in reversed(term)]", 'INDEX-wrap')

M('C11', 'expectation_value_power stops after the MPO unit cell (round-4 seed b)', MPO,
  "            if i >= L - 1:\n                RP = env.init_RP(i)", "            if i >= self.L - 1:\n                RP = env.init_RP(i)", 'RANGE-period-mixed')

M('C14', 'Suzuki constant t1 lost its parentheses (round-4 seed a)', TEBD,
  "t1 = 1.0 / (4.0 - 4.0 ** (1 / 3.0))", "t1 = 1.0 / (4.0 - 4.0 ** 1 / 3.0)", 'TROTTER-order')
M('C14', 'Suzuki constant written with a named cube root (equivalent)', TEBD,
  "            t1 = 1.0 / (4.0 - 4.0 ** (1 / 3.0))\n", "            cbrt4 = 4.0 ** (1.0 / 3.0)\n            t1 = 1.0 / (4.0 - cbrt4)\n",
  None, expect='silent')

M('C04', 'python tensordot: accumulating gemv calls lose trans=True (round-4 seed a)', NPC,
  "        kw_no_overwrite = {'trans': True}\n        kw_overwrite.update(kw_no_overwrite)\n", "        kw_no_overwrite = {'trans': True}\n",
  'PAIR-accumulate-options')

M('C13', '_canonicalize: final test chained with elif (round-4 seed b)', 'tenpy/algorithms/dmrg.py',
  "        if norm_err > norm_tol_final:\n            self._resume_psi = self.psi.copy()", "        elif norm_err > norm_tol_final:\n            self._resume_psi = self.psi.copy()",
  'HOOKS-final-canonical')

M('C17', 'load_reduce applies the slot state only under a non-empty dict state (round-4 seed a)', HIO,
  """                    if slotstate:
                        for k, v in slotstate.items():
                            setattr(obj, k, v)""", """                        if slotstate:
                            for k, v in slotstate.items():
                                setattr(obj, k, v)""", 'HDF5-reduce')
M('C17', "LegCharge.from_hdf5 (compact) reads bunched from the key 'sorted' (round-4 seed b)", CH,
  "            obj.bunched = hdf5_loader.get_attr(h5gr, 'bunched')\n            blockcharges = hdf5_loader.load(subpath + 'blockcharges')",
  "            obj.bunched = hdf5_loader.get_attr(h5gr, 'sorted')\n            blockcharges = hdf5_loader.load(subpath + 'blockcharges')",
  'HDF5-field')

M('C18', 'backup removed in a finally block around the write (round-4 seed b)', SIM,
  """        self._save_to_file(results, output_filename)

        if backup_filename is not None and backup_filename.exists():
            # successfully saved, so we can safely remove the old backup
            backup_filename.unlink()

        self._last_save = time.time()
""", """        try:
            self._save_to_file(results, output_filename)
        finally:
            self._last_save = time.time()
            if backup_filename is not None and backup_filename.exists():
                backup_filename.unlink()

""", 'CRASH-typestate')
M('C18', 'time stamp updated in a finally block, backup removed after success (equivalent for the files)', SIM,
  """        self._save_to_file(results, output_filename)

        if backup_filename is not None and backup_filename.exists():
            # successfully saved, so we can safely remove the old backup
            backup_filename.unlink()

        self._last_save = time.time()
""", """        try:
            self._save_to_file(results, output_filename)
        finally:
            self._last_save = time.time()
        if backup_filename is not None and backup_filename.exists():
            # successfully saved, so we can safely remove the old backup
            backup_filename.unlink()

""", None, expect='silent')

M('C18', 'checkpoint measurements connected below the checkpoint save (round-4 seed a)', SIM,
  "            self.engine.checkpoint.connect(make_simulation_measurements)\n", "            self.engine.checkpoint.connect(make_simulation_measurements, priority=-200)\n",
  'RESUME-checkpoint-priority')

M('C19', 'mps2lat_values_masked: rows for negative indices rounded down (round-4 seed b)', LAT,
  "shape[0] += (abs(min_i) - 1) * self.N_rings // self.N_sites + 1", "shape[0] += abs(min_i) * self.N_rings // self.N_sites",
  'GEOM-size-rounding')
M('C19', 'mps2lat_values_masked: ceiling written with double negation (equivalent)', LAT,
  "shape[0] += (abs(min_i) - 1) * self.N_rings // self.N_sites + 1", "shape[0] += -(-abs(min_i) * self.N_rings // self.N_sites)",
  None, expect='silent')

M('C19', 'multi_coupling_shape clips the box corner to <= 0 (round-4 seed a)', LAT,
  "            shift_strength[a] = min_dx  # note: can be positive!", "            shift_strength[a] = min(0, min_dx)", 'GEOM-box-corner')

M('C20', 'Worker.__exit__ joins only without a pending exception (round-4 seed b)', TH,
  "            self.exit.set()\n            self.worker_thread.join()\n", "            self.exit.set()\n            if exc_type is None:\n                self.worker_thread.join()\n",
  'SYNC-exit-join')
M('C20', 'preload queues a second load for a key in flight (round-4 seed a)', CA,
  "        if key in self._waiting_for_load or key in self._loaded:\n            return\n", "        if key in self._loaded:\n            return\n",
  'TS-no-duplicate-load')

M('C15', 'svd_theta reads chi_max with default None before truncate() (round-4 seed a)', TR,
  "    piv, new_norm, err = truncate(S, trunc_par)\n    new_len_S = np.sum(piv, dtype=np.int_)\n    if new_len_S * 100 < len(S) and (trunc_par['chi_max'] is None or new_len_S != trunc_par['chi_max']):",
  "    chi_max = trunc_par.get('chi_max', None)\n    piv, new_norm, err = truncate(S, trunc_par)\n    new_len_S = np.sum(piv, dtype=np.int_)\n    if new_len_S * 100 < len(S) and (chi_max is None or new_len_S != chi_max):",
  'OPTION-default-first')
M('C15', 'svd_theta reads chi_max with truncate()s own default before truncate() (twin)', TR,
  "    piv, new_norm, err = truncate(S, trunc_par)\n    new_len_S = np.sum(piv, dtype=np.int_)\n    if new_len_S * 100 < len(S) and (trunc_par['chi_max'] is None or new_len_S != trunc_par['chi_max']):",
  "    chi_max = trunc_par.get('chi_max', 100)\n    piv, new_norm, err = truncate(S, trunc_par)\n    new_len_S = np.sum(piv, dtype=np.int_)\n    if new_len_S * 100 < len(S) and (chi_max is None or new_len_S != chi_max):",
  None, expect='silent')
M('C15', 'svd_theta reads chi_max with default None after truncate() (twin)', TR,
  "    new_len_S = np.sum(piv, dtype=np.int_)\n    if new_len_S * 100 < len(S) and (trunc_par['chi_max'] is None or new_len_S != trunc_par['chi_max']):",
  "    new_len_S = np.sum(piv, dtype=np.int_)\n    chi_max = trunc_par.get('chi_max', None)\n    if new_len_S * 100 < len(S) and (chi_max is None or new_len_S != chi_max):",
  None, expect='silent')
M('C15', 'Sweep.sweep no longer stores an explicit chi_max after reading it with default None', 'tenpy/algorithms/mps_common.py',
  "                logger.info('Setting chi_max for env sweeps=%d', chi_max)\n                self.trunc_params['chi_max'] = chi_max\n",
  "                logger.info('Setting chi_max for env sweeps=%d', chi_max)\n",
  'OPTION-default-first')

M('C14', 'original defect: TEBDEngine.calc_U stores the cache key before the gates are built', TEBD,
  "            return  # nothing to do: U is cached\n        logger.info('Calculate U for %s', U_param)",
  "            return  # nothing to do: U is cached\n        self._U_param = U_param\n        logger.info('Calculate U for %s', U_param)",
  'CACHE-key-after-value')
M('C14', 'original defect: ExpMPOEvolution.calc_U stores the cache key before the consistency check', EXPM,
  "            return  # nothing to do: _U is cached\n        logger.info(",
  "            return  # nothing to do: _U is cached\n        self._U_param = U_param\n        logger.info(",
  'CACHE-key-after-value')
M('C14', 'calc_U key stored after the gates but before the flag reset (twin)', TEBD,
  "        self._U = U\n        self._U_param = U_param\n        self.force_prepare_evolve = False\n",
  "        self._U_param = U_param\n        self._U = U\n        self.force_prepare_evolve = False\n",
  None, expect='silent')

M('C18', 'original defect: _connect_measurements_fct modifies the kwargs dict of the options entry', SIM,
  "        if extra_kwargs is None:\n            extra_kwargs = {}\n        else:\n            extra_kwargs = dict(extra_kwargs)  # modified below; the entry belongs to the options\n        wrap = False",
  "        if extra_kwargs is None:\n            extra_kwargs = {}\n        wrap = False",
  'OPTIONS-readonly')
M('C18', 'original defect: _post_processing deletes results_key from the kwargs dict of the options entry', SIM,
  "        else:\n            extra_kwargs = dict(extra_kwargs)  # modified below; the entry belongs to the options\n        function = hdf5_io.find_global",
  "        function = hdf5_io.find_global",
  'OPTIONS-readonly')
M('C18', '_connect_measurements_fct copies the kwargs with .copy() unconditionally (twin)', SIM,
  "        if extra_kwargs is None:\n            extra_kwargs = {}\n        else:\n            extra_kwargs = dict(extra_kwargs)  # modified below; the entry belongs to the options\n        wrap = False",
  "        extra_kwargs = {} if extra_kwargs is None else extra_kwargs.copy()\n        wrap = False",
  None, expect='silent')

M('C18', 'original defect: DMRGEngine.is_converged indexes the empty statistics of a resumed run', 'tenpy/algorithms/dmrg.py',
  "        if len(self.sweep_stats['E']) == 0:\n            # no sweep since `reset_stats` yet, e.g. right after resuming from a checkpoint\n            return False\n", "",
  'RESUME-empty-stats')
M('C18', 'original defect: VUMPSEngine.is_converged indexes the empty statistics of a resumed run', 'tenpy/algorithms/vumps.py',
  "        if len(self.sweep_stats['E']) == 0:\n            # no sweep since `reset_stats` yet, e.g. right after resuming from a checkpoint\n            return False\n", "",
  'RESUME-empty-stats')
M('C18', 'DMRGEngine.is_converged tests emptiness with `not` (twin)', 'tenpy/algorithms/dmrg.py',
  "        if len(self.sweep_stats['E']) == 0:\n", "        if not self.sweep_stats['Delta_E']:\n",
  None, expect='silent')

M('C03', 'original defect: MPO.sort_legcharges stores into IdL/IdR lists shared with a shallow copy', 'tenpy/networks/mpo.py',
  "        self.IdL = list(self.IdL)\n        self.IdR = list(self.IdR)\n", "",
  'COPY-mixed-update')
M('C03', 'MPO.sort_legcharges only refreshes IdL (IdR still shared)', 'tenpy/networks/mpo.py',
  "        self.IdL = list(self.IdL)\n        self.IdR = list(self.IdR)\n", "        self.IdL = list(self.IdL)\n",
  'COPY-mixed-update')
M('C03', 'MPO.sort_legcharges refreshes IdL/IdR by slicing (twin)', 'tenpy/networks/mpo.py',
  "        self.IdL = list(self.IdL)\n        self.IdR = list(self.IdR)\n", "        self.IdL = self.IdL[:]\n        self.IdR = self.IdR[:]\n",
  None, expect='silent')

M('C11', 'original defect: MPO.expectation_value expands init_env_data into expectation_value_finite', 'tenpy/networks/mpo.py',
  "            return self.expectation_value_finite(psi, init_env_data=init_env_data)", "            return self.expectation_value_finite(psi, **init_env_data)",
  'CALL-dict-forward')
M('C11', 'original defect: MPO.expectation_value expands init_env_data into expectation_value_TM', 'tenpy/networks/mpo.py',
  "            return self.expectation_value_TM(psi, tol=tol, init_env_data=init_env_data)", "            return self.expectation_value_TM(psi, tol=tol, **init_env_data)",
  'CALL-dict-forward')
M('C11', 'MPO.expectation_value passes init_env_data positionally (twin)', 'tenpy/networks/mpo.py',
  "            return self.expectation_value_finite(psi, init_env_data=init_env_data)", "            return self.expectation_value_finite(psi, init_env_data)",
  None, expect='silent')

M('C11', 'original defect: MPO.from_grids reads the last grid before projecting the first', 'tenpy/networks/mpo.py',
  "                first_grid = grids[0]\n                if len(first_grid) > 1:\n                    grids[0] = [first_grid[IdL[0]]]\n                    IdL[0] = 0\n                    IdR[0] = None\n                last_grid = grids[-1]  # only now: for a single site it is the projected first grid\n",
  "                first_grid = grids[0]\n                last_grid = grids[-1]\n                if len(first_grid) > 1:\n                    grids[0] = [first_grid[IdL[0]]]\n                    IdL[0] = 0\n                    IdR[0] = None\n",
  'ALIAS-ends')

M('C19', 'original defect: possible_multi_couplings tests the coupling shape only for == 0', 'tenpy/models/lattice.py',
  "        coupling_shape, shift_lat_indices = self.multi_coupling_shape(dx[0, :, :])\n        if any([s <= 0 for s in coupling_shape]):", "        coupling_shape, shift_lat_indices = self.multi_coupling_shape(dx[0, :, :])\n        if any([s == 0 for s in coupling_shape]):",
  'GEOM-shape-nonpositive')
M('C19', 'possible_multi_couplings tests the coupling shape with min(...) < 1 (twin)', 'tenpy/models/lattice.py',
  "        coupling_shape, shift_lat_indices = self.multi_coupling_shape(dx[0, :, :])\n        if any([s <= 0 for s in coupling_shape]):", "        coupling_shape, shift_lat_indices = self.multi_coupling_shape(dx[0, :, :])\n        if min(coupling_shape) < 1:",
  None, expect='silent')

M('C05', 'original defect: svd(full_matrices=True) does not gauge the new leg of VH', 'tenpy/linalg/np_conserved.py',
  "        if np.any(qtotal_R != 0):\n            charges = chinfo.make_valid(new_leg_R.charges + new_leg_R.qconj * qtotal_R)\n            new_leg_R = LegCharge.from_qind(chinfo, new_leg_R.slices, charges, new_leg_R.qconj)\n", "",
  'CHARGE-factor')
M('C05', 'svd(full_matrices=True) gauges the new leg of U with the wrong sign', 'tenpy/linalg/np_conserved.py',
  "            charges = chinfo.make_valid(new_leg_L.charges + new_leg_L.qconj * qtotal_L)", "            charges = chinfo.make_valid(new_leg_L.charges - new_leg_L.qconj * qtotal_L)",
  'CHARGE-factor')
M('C05', 'original defect: svd(full_matrices=True) leaves sectors without a block out of VH', 'tenpy/linalg/np_conserved.py',
  "        for qi in range(a.legs[1].block_number):\n            if qi not in qi_R:\n                qi_R = np.append(qi_R, qi)\n                VH_data.append(np.eye(a.legs[1].get_block_sizes()[qi], dtype=a.dtype))\n", "",
  'FACT-full-unitary')

M('C01', 'original defect: A[inds] = B compares the bunched leg of the permuted B block by block', NPC,
  "                other = Array.from_ndarray(other.to_ndarray(), legs, other.dtype, other.qtotal, labels=other._labels)\n", "                pass\n",
  'BLOCKS-permute-compare')

M('C18', 'original defect: accumulated trunc_err not part of the resume data', ALG,
  "        data['trunc_err'] = self.trunc_err\n", "",
  'RESUME-accumulators')

M('C16', 'original defect: Lanczos keeps the rebuilt vectors in the cache for the next run()', 'tenpy/linalg/krylov_based.py',
  "        self._cache = []  # drop the vectors of a previous run() (left by the rebuild for N_cache < N)\n", "",
  'KRYLOV-cache-reset')

M('C02', 'original defect: get_block(insert=True) appends to the shared _data list', NPC,
  "                self._data = self._data + [res]  # not append: a shallow copy shares the list\n", "                self._data.append(res)\n",
  'COUPLED-shared-list')

M('C04', 'original defect: compiled iadd_prefactor_other transposes other after the leg check and the sort', PYXF,
  """    other = other._transpose_same_labels(self._labels)  # first: changes the legs and un-sorts _qdata
    if not optimize(OptimizationFlag.skip_arg_checks):
        if self.rank != other.rank:
            raise ValueError("different rank!")
        for self_leg, other_leg in zip(self.legs, other.legs):
            self_leg.test_equal(other_leg)
        if np.any(self.qtotal != other.qtotal):
            raise ValueError("Arrays can't have different `qtotal`!")
    if prefactor == 0.:
        return self # nothing to do
    self.isort_qdata()
    other.isort_qdata()
""", """    if not optimize(OptimizationFlag.skip_arg_checks):
        if self.rank != other.rank:
            raise ValueError("different rank!")
        for self_leg, other_leg in zip(self.legs, other.legs):
            self_leg.test_equal(other_leg)
        if np.any(self.qtotal != other.qtotal):
            raise ValueError("Arrays can't have different `qtotal`!")
    if prefactor == 0.:
        return self # nothing to do
    self.isort_qdata()
    other.isort_qdata()
    other = other._transpose_same_labels(self._labels)
""", 'PAIR-sort-after-reorder')

M('C01', 'split_legs (no blocks): legs spliced in ascending order (round-5 seed a)', NPC,
  "            for ax in reversed(axes):\n                res.legs[ax : ax + 1] = self.legs[ax].legs", "            for ax in axes:\n                res.legs[ax : ax + 1] = self.legs[ax].legs",
  'SPLICE-descending')
M('C01', 'split_legs (no blocks): descending via sorted(reverse=True) (twin)', NPC,
  "            for ax in reversed(axes):\n                res.legs[ax : ax + 1] = self.legs[ax].legs", "            for ax in sorted(axes, reverse=True):\n                res.legs[ax : ax + 1] = self.legs[ax].legs",
  None, expect='silent')

M('C03', 'isort_qdata permutes the shared _qdata / _data in place (round-5 seed C02-a)', NPC,
  "        self._qdata = self._qdata[perm, :]\n        self._data = [self._data[p] for p in perm]\n        self._qdata_sorted = True", "        self._qdata[:] = self._qdata[perm, :]\n        self._data[:] = [self._data[p] for p in perm]\n        self._qdata_sorted = True",
  'OWN-benign-rebind')

M('C02', 'svd(full_matrices): identity blocks without dtype (round-5 seed b)', NPC,
  "                U_data.append(np.eye(a.legs[0].get_block_sizes()[qi], dtype=a.dtype))", "                U_data.append(np.eye(a.legs[0].get_block_sizes()[qi]))",
  'DTYPE-block-ctor')

M('C03', 'get_theta(n=1) loses copy=True when switching to keywords (round-5 seed b)', 'tenpy/networks/mps.py',
  "            return self.get_B(i, (formL, formR), True, cutoff, '0')", "            return self.get_B(i, form=(formL, formR), cutoff=cutoff, label_p='0')",
  'OWN-getter-copy')
M('C03', 'get_theta(n=1) passes copy=True by keyword (twin)', 'tenpy/networks/mps.py',
  "            return self.get_B(i, (formL, formR), True, cutoff, '0')", "            return self.get_B(i, form=(formL, formR), copy=True, cutoff=cutoff, label_p='0')",
  None, expect='silent')

M('C03', 'from_product_mps_covering copies the operand only when it permutes (round-5 seed a)', 'tenpy/networks/mps.py',
  "            local_psi = local_psi.copy()\n            argsort = np.argsort(ind_map)\n            if not np.all(argsort == np.arange(len(argsort))):\n", "            argsort = np.argsort(ind_map)\n            if not np.all(argsort == np.arange(len(argsort))):\n                local_psi = local_psi.copy()\n",
  'OWN-param-mps-inplace')

M('C04', 'python LegPipe._init_from_legs makes q_map relative only when bunching (round-5 seed a)', CH,
  "            self.bunched = True\n        else:\n            q_map[:, 2] = q_map_Qi = np.arange(len(q_map), dtype=np.intp)\n            idx = np.arange(len(q_map) + 1, dtype=np.intp)\n        # calculate the slices within blocks: subtract the start of each block\n        q_map[:, :2] -= (self.slices[q_map_Qi])[:, np.newaxis]\n",
  "            q_map[:, :2] -= (self.slices[q_map_Qi])[:, np.newaxis]\n            self.bunched = True\n        else:\n            q_map[:, 2] = np.arange(len(q_map), dtype=np.intp)\n            idx = np.arange(len(q_map) + 1, dtype=np.intp)\n",
  'PAIR-augassign-guards')

M('C04', 'ChargeInfo.__setstate__ caches the unmasked mod (round-5 seed b)', CH,
  "        self._mask = np.not_equal(mod, 1)  # where we need to take modulo in :meth:`make_valid`\n        self._mod_masked = mod[self._mask].copy()  # only where mod != 1\n        self.names = names\n\n    def save_hdf5",
  "        self._mask = np.not_equal(mod, 1)  # where we need to take modulo in :meth:`make_valid`\n        self._mod_masked = mod.copy()  # don't share with `_mod`\n        self.names = names\n\n    def save_hdf5",
  'STATE-derived-agree')

M('C05', 'svd_robust: the gesvd fallback loses full_matrices (round-5 seed a)', 'tenpy/linalg/svd_robust.py',
  "    return scipy.linalg.svd(a, full_matrices, compute_uv, overwrite_a, check_finite, 'gesvd')", "    return scipy.linalg.svd(a, compute_uv=compute_uv, overwrite_a=overwrite_a, check_finite=check_finite, lapack_driver='gesvd')",
  'FACT-fallback-forwards')
M('C05', 'svd_robust: the gesvd fallback written with keywords (twin)', 'tenpy/linalg/svd_robust.py',
  "    return scipy.linalg.svd(a, full_matrices, compute_uv, overwrite_a, check_finite, 'gesvd')", "    return scipy.linalg.svd(a, full_matrices=full_matrices, compute_uv=compute_uv, overwrite_a=overwrite_a, check_finite=check_finite, lapack_driver='gesvd')",
  None, expect='silent')

M('C06', 'LegCharge.sort scatters the block sizes (round-5 seed a)', CH,
  "        block_sizes = self.get_block_sizes()\n        cp._set_block_sizes(block_sizes[perm_qind])", "        block_sizes = np.empty(self.block_number, dtype=np.intp)\n        block_sizes[perm_qind] = self.get_block_sizes()\n        cp._set_block_sizes(block_sizes)",
  'PERM-mixed-direction')

M('C06', "combine_legs (single block) reshapes with order='A' (round-5 seed b)", NPC,
  "            res_block_view[:] = self._data[0].reshape(res_block_view.shape)", "            res_block_view[:] = self._data[0].reshape(res_block_view.shape, order='A')",
  'RESHAPE-C-order')

M('C07', 'from_Bflat decides on canonicalisation from the input shapes (round-5 seed a)', 'tenpy/networks/mps.py',
  "        if (res.L > 1 or res.bc == 'infinite') and max(res.chi) > 1:", "        if (res.L > 1 or res.bc == 'infinite') and max(B.shape[2] for B in Bflat[:-1]) > 1:",
  'FORM-canonicalize-all-bonds')

M('C09', '_term_to_ops_list asks the unshifted site for the JW decision (round-5 seed a)', 'tenpy/networks/mps.py',
  "            if autoJW and self.sites[self._to_valid_site_index(i + i_offset)].op_needs_JW(op):", "            if autoJW and self.sites[i % self.L].op_needs_JW(op):",
  'SITE-index-offset')
M('C10', 'MPOGraph.add_string_left_to_right: wrap test against the unreduced start (round-5 seed b)', 'tenpy/networks/mpo.py',
  "            if (k - i) % self.L == 0:", "            if k % self.L == i:",
  'INDEX-mod-compare')

M('C11', 'apply_zipup contracts the tensors as stored (round-5 seed a)', 'tenpy/networks/mpo.py',
  "            B = npc.tensordot(psi.get_B(i, 'B'), self.get_W(i), axes=('p', 'p*'))\n            if i == 0 and bc == 'finite':\n                B = B.take_slice(self.get_IdL(i), 'wL')\n                B = B.combine_legs([['vL', 'p'], ['wR', 'vR']], qconj=[+1, -1])",
  "            B = npc.tensordot(psi.get_B(i, form=None), self.get_W(i), axes=('p', 'p*'))\n            if i == 0 and bc == 'finite':\n                B = B.take_slice(self.get_IdL(i), 'wL')\n                B = B.combine_legs([['vL', 'p'], ['wR', 'vR']], qconj=[+1, -1])",
  'MPO-apply-form')

M('C11', 'MPO.overlap merges the two one-sided explicit_plus_hc cases (round-5 seed b)', 'tenpy/networks/mpo.py',
  "            ov = A_B + np.conj(hcA_B)", "            ov = A_B + hcA_B",
  'HCFLAG-overlap-table')

M('C12', 'exp. decaying coupling attaches the JW factor to the right operator (round-5 seed a)', 'tenpy/models/model.py',
  "                op_i = example_site_i.multiply_op_names([op_i, 'JW'])", "                op_j = example_site_j.multiply_op_names(['JW', op_j])",
  'JW-left-operator')

M('C12', 'term_list_correlation_function_right looks the string operator up with a stale need_JW (round-5 seed b)', 'tenpy/networks/mps.py',
  "                for key, CL in CLs.items():\n                    need_JW = key[0]\n                    CL = npc.tensordot(CL, B_ket, axes=['vR', 'vL'])\n                    if opstr_fill[need_JW] != 'Id':\n                        opstr_k = self.get_site(k).get_op(opstr_fill[need_JW])\n",
  "                opstr_k = None\n                if opstr_fill[need_JW] != 'Id':\n                    opstr_k = self.get_site(k).get_op(opstr_fill[need_JW])\n                for key, CL in CLs.items():\n                    CL = npc.tensordot(CL, B_ket, axes=['vR', 'vL'])\n                    if opstr_k is not None:\n",
  'LOOP-stale-read')

M('C13', 'mix_and_decompose_2site: one-sided branches swapped (round-5 seed b)', 'tenpy/algorithms/mps_common.py',
  "        elif mix_left:\n            theta_L = theta.replace_label('(p1.vR)', 'vR')", "        elif mix_right:\n            theta_L = theta.replace_label('(p1.vR)', 'vR')",
  'HOOKS-mix-side')
M('C13', 'UniformMPS.to_MPS canonicalises only with check_overlap (round-5 seed a)', 'tenpy/networks/uniform_mps.py',
  "        MPS_B.canonical_form()\n        if check_overlap:\n", "        if check_overlap:\n            MPS_B.canonical_form()\n",
  'HOOKS-final-canonical')

M('C14', 'reinit_model forces re-preparation only for a new model object (round-5 seed b)', ALG,
  "        self.model = self.model.update_time_parameter(self.evolved_time)\n        self.force_prepare_evolve = True\n",
  "        model = self.model.update_time_parameter(self.evolved_time)\n        if model is not self.model:\n            self.model = model\n            self.force_prepare_evolve = True\n",
  'CACHE-invalidate')
M('C14', 'TDVP prepare_evolve clears the environments only if chi changed (round-5 seed a)', TDVP,
  "            self.env.clear()\n\n            logger.info(f'Original bond dimension: {self.psi.chi}.')", "            chi_before = list(self.psi.chi)\n            logger.info(f'Original bond dimension: {self.psi.chi}.')",
  'CACHE-invalidate')

M('C15', 'eigh_rho takes the trace before clamping small eigenvalues (round-5 seed a)', TR,
  "    W[W < 1.0e-14] = 0  # set small eigenvalues to zero\n    renormalization = np.sum(W)\n", "    renormalization = np.sum(W)\n    W[W < 1.0e-14] = 0  # set small eigenvalues to zero\n",
  'TRUNC-norm-version')

M('C16', 'LanczosEvolution._converged weights with the result norm (round-5 seed a)', KRY,
  "        return np.abs(self._result_krylov[k]) < self.P_tol", "        return np.abs(self._result_krylov[k]) * self._result_norm < self.P_tol",
  'KRYLOV-converged-normalised')
M('C16', 'LanczosEvolution.run: default of normalize from the imaginary part (round-5 seed b)', KRY,
  "            normalize = np.real(delta) == 0.0", "            normalize = np.imag(delta) != 0.0",
  'KRYLOV-default-doc')

M('C17', 'create_group_for_obj returns early for the root path without memorizing (round-5 seed a)', HIO,
  "        if path == '/':\n            gr = self.h5group[path]\n        else:\n            gr = self.h5group.create_group(path)", "        if path == '/':\n            return self.h5group[path], path\n        gr = self.h5group.create_group(path)",
  'HDF5-memo-save')
M('C17', 'Config.save_hdf5 saves as_dict() (round-5 seed b)', 'tenpy/tools/params.py',
  "        type_repr = hdf5_saver.save_dict_content(self.options, h5gr, subpath)", "        type_repr = hdf5_saver.save_dict_content(self.as_dict(), h5gr, subpath)",
  'HDF5-field')

M('C18', 'run_seq_simulations stores the index after copying the parameters (round-5 seed a)', SIM,
  "        sequential['index'] = index\n        sim_params = copy.deepcopy(simulation_params)\n", "        sim_params = copy.deepcopy(simulation_params)\n        sequential['index'] = index\n",
  'RESUME-seq-index')
M('C18', 'EvolveBraKet.init_algorithm delegates before reading resume_data_bra (round-5 seed b)', 'tenpy/simulations/time_evolution.py',
  "    def init_algorithm(self, **kwargs):\n        resume_data_bra = None\n", "    def init_algorithm(self, **kwargs):\n        super().init_algorithm(**kwargs)\n        resume_data_bra = None\n",
  'RESUME-read-before-consume')

M('C19', 'possible_multi_couplings does not re-wrap x0 after the boundary shift (round-5 seed a)', 'tenpy/models/lattice.py',
  "            lat_ijkl_shifted[:, :, 0] -= shift\n            lat_ijkl[:, :, 0] = np.mod(lat_ijkl_shifted[:, :, 0], Ls[0])\n", "            lat_ijkl_shifted[:, :, 0] -= shift\n",
  'GEOM-shift-rewrap')
M('C19', 'mps2lat_values sorts raw (possibly negative) axes (round-5 seed b)', 'tenpy/models/lattice.py',
  "            axes = [(ax + A.ndim if ax < 0 else ax) for ax in axes]\n            for ax in reversed(sorted(axes)):", "            for ax in sorted(axes, reverse=True):",
  'GEOM-axes-normalised')

M('C01', 'default new_axes from the position of the group in the argument (round-5 seed b)', NPC,
  "            first_cl = np.array([cl[0] for cl in combine_legs])\n            new_axes = [(np.sum(non_combined_legs < a) + np.sum(first_cl < a)) for a in first_cl]", "            new_axes = [(np.sum(non_combined_legs < cl[0]) + i) for i, cl in enumerate(combine_legs)]",
  'AXIS-default-order-free')

M('C20', 'original defect: emit iterates over the live listener list', EV,
  "        results = []\n        for _, callback, _, extra_kwargs in list(self.listeners):  # copy: a callback may (dis)connect", "        results = []\n        for _, callback, _, extra_kwargs in self.listeners:",
  'EV-emit-snapshot')
M('C20', 'original defect: decorator form of connect drops extra_kwargs', EV,
  "                self.connect(callback, priority, extra_kwargs)", "                self.connect(callback, priority)",
  'EV-decorator-forward')
M('C20', 'emit iterates over a tuple copy (twin)', EV,
  "        results = []\n        for _, callback, _, extra_kwargs in list(self.listeners):  # copy: a callback may (dis)connect", "        results = []\n        for _, callback, _, extra_kwargs in tuple(self.listeners):",
  None, expect='silent')

M('C05', 'original defect: qr(pos_diag_R) divides the diagonal of R by its magnitude', NPC,
  "            phase = np.where(is_zero, 1.0, r_diag / np.where(is_zero, 1.0, r_abs))", "            phase = r_diag / np.abs(r_diag)",
  'FACT-unit-phase')

M('C12', 'original defect: change_charge re-orders the basis without setting used_sort_charge', 'tenpy/networks/site.py',
  "            self.used_sort_charge = True  # dense operators in the standard basis need `perm` from now on\n", "",
  'SITE-perm-flag')

M('C19', 'original defect: IrregularLattice._ordering_irreg leaves the temporary _perm behind', 'tenpy/models/lattice.py',
  "            if perm_backup is not None:\n                self._perm = perm_backup  # only temporarily: `ordering` does not change the lattice\n", "",
  'GEOM-query-pure')

M('C20', 'original defect: Hdf5Storage.save does not overwrite an existing key', CA,
  "        if key in self.h5gr:\n            del self.h5gr[key]  # overwrite like the other storage classes\n", "",
  'ST-overwrite')
M('C20', 'original defect: Hdf5Storage.subcontainer is not registered with its parent', CA,
  "        res = Hdf5Storage(self.h5gr.create_group(name))\n        self._subcontainers.append(res)\n", "        res = Hdf5Storage(self.h5gr.create_group(name))\n",
  'ST-sub-registered')

M('C11', "original defect: from_Wflat permutes only the leg p of the W tensors", 'tenpy/networks/mpo.py',
  "                W = W[site.perm, :, :, :][:, site.perm, :, :]  # both physical legs 'p' and 'p*'", "                W = W[site.perm, :, :]",
  'PERM-both-legs')
M('C11', 'from_Wflat permutes both legs with np.ix_ (twin)', 'tenpy/networks/mpo.py',
  "                W = W[site.perm, :, :, :][:, site.perm, :, :]  # both physical legs 'p' and 'p*'", "                W = W[np.ix_(site.perm, site.perm)]",
  None, expect='silent')

M('C07', 'original defect: from_Bflat never canonicalises a one-site unit cell', 'tenpy/networks/mps.py',
  "        if (res.L > 1 or res.bc == 'infinite') and max(res.chi) > 1:", "        if res.L > 1 and max(res.chi) > 1:",
  'FORM-canonicalize-all-bonds')

M('C17', 'original defect: LegCharge.from_hdf5 (compact) reads the last row of a possibly empty array', CH,
  "            slices[1:] = blockcharges[:, 1]  # (works for a leg without any block as well)", "            slices[-1] = blockcharges[-1, 1]",
  'HDF5-empty-safe')
M('C17', 'MultiSpeciesLattice.from_hdf5 forgets N_species', 'tenpy/models/lattice.py',
  "        obj.simple_lattice = hdf5_loader.load(subpath + 'simple_lattice')\n        obj.N_species = hdf5_loader.load(subpath + 'N_species')\n", "        obj.simple_lattice = hdf5_loader.load(subpath + 'simple_lattice')\n",
  'HDF5-restore')

M('C17', 'original defect: MultiSpeciesLattice inherits the attribute-wise loader of Lattice', 'tenpy/models/lattice.py',
  "    def save_hdf5(self, hdf5_saver, h5gr, subpath):\n        \"\"\"Export `self` into a HDF5 file.\n\n        In addition to the data saved by :meth:`Lattice.save_hdf5`, it saves\n        :attr:`simple_lattice`, :attr:`N_species`, :attr:`species_names` and :attr:`simple_Lu`\n        under these names.\n        \"\"\"\n        super().save_hdf5(hdf5_saver, h5gr, subpath)\n        hdf5_saver.save(self.simple_lattice, subpath + 'simple_lattice')\n        hdf5_saver.save(self.N_species, subpath + 'N_species')\n        hdf5_saver.save(self.species_names, subpath + 'species_names')\n        hdf5_saver.save(self.simple_Lu, subpath + 'simple_Lu')\n\n    @classmethod\n    def from_hdf5(cls, hdf5_loader, h5gr, subpath):\n        \"\"\"Load instance from a HDF5 file; see :meth:`save_hdf5`.\"\"\"\n        obj = super().from_hdf5(hdf5_loader, h5gr, subpath)\n        obj.simple_lattice = hdf5_loader.load(subpath + 'simple_lattice')\n        obj.N_species = hdf5_loader.load(subpath + 'N_species')\n        obj.species_names = hdf5_loader.load(subpath + 'species_names')\n        obj.simple_Lu = hdf5_loader.load(subpath + 'simple_Lu')\n        return obj\n\n", '',
  'HDF5-inherited-loader')

M('C17', 'original defect: HelicalLattice.from_hdf5 rebuilds through __init__ and drops position_disorder', 'tenpy/models/lattice.py',
  "        if 'position_disorder' in h5gr:  # not derived in __init__\n            obj.position_disorder = hdf5_loader.load(subpath + 'position_disorder')\n        return obj\n", "        return obj\n",
  'HDF5-restore')
M('C17', 'twin: HelicalLattice.from_hdf5 reads position_disorder through a local key', 'tenpy/models/lattice.py',
  "        if 'position_disorder' in h5gr:  # not derived in __init__\n            obj.position_disorder = hdf5_loader.load(subpath + 'position_disorder')\n", "        key = 'position_disorder'\n        if key in h5gr:\n            obj.position_disorder = hdf5_loader.load(subpath + key)\n",
  None, expect='silent')

M('C17', 'original defect: UniformMPS.from_hdf5 does not bind diagonal_gauge', 'tenpy/networks/uniform_mps.py',
  "        obj.diagonal_gauge = False  # (the gauge of the saved C is not recorded: re-done on demand)\n", "",
  'HDF5-inherited-loader')
M('C17', 'original defect: MomentumMPS.from_hdf5 does not bind dtype', 'tenpy/networks/momentum_mps.py',
  "        obj.dtype = np.result_type(*(X.dtype for X in obj._X))\n", "",
  'HDF5-inherited-loader')

M('C17', 'original defect: MPS.save_hdf5 reduces the possibly empty list of bond dimensions', 'tenpy/networks/mps.py',
  "np.max(self.chi, initial=1)  # same (no non-trivial bond for a single site)", "np.max(self.chi)  # same",
  'HDF5-empty-safe')

M('C19', 'original defect: HelicalLattice.order setter keeps the cached MPS sites', 'tenpy/models/lattice.py',
  "        self._mps_fix_u = tuple(self._mps_fix_u)\n        self._mps_sites_cache = None\n\n    # the regular lattice has the same order", "        self._mps_fix_u = tuple(self._mps_fix_u)\n\n    # the regular lattice has the same order",
  'SETTER-invalidate')
M('C19', 'original defect: IrregularLattice.order setter keeps the cached MPS sites', 'tenpy/models/lattice.py',
  "            self.N_sites_per_ring = None\n        self._mps_sites_cache = None\n", "            self.N_sites_per_ring = None\n",
  'SETTER-invalidate')

M('C11', 'original defect: make_U_I orders the raw identity indices', 'tenpy/networks/mpo.py',
  "            IdL = IdL % U1.shape[1]  # (stored indices may count from the end, e.g. -1 after `+`)\n            IdR = IdR % U1.shape[1]\n", "",
  'ID-normalised')

M('C19', 'original defect: default add_positions of IrregularLattice allocated with lattice.dim columns', 'tenpy/models/lattice.py',
  "add_positions = np.zeros((len(add_unit_cell), regular_lattice.unit_cell_positions.shape[1]))", "add_positions = np.zeros((len(add_unit_cell), regular_lattice.dim))",
  'GEOM-position-space')

M('C02', 'original defect: iswapaxes re-binds _qdata to an F-contiguous column selection', NPC,
  "        self._qdata = np.array(self._qdata[:, swap], order='C')  # (column selection is F-contiguous)", "        self._qdata = self._qdata[:, swap]",
  'QDATA-contiguous')
M('C02', 'original defect: add_leg indexes the extended tensor with rank entries', NPC,
  "        slices = [slice(None, None)] * extended.rank  # (one more than self.rank: `axis` may be the last)", "        slices = [slice(None, None)] * self.rank",
  'INDEX-rank')

M('C02', 'original defect: speigs declares the eigenvectors with the dtype of the input', NPC,
  "            U = zeros([a.legs[0]], dtype=V_flat.dtype, qtotal=charge_sector)  # complex for non-hermitian `a`", "            U = zeros([a.legs[0]], dtype=a.dtype, qtotal=charge_sector)",
  'DTYPE-wrapped-block')

M('C02', 'original defect: from_ndarray compares block charges with the raw qtotal argument', NPC,
  "            res.qtotal = detect_qtotal(data_flat, legcharges, cutoff)\n        qtotal = res.qtotal  # valid charges: block charges are compared with it below\n", "            res.qtotal = qtotal = detect_qtotal(data_flat, legcharges, cutoff)\n",
  'CHARGE-valid-compare')

M('C16', 'original defect: FlatLinearOperator masks the sector with the raw charges of the leg', 'tenpy/linalg/sparse.py',
  "                charges = self.leg.chinfo.make_valid(self.leg.qconj * value)\n                self._mask = np.all(self.leg.to_qflat() == charges[np.newaxis, :], axis=1)", "                self._mask = np.all(self.leg.to_qflat() == value[np.newaxis, :], axis=1)",
  'WRAP-sector-direction')

M('C02', 'original defect: _eig_worker stores the eigenvector block without casting', NPC,
  "        resv._data[qi] = rv.astype(resv.dtype, copy=False)  # replace identity block (float32/complex64 input!)", "        resv._data[qi] = rv  # replace identity block",
  'DTYPE-block-store')

M('C10', 'original defect: multi_coupling_term_handle_JW overrides an explicit op_string', 'tenpy/networks/terms.py',
  "        if op_string is None and not any(op_needs_JW):", "        if not any(op_needs_JW):",
  'PARAM-explicit-kept')

M('C10', 'original defect: calc_H_MPO states the range of the coupling terms only', 'tenpy/models/model.py',
  "        if not edt.is_empty:\n            H_MPO.max_range = edt.max_range()  # exponentially decaying terms have infinite range\n", "",
  'RANGE-all-term-kinds')

M('C14', 'single-site TDVP: left-moving update forgets to normalise S', 'tenpy/algorithms/tdvp.py',
  "        renorm = npc.norm(S)\n        S /= renorm\n        self.psi.norm *= renorm\n        if i0 == 0:", "        renorm = npc.norm(S)\n        self.psi.norm *= renorm\n        if i0 == 0:",
  'NORM-renorm-use')
M('C14', 'twin: single-site TDVP normalises S by rebinding', 'tenpy/algorithms/tdvp.py',
  "        renorm = npc.norm(S)\n        S /= renorm\n        self.psi.norm *= renorm\n        A0 =", "        renorm = npc.norm(S)\n        S = S / renorm\n        self.psi.norm *= renorm\n        A0 =",
  None, expect='silent')

M('C10', 'twin: _insert_connection rebuilds the merged connection field by field', 'tenpy/networks/terms.py',
  "            self.connections[existing_counter] = new_connection[:3] + (updated_strength,)", "            self.connections[existing_counter] = (new_connection[0], new_connection[1], new_connection[2], updated_strength)",
  None, expect='silent')
M('C10', '_insert_connection compares two fields but takes over three', 'tenpy/networks/terms.py',
  "            if self.connections[c][:3] == new_connection[:3] and c in counters_right:", "            if self.connections[c][:2] == new_connection[:2] and c in counters_right:",
  'TERMS-merge-key')
M('C09', 'twin: roll_mps_unit_cell reduces the indices with np.mod', 'tenpy/networks/mps.py',
  "        valid_inds = inds % self.L\n", "        valid_inds = np.mod(inds, self.L)\n",
  None, expect='silent')
M('C09', 'roll_mps_unit_cell: sites and forms rolled with an independently computed index array', 'tenpy/networks/mps.py',
  "        valid_inds = inds % self.L\n", "        valid_inds = np.roll(np.arange(self.L), shift)\n",
  'REINDEX-congruent')
M('C17', 'MultiSpeciesLattice.from_hdf5 re-derives pairs after the base loader restored them', 'tenpy/models/lattice.py',
  "        obj.simple_Lu = hdf5_loader.load(subpath + 'simple_Lu')\n        return obj\n", "        obj.simple_Lu = hdf5_loader.load(subpath + 'simple_Lu')\n        obj.pairs = obj._generate_new_pairs()\n        return obj\n",
  'HDF5-no-overwrite')
M('C16', 'LanczosGroundState stores shifted-back Ritz values and run() removes the shift again', 'tenpy/linalg/krylov_based.py',
  "        if self.E_shift is not None:\n            E0 = E0 - self.E_shift\n", "        if self.E_shift is not None:\n            E0 = E0 - self.E_shift\n            self.Es = self.Es - self.E_shift\n",
  'KRYLOV-eshift')

M('C05', 'twin: _eigvals_worker unpacks the row index of the block', NPC,
  "        qi = qindices[0]  # both `a` and `resv` are sorted and share the same qindices\n        resw[a.legs[0].get_slice(qi)] = rw  # replace eigenvalues\n    return resw", "        qi, _ = qindices\n        resw[a.legs[0].get_slice(qi)] = rw  # replace eigenvalues\n    return resw",
  None, expect='silent')
M('C05', '_eigvals_worker slices the eigenvalues on the second leg', NPC,
  "        qi = qindices[0]  # both `a` and `resv` are sorted and share the same qindices\n        resw[a.legs[0].get_slice(qi)] = rw  # replace eigenvalues\n    return resw", "        qi = qindices[1]\n        resw[a.legs[1].get_slice(qi)] = rw  # replace eigenvalues\n    return resw",
  'FACT-eig-slot')

M('C01', 'twin: inner() names the sorting permutation differently and uses np.take', NPC,
  "        sort_axes_b = np.argsort(axes_b)\n        axes_a = [axes_a[i] for i in sort_axes_b]\n", "        order = np.argsort(axes_b)\n        axes_a = [axes_a[j] for j in order]\n",
  None, expect='silent')
M('C01', 'inner() re-orders axes_a with axes_b instead of argsort(axes_b)', NPC,
  "        sort_axes_b = np.argsort(axes_b)\n        axes_a = [axes_a[i] for i in sort_axes_b]\n", "        sort_axes_b = list(axes_b)\n        axes_a = [axes_a[i] for i in sort_axes_b]\n",
  'AXES-parallel-sort')
M('C15', 'twin: decompose_theta_qr_based names the norm of theta differently', 'tenpy/linalg/truncation.py',
  "        N_theta = npc.norm(theta)\n        eps = npc.norm(theta / N_theta - theta_approx * renormalization / N_theta) ** 2", "        nrm = npc.norm(theta)\n        eps = npc.norm(theta / nrm - theta_approx * renormalization / nrm) ** 2",
  None, expect='silent')
M('C15', 'eps of decompose_theta_qr_based normalised by the norm of the approximation', 'tenpy/linalg/truncation.py',
  "        N_theta = npc.norm(theta)\n", "        N_theta = npc.norm(theta_approx)\n",
  'TRUNC-eps-reference')
M('C18', 'twin: IterativeSweeps.run uses a positive flag for the checkpoint guard', 'tenpy/algorithms/mps_common.py',
  "        is_first_sweep = True\n        while True:\n            iteration_start_time = time.time()\n            if self.stopping_criterion(iteration_start_time=iteration_start_time):\n                break\n            if not is_first_sweep:\n                self.checkpoint.emit(self)\n            result = self.run_iteration()\n            self.status_update(iteration_start_time=iteration_start_time)\n            is_first_sweep = False\n", "        did_sweep = False\n        while True:\n            iteration_start_time = time.time()\n            if self.stopping_criterion(iteration_start_time=iteration_start_time):\n                break\n            if did_sweep:\n                self.checkpoint.emit(self)\n            result = self.run_iteration()\n            self.status_update(iteration_start_time=iteration_start_time)\n            did_sweep = True\n",
  None, expect='silent')
M('C18', 'IterativeSweeps.run emits the checkpoint unguarded', 'tenpy/algorithms/mps_common.py',
  "            if not is_first_sweep:\n                self.checkpoint.emit(self)\n", "            self.checkpoint.emit(self)\n",
  'RESUME-checkpoint-guard')

M('C11', 'MPO.group_sites advances the old index by the nominal group size', 'tenpy/networks/mpo.py',
  "            i += gs.n_sites\n", "            i += n\n",
  'GROUP-stride')
M('C09', 'MPS.group_sites fetches theta over the nominal group size', 'tenpy/networks/mps.py',
  "            new_B = self.get_theta(i, gs.n_sites, formL=B_form[0], formR=B_form[1])", "            new_B = self.get_theta(i, n, formL=B_form[0], formR=B_form[1])",
  'GROUP-stride')
M('C10', 'twin: NearestNeighborModel.group_sites names the group size', 'tenpy/models/model.py',
  "            old_Hb = self.H_bond[(i + gs.n_sites) % old_L]\n", "            size = gs.n_sites\n            old_Hb = self.H_bond[(i + size) % old_L]\n",
  None, expect='silent')

M('C05', 'twin: _eigvals_worker hoists the leg and names the slice', NPC,
  "        qi = qindices[0]  # both `a` and `resv` are sorted and share the same qindices\n        resw[a.legs[0].get_slice(qi)] = rw  # replace eigenvalues\n    return resw", "        leg0 = a.legs[0]\n        qi = qindices[0]\n        sl = leg0.get_slice(qi)\n        resw[sl] = rw  # replace eigenvalues\n    return resw",
  None, expect='silent')
M('C09', 'twin: roll_mps_unit_cell reduces the indices in a comprehension', 'tenpy/networks/mps.py',
  "        valid_inds = inds % self.L\n", "        valid_inds = [i % self.L for i in inds]\n",
  None, expect='silent')
M('C15', 'twin: decompose_theta_qr_based divides by the norm inline', 'tenpy/linalg/truncation.py',
  "        N_theta = npc.norm(theta)\n        eps = npc.norm(theta / N_theta - theta_approx * renormalization / N_theta) ** 2", "        eps = npc.norm((theta - theta_approx * renormalization) / npc.norm(theta)) ** 2",
  None, expect='silent')
M('C14', 'twin: single-site TDVP normalises S by multiplying with the inverse', 'tenpy/algorithms/tdvp.py',
  "        renorm = npc.norm(S)\n        S /= renorm\n        self.psi.norm *= renorm\n        A0 =", "        renorm = npc.norm(S)\n        S *= 1 / renorm\n        self.psi.norm *= renorm\n        A0 =",
  None, expect='silent')
M('C01', 'twin: inner() sorts axes_a through np.asarray', NPC,
  "        sort_axes_b = np.argsort(axes_b)\n        axes_a = [axes_a[i] for i in sort_axes_b]\n", "        axes_a = list(np.asarray(axes_a)[np.argsort(np.asarray(axes_b))])\n",
  None, expect='silent')

# ---------------------------------------------------------------- C16 / C19
M('C16', 'GMRES restart: relative residual norm used for normalisation (round-3 seed b)', KRY,
  """        self.total_error.append([npc.norm(self.rs[-1]) / self.b_norm])
        self.r_norm = npc.norm(self.rs[-1])
""", """        self.r_norm = npc.norm(self.rs[-1]) / self.b_norm
        self.total_error.append([self.r_norm])
""", 'KRYLOV-restart')
M('C16', 'GMRES restart: e1 not rescaled', KRY,
  """        self.e1[0] = 1
        self.e1.iscale_prefactor(self.r_norm)

        self.H = npc.Array.from_ndarray_trivial(np.zeros((self.N_max + 1, self.N_max)) * 1.0j)


class Arnoldi""", """        self.e1[0] = 1

        self.H = npc.Array.from_ndarray_trivial(np.zeros((self.N_max + 1, self.N_max)) * 1.0j)


class Arnoldi""", 'KRYLOV-restart')
M('C16', 'GMRES restart: norm computed once into a local (equivalent)', KRY,
  """        self.total_error.append([npc.norm(self.rs[-1]) / self.b_norm])
        self.r_norm = npc.norm(self.rs[-1])
""", """        r_norm = npc.norm(self.rs[-1])
        self.total_error.append([r_norm / self.b_norm])
        self.r_norm = r_norm
""", None, expect='silent')
M('C16', 'gram_schmidt keeps vectors below rcond', KRY,
  "        if n > rcond:\n            iscale_prefactor(vec, 1.0 / n)\n            res.append(vec)",
  "        iscale_prefactor(vec, 1.0 / n)\n        res.append(vec)", 'KRYLOV-gram-schmidt')
M('C16', 'gram_schmidt projects with unconjugated overlap', KRY,
  "ov = npc.inner(other, vec, 'range', do_conj=True)", "ov = npc.inner(other, vec, 'range', do_conj=False)",
  'KRYLOV-gram-schmidt')
M('C16', 'alpha from unconjugated overlap', KRY,
  "alpha = np.real(npc.inner(w, self._cache[-1], axes='range', do_conj=True)).item()",
  "alpha = np.real(npc.inner(w, self._cache[-1], axes='range', do_conj=False)).item()", 'KRYLOV-ritz')
M('C16', 'beta stored on one off-diagonal only', KRY,
  "h[k, k + 1] = h[k + 1, k] = beta", "h[k, k + 1] = beta", 'KRYLOV-coefficients')
M('C16', 'Arnoldi keeps the basis of the previous run (original defect)', KRY,
  "        self._cache = []  # drop the basis of a previous run()\n", '', 'KRYLOV-cache-reset')
M('C16', 'cache emptied only when a rebuild is needed (seed a)', KRY,
  """        self._cache = []  # free memory: we need at least two more vectors

        self._rebuild_krylov_for_result_full(psif, N - len_cache - 1)
""", """        N_missing = N - len_cache - 1
        if N_missing > 0:
            self._cache = []
            self._rebuild_krylov_for_result_full(psif, N_missing)
""", None, expect='silent')   # no longer a defect: _build_krylov empties the cache first (fix 1a53206)
M('C16', 'named rebuild count is an equivalent refactoring', KRY,
  """        self._rebuild_krylov_for_result_full(psif, N - len_cache - 1)
""", """        N_missing = N - 1 - len_cache
        self._rebuild_krylov_for_result_full(psif, N_missing)
""", None, 'silent')
M('C16', 'rebuild count off by one', KRY,
  'self._rebuild_krylov_for_result_full(psif, N - len_cache - 1)',
  'self._rebuild_krylov_for_result_full(psif, N - len_cache)', 'KRYLOV-coefficients')
M('C16', 'cached vectors paired with shifted coefficients', KRY,
  'self.iadd_prefactor_other(psif, vf[N - k], self._cache[-k])',
  'self.iadd_prefactor_other(psif, vf[N - k - 1], self._cache[-k])', 'KRYLOV-coefficients')
M('C16', 'len_cache measured after emptying the cache', KRY,
  """        len_cache = len(self._cache)
        # and the last len_cache vectors have been cached
        for k in range(1, min(len_cache + 1, N)):
            self.iadd_prefactor_other(psif, vf[N - k], self._cache[-k])
        # other vectors are not cached, so we need to restart the Lanczos iteration.
        self._cache = []  # free memory: we need at least two more vectors
""", """        for k in range(1, min(len(self._cache) + 1, N)):
            self.iadd_prefactor_other(psif, vf[N - k], self._cache[-k])
        # other vectors are not cached, so we need to restart the Lanczos iteration.
        self._cache = []  # free memory: we need at least two more vectors
        len_cache = len(self._cache)
""", 'KRYLOV-coefficients')
M('C16', 'Arnoldi Ritz vector accumulated into the first basis vector (seed b)', KRY,
  """            if isinstance(self.psi0, npc.Array):
                psi = vf[0] * krylov_basis[0]  # copy!
            else:
                assert isinstance(self.psi0, list)
                psi = [p * vf[0] for p in krylov_basis[0]]
""", """            psi = krylov_basis[0]
            self.iscale_prefactor(psi, vf[0])
""", 'KRYLOV-cache-readonly')
M('C16', 'rebuild forgets second-last vector', KRY,
  """            elif k > 0:
                self.iadd_prefactor_other(w, -beta, self._cache[-2])  # noqa: F821
            beta = h[k, k + 1]  # = norm(w)""", """            beta = h[k, k + 1]  # = norm(w)""",
  'KRYLOV-recurrence')
M('C16', 'rebuild reads beta from wrong element', KRY, '            beta = h[k, k + 1]  # = norm(w)',
  '            beta = h[k + 1, k + 1]  # = norm(w)', 'KRYLOV-coefficients')
M('C16', 'shift adjoint not conjugated', SPARSE,
  'return ShiftNpcLinearOperator(self.orig_operator.adjoint(), np.conj(self.shift))',
  'return ShiftNpcLinearOperator(self.orig_operator.adjoint(), self.shift)', 'WRAP-adjoint')
M('C16', 'E_shift not removed from the energy', KRY, """        if self.E_shift is not None:
            E0 -= self.E_shift
        if N == 1:
            return E0, self.psi0.copy(), N""", """        if N == 1:
            return E0, self.psi0.copy(), N""", 'KRYLOV-eshift')
M('C16', 'orthogonal operator projects only once', SPARSE,
  "        for o in self.ortho_vecs[::-1]:  # reverse: more obviously Hermitian.\n",
  "        for o in []:\n", 'WRAP-orthogonal')
M('C19', 'square next-nearest neighbours wrong', 'tenpy/models/lattice.py',
  'nNN = [(0, 0, np.array([1, 1])), (0, 0, np.array([1, -1]))]\n        nnNN = [(0, 0, np.array([2, 0]))',
  'nNN = [(0, 0, np.array([1, 1])), (0, 0, np.array([-1, -1]))]\n        nnNN = [(0, 0, np.array([2, 0]))',
  'GEOM-neighbors')
M('C19', 'honeycomb NN typo', 'tenpy/models/lattice.py',
  'NN = [(0, 1, np.array([0, 0])), (1, 0, np.array([1, 0])), (1, 0, np.array([0, 1]))]',
  'NN = [(0, 1, np.array([0, 0])), (1, 0, np.array([1, 0])), (1, 0, np.array([1, 1]))]',
  'GEOM-neighbors')
M('C19', 'triangular basis changed', 'tenpy/models/lattice.py',
  'basis = np.array([[sqrt3_half, 0.5], [0.0, 1.0]])', 'basis = np.array([[sqrt3_half, -0.5], [0.0, 1.0]])',
  'GEOM-neighbors')
