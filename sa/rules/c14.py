"""C14 — time evolution: time and error accounting (R-ACCOUNT, R-TROTTER, R-ERRFLOW, time-argument
tables of TEBD / ExpMPO / TDVP). Does not decide convergence order or conservation."""
import ast

from ..core import (AnalysisError, body_nodes, call_name, closure, depends_on, dotted, in_loop, is_self_attr,
                    key_text, local_defs, names_in, params, parent, stmts_of, unparse)
from ..dtable import UNKNOWN, run_paths, subst, to_ast
from ..normal import _dc, inline_temps
from ..pattern import find, guards_of, pmatch
from ..flow import check_errflow
from ..linform import C, NotPoly, Poly, eval_poly

ALG = 'tenpy/algorithms/algorithm.py'
TEBD = 'tenpy/algorithms/tebd.py'
TDVP = 'tenpy/algorithms/tdvp.py'
EXPMPO = 'tenpy/algorithms/mpo_evolution.py'


def _stores(f, attr):
    out = []
    for st in stmts_of(f):
        if isinstance(st, ast.Assign):
            if any(is_self_attr(t, attr) for t in st.targets):
                out.append(st)
        elif isinstance(st, ast.AugAssign) and is_self_attr(st.target, attr):
            out.append(st)
    return out


def check_account(prog, rep, tier):
    ct = prog.classtable()
    base = ct.get('TimeEvolutionAlgorithm')
    cone = ct.cone(base)
    table = []
    for cls in sorted(cone, key=lambda c: c.name):
        rep.unit(cls.module)
        o_run, f_run = ct.resolve_method(cls, 'run_evolution')
        o_ev, f_ev = ct.resolve_method(cls, 'evolve')
        if f_run is None or f_ev is None:
            raise AnalysisError('%s: run_evolution/evolve not resolvable' % cls.name)
        clo = closure(ct, cls, 'run_evolution')
        for attr, what in (('trunc_err', 'error'), ('evolved_time', 'time')):
            storing = []
            for owner, f, chain in clo:
                if f.name in ('__init__', ):
                    continue
                for st in _stores(f, attr):
                    storing.append((owner, f, chain, st))
            funcs = sorted({'%s.%s' % (o.name, f.name) for o, f, _, _ in storing})
            row = {'class': cls.name, 'attr': attr,
                   'run_evolution': '%s.run_evolution' % o_run.name,
                   'evolve': '%s.evolve' % o_ev.name, 'accumulated_in': funcs}
            table.append(row)
            rep.instance('ACCOUNT-' + attr, row)
            mod = cls.module
            if len(funcs) == 0:
                rep.violation(
                    'ACCOUNT-' + attr, o_run.module, '%s.run_evolution' % o_run.name,
                    'never-accumulated:%s:%s' % (cls.name, attr),
                    'for engine %s no function on the run path (%s -> %s) adds to self.%s: the '
                    'engine reports %s' %
                    (cls.name, row['run_evolution'], row['evolve'], attr,
                     'zero truncation error whatever it truncates' if attr == 'trunc_err' else
                     'a constant evolved time'), f_run.lineno)
                continue
            if len(funcs) > 1:
                o, f, chain, st = storing[-1]
                rep.violation(
                    'ACCOUNT-' + attr, o.module, '%s.%s' % (o.name, f.name),
                    'double-accumulation:%s:%s' % (cls.name, attr),
                    'for engine %s both %s add to self.%s on one run(): every step %s is counted '
                    '%d times' % (cls.name, ' and '.join(funcs), attr, what, len(funcs)),
                    st.lineno)
                continue
            # exactly one storing function: check the shape of the accumulation
            for owner, f, chain, st in storing:
                q = '%s.%s' % (owner.name, f.name)
                val = st.value
                if isinstance(st, ast.AugAssign):
                    okform = isinstance(st.op, ast.Add)
                    inc = st.value
                else:
                    okform = isinstance(val, ast.BinOp) and isinstance(val.op, ast.Add) and (
                        is_self_attr(val.left, attr) or is_self_attr(val.right, attr))
                    inc = None
                    if okform:
                        inc = val.right if is_self_attr(val.left, attr) else val.left
                if not okform:
                    rep.violation('ACCOUNT-' + attr, owner.module, q, 'not-additive:' + attr,
                                  '`%s` does not add an increment to the previous self.%s' %
                                  (key_text(st), attr), st.lineno)
                    continue
                if attr == 'evolved_time':
                    _check_time_increment(rep, owner, f, q, st, inc)
                else:
                    _check_err_increment(rep, ct, cls, owner, f, q, st, inc)
    # stepping methods outside the run path (TEBDEngine.update_imag is only reached from run_GS)
    # advance the clock by the same rule
    seen = set()
    for cls in sorted(cone, key=lambda c: c.name):
        on_path = {id(f) for _, f, _ in closure(ct, cls, 'run_evolution')}
        for name, f in cls.methods.items():
            if id(f) in on_path or id(f) in seen or name == '__init__':
                continue
            seen.add(id(f))
            for st in _stores(f, 'evolved_time'):
                val = st.value
                q = '%s.%s' % (cls.name, name)
                if isinstance(st, ast.AugAssign) and isinstance(st.op, ast.Add):
                    inc = st.value
                elif isinstance(val, ast.BinOp) and isinstance(val.op, ast.Add) and (
                        is_self_attr(val.left, 'evolved_time') or
                        is_self_attr(val.right, 'evolved_time')):
                    inc = val.right if is_self_attr(val.left, 'evolved_time') else val.left
                else:
                    continue      # a reset / restore, not an advance
                rep.instance('ACCOUNT-evolved_time', {'class': cls.name, 'off_run_path': q,
                                                      'increment': unparse(inc)})
                _check_time_increment(rep, cls, f, q, st, inc)
    rep.extra['account_table'] = table
    return table


def _check_time_increment(rep, owner, f, q, st, inc):
    """increment must be N_steps * <step>, outside loops, step in the accepted table"""
    m = owner.module
    if in_loop(st, f):
        rep.violation('ACCOUNT-evolved_time', m, q, 'time-increment-in-loop',
                      '`%s` sits inside a loop: the time of N_steps steps is added more than once'
                      % key_text(st), st.lineno)
        return
    try:
        # named intermediate values (`time_evolved = N_steps * dt`) are resolved; parameters and
        # names bound more than once stay symbols
        from ..core import local_defs
        ld = {k: v[0] for k, v in local_defs(f).items() if len(v) == 1 and k not in params(f)}
        p = _poly_of(inc, ld, {})
    except NotPoly:
        rep.violation('ACCOUNT-evolved_time', m, q, 'time-increment-shape',
                      'cannot read `%s` as N_steps * step' % unparse(inc), st.lineno)
        return
    pm = params(f)
    nname = pm[1] if len(pm) > 1 else 'N_steps'
    accepted = ['dt', 'self.dt', "self._U_param['tau']"]
    ok = False
    for stp in accepted:
        if p == Poly.sym(nname) * Poly.sym(stp):
            ok = True
            step = stp
    if not ok:
        rep.violation('ACCOUNT-evolved_time', m, q, 'time-increment-value',
                      'evolved time is advanced by `%s`; expected %s * (dt | self.dt | '
                      "self._U_param['tau']): the advertised time differs from steps x step" %
                      (unparse(inc), nname), st.lineno)
        return
    if step == 'self.dt':
        # self.dt must be assigned from the parameter dt earlier in the same function
        okdt = any(isinstance(s, ast.Assign) and any(is_self_attr(t, 'dt') for t in s.targets)
                   and unparse(s.value) == pm[2] for s in stmts_of(f))
        if not okdt:
            rep.violation('ACCOUNT-evolved_time', m, q, 'self.dt-not-from-dt',
                          'self.dt used as the step is not set from the parameter `%s` in %s' %
                          (pm[2], q), st.lineno)
    if step == 'dt' and (len(pm) < 3 or pm[2] != 'dt'):
        rep.violation('ACCOUNT-evolved_time', m, q, 'dt-not-parameter',
                      '`dt` in the time increment is not the step parameter', st.lineno)


def _check_err_increment(rep, ct, cls, owner, f, q, st, inc):
    """the increment must carry the errors of the steps performed"""
    m = owner.module
    defs = local_defs(f)
    # names that receive results of stepping calls
    producers = ('evolve', 'evolve_step', 'update_bond', 'update_bond_imag', 'update_step',
                 'sweep', 'apply')
    srcs = set()
    for c in body_nodes(f):
        if isinstance(c, ast.Call) and isinstance(c.func, ast.Attribute) and \
                c.func.attr in producers:
            st2 = c
            while not isinstance(st2, ast.stmt):
                st2 = parent(st2)
            if isinstance(st2, ast.AugAssign) and isinstance(st2.target, ast.Name):
                srcs.add(st2.target.id)
            elif isinstance(st2, ast.Assign):
                for t in st2.targets:
                    if isinstance(t, ast.Name):
                        srcs.add(t.id)
                        # rebinding inside a loop loses earlier steps
                        if in_loop(st2, f):
                            rep.violation('ACCOUNT-trunc_err', m, q, 'rebind-in-loop',
                                          '`%s` rebinds the accumulator inside the step loop: '
                                          'only the last step is counted' % key_text(st2),
                                          st2.lineno)
    # TDVP: errors come from self.trunc_err_list
    for n in body_nodes(f):
        if isinstance(n, ast.For) and 'trunc_err_list' in unparse(n.iter):
            for s2 in ast.walk(n):
                if isinstance(s2, ast.AugAssign) and isinstance(s2.target, ast.Name):
                    srcs.add(s2.target.id)
    if not srcs or not depends_on(f, inc, srcs, defs):
        rep.violation('ACCOUNT-trunc_err', m, q, 'increment-not-from-steps',
                      'the value added to self.trunc_err (`%s`) does not depend on the errors '
                      'returned by the evolution steps' % unparse(inc), st.lineno)


def check_run_evolution_flow(prog, rep):
    """In every run_evolution implementation the result of self.evolve(...) must not be dropped
    unless evolve itself stores (decided per class by ACCOUNT); here: per implementation, the
    local accumulator that receives evolve() results must be *used* after the loop."""
    ct = prog.classtable()
    base = ct.get('TimeEvolutionAlgorithm')
    for cls in ct.cone(base):
        f = cls.methods.get('run_evolution')
        if f is None:
            continue
        q = '%s.run_evolution' % cls.name
        rep.instance('ACCOUNT-run-flow', {'function': q})
        # preserve_norm: old_norm saved before, restored after the evolution
        saves = [s for s in stmts_of(f) if isinstance(s, ast.Assign) and
                 unparse(s.value) == 'self.psi.norm']
        restores = [s for s in stmts_of(f) if isinstance(s, ast.Assign) and any(
            unparse(t) == 'self.psi.norm' for t in s.targets)]
        evs = [c for c in body_nodes(f) if isinstance(c, ast.Call) and
               dotted(c.func) == 'self.evolve']
        if not evs:
            rep.violation('ACCOUNT-run-flow', cls.module, q, 'no-evolve-call',
                          'run_evolution never calls self.evolve', f.lineno)
            continue
        if saves and restores:
            if not (saves[0].lineno < evs[0].lineno < restores[-1].lineno):
                rep.violation('ACCOUNT-run-flow', cls.module, q, 'norm-restore-order',
                              'psi.norm must be saved before and restored after the evolution',
                              f.lineno)
        # evolve called with N total steps
        pm = params(f)
        for c in evs:
            if in_loop(c, f):
                # loop over range(N_steps) with evolve(1, dt)
                lp = parent(c)
                while not isinstance(lp, (ast.For, ast.While)):
                    lp = parent(lp)
                ok = isinstance(lp, ast.For) and unparse(lp.iter) == 'range(%s)' % pm[1] and \
                    c.args and unparse(c.args[0]) == '1' and unparse(c.args[1]) == pm[2]
            else:
                ok = len(c.args) >= 2 and unparse(c.args[0]) == pm[1] and \
                    unparse(c.args[1]) == pm[2]
            if not ok:
                rep.violation('ACCOUNT-run-flow', cls.module, q, 'evolve-args',
                              '`%s` does not perform %s steps of %s in total' %
                              (unparse(c), pm[1], pm[2]), c.lineno)
        # prepare_evolve(dt) before evolve
        pe = [c for c in body_nodes(f) if isinstance(c, ast.Call) and
              dotted(c.func) == 'self.prepare_evolve']
        if not pe or pe[0].lineno > evs[0].lineno or unparse(pe[0].args[0]) != pm[2]:
            rep.violation('ACCOUNT-run-flow', cls.module, q, 'prepare-evolve',
                          'prepare_evolve(%s) must precede evolve' % pm[2], f.lineno)


# ------------------------------------------------------------------------------------------------
# Suzuki-Trotter tables


def _order_values(f):
    """constants the parameter `order` is compared with"""
    vals = []
    for n in ast.walk(f):
        if isinstance(n, ast.Compare) and len(n.ops) == 1:
            a, b = n.left, n.comparators[0]
            for x, y in ((a, b), (b, a)):
                if isinstance(x, ast.Name) and x.id == 'order' and isinstance(y, ast.Constant):
                    if y.value not in vals:
                        vals.append(y.value)
                if isinstance(x, ast.Name) and x.id == 'order' and isinstance(
                        y, (ast.Tuple, ast.List)):
                    for e in y.elts:
                        if isinstance(e, ast.Constant) and e.value not in vals:
                            vals.append(e.value)
    return vals


def _body(f):
    return [s for s in f.body if not (isinstance(s, ast.Expr) and isinstance(s.value, ast.Constant))]


def _single_return(f, order, what, substitute=False):
    """the one path of `f` for this value of `order` (decision table over the order); the
    degenerate N_steps == 0 early exit is not the path of interest"""
    paths = run_paths(_body(f), {'N_steps == 0': False}, {'order': order}, substitute=substitute)
    rets = [p for p in paths if p.outcome == 'return']
    if len(paths) != 1 or len(rets) != 1:
        raise AnalysisError('%s: order %r does not select exactly one returning path (%s)' %
                            (what, order, [p.outcome for p in paths]))
    return rets[0]


def _poly_of(expr, env, memo, stack=()):
    """Poly of an expression; local names are resolved through the path environment, numeric
    literals bound to a name and non-polynomial definitions stay opaque symbols (exact
    cancellation is what is decided, not floating-point values)"""
    class R(dict):
        def __contains__(self, k):
            return True

        def __getitem__(self, nm):
            if nm in memo:
                return memo[nm]
            v = env.get(nm, UNKNOWN)
            if v is UNKNOWN or nm in stack:
                r = Poly.sym(nm)
            elif not isinstance(v, ast.AST):
                r = Poly.sym(nm)            # a named literal: opaque
            else:
                try:
                    r = _poly_of(v, env, memo, stack + (nm, ))
                except NotPoly:
                    r = Poly.sym(nm)
            memo[nm] = r
            return r

    return eval_poly(expr, R())


def _time_steps(f, order):
    p = _single_return(f, order, 'suzuki_trotter_time_steps')
    val = p.value
    if isinstance(val, ast.Name) and isinstance(p.env.get(val.id), ast.AST):
        val = p.env[val.id]
    if not isinstance(val, (ast.List, ast.Tuple)):
        raise AnalysisError('suzuki_trotter_time_steps: return is not a list literal')
    memo = {}
    return [_poly_of(e, p.env, memo) for e in val.elts]


def _resolve_lists(expr, env, depth=0):
    """the schedule expression with local names replaced by what the path bound them to"""
    if depth > 20:
        raise AnalysisError('schedule expression too deep')

    class S(ast.NodeTransformer):
        def visit_Name(self, node):
            if isinstance(node.ctx, ast.Load) and node.id in env and node.id != 'N_steps':
                v = env[node.id]
                if isinstance(v, ast.AST):
                    return _resolve_lists(v, env, depth + 1)
                c = to_ast(v)
                if c is not None:
                    return c
            return node

    return ast.fix_missing_locations(S().visit(_dc(expr)))


def _list_counts(node, env, lists):
    """multiset of schedule entries as {(idx, parity): Poly in N_steps}"""
    if isinstance(node, ast.List):
        out = {}
        for e in node.elts:
            if isinstance(e, ast.Name) and e.id in env:
                k = env[e.id]
            elif isinstance(e, ast.Tuple):
                k = _entry(e, env)
            else:
                raise AnalysisError('schedule entry %s not understood' % unparse(e))
            out[k] = out.get(k, Poly.const(0)) + Poly.const(1)
        return out
    if isinstance(node, ast.Name) and node.id in lists:
        return dict(lists[node.id])
    if isinstance(node, ast.BinOp) and isinstance(node.op, ast.Add):
        a = _list_counts(node.left, env, lists)
        b = _list_counts(node.right, env, lists)
        for k, v in b.items():
            a[k] = a.get(k, Poly.const(0)) + v
        return a
    if isinstance(node, ast.BinOp) and isinstance(node.op, ast.Mult):
        try:
            a = _list_counts(node.left, env, lists)
            n = eval_poly(node.right, {})
        except (AnalysisError, NotPoly):
            a = _list_counts(node.right, env, lists)
            n = eval_poly(node.left, {})
        return {k: v * n for k, v in a.items()}
    raise AnalysisError('schedule expression %s not understood' % unparse(node))


def _entry(t, env):
    if len(t.elts) != 2:
        raise AnalysisError('schedule entry %s is not a pair' % unparse(t))
    i, p = t.elts
    if not isinstance(i, ast.Constant):
        raise AnalysisError('schedule entry index %s' % unparse(i))
    if isinstance(p, ast.Name) and p.id in env:
        pv = env[p.id]
    elif isinstance(p, ast.Constant):
        pv = p.value
    else:
        raise AnalysisError('schedule parity %s' % unparse(p))
    return (i.value, pv)


def check_trotter(prog, rep):
    m = prog.module(TEBD)
    rep.unit(m)
    fts = m.func('TEBDEngine.suzuki_trotter_time_steps')
    fdec = m.func('TEBDEngine.suzuki_trotter_decomposition')
    steps = {o: _time_steps(fts, o) for o in _order_values(fts)}
    decs = {}
    for o in _order_values(fdec):
        p = _single_return(fdec, o, 'suzuki_trotter_decomposition', substitute=True)
        env0 = {k: v for k, v in p.env.items() if not isinstance(v, ast.AST)}
        if env0.get('even') != 0 or env0.get('odd') != 1:
            # evolve_step starts at bond int(odd) % 2
            rep.violation('TROTTER-sum', m, 'TEBDEngine.suzuki_trotter_decomposition',
                          'parity-names', '`even, odd` are not (0, 1): evolve_step would update '
                          'the wrong bond family', fdec.lineno)
        decs[o] = _list_counts(_resolve_lists(p.value, p.env), {}, {})
    if set(steps) != set(decs):
        rep.violation('TROTTER-sum', m, 'TEBDEngine.suzuki_trotter_decomposition', 'orders-differ',
                      'orders with time steps %s differ from orders with a schedule %s' %
                      (sorted(map(str, steps)), sorted(map(str, decs))), fdec.lineno)
    N = Poly.sym('N_steps')
    obligations = 0
    discharged = 0
    for o in sorted(set(steps) & set(decs), key=str):
        d = steps[o]
        for parity, pname in ((0, 'even'), (1, 'odd')):
            obligations += 1
            total = Poly.const(0)
            bad_idx = None
            for (j, p), cnt in decs[o].items():
                if p != parity:
                    continue
                if not (0 <= j < len(d)):
                    bad_idx = j
                    continue
                total = total + cnt * d[j]
            desc = {'order': str(o), 'family': pname, 'sum': repr(total)}
            rep.instance('TROTTER-sum', desc)
            if bad_idx is not None:
                rep.violation('TROTTER-sum', m, 'TEBDEngine.suzuki_trotter_decomposition',
                              'index-out-of-table:%s:%s' % (o, pname),
                              'schedule of order %r uses time-step index %d but the table has %d '
                              'entries' % (o, bad_idx, len(d)), fdec.lineno)
                continue
            if total == N:
                discharged += 1
            else:
                rep.violation(
                    'TROTTER-sum', m, 'TEBDEngine.suzuki_trotter_decomposition',
                    'sum:%s:%s' % (o, pname),
                    'order %r, %s bonds: the scheduled time steps sum to [%r] instead of N_steps; '
                    'residual [%r] (units of delta_t): the evolution on these bonds does not '
                    'compose to N_steps*dt' % (o, pname, total, total - N), fdec.lineno)
    rep.extra['trotter'] = {'obligations': obligations, 'discharged': discharged,
                            'orders': sorted(map(str, steps))}
    # orders accepted by the two tables also raise for unknown orders
    for f in (fts, fdec):
        rep.instance('TROTTER-unknown-order', {'function': f.name})
        paths = run_paths(_body(f), {'N_steps == 0': False}, {'order': '<no such order>'},
                          substitute=False)
        if not paths or any(p.outcome != 'raise' for p in paths):
            rep.violation('TROTTER-unknown-order', m, 'TEBDEngine.' + f.name, 'no-raise',
                          'unknown order falls through without ValueError', f.lineno)
    return obligations, discharged


def _exponent_poly(e):
    """polynomial of the expm argument with the combined two-site Hamiltonian as symbol H2"""
    class R(ast.NodeTransformer):
        def visit_Call(self, node):
            if isinstance(node.func, ast.Attribute) and node.func.attr == 'combine_legs':
                return ast.Name('H2', ast.Load())
            return self.generic_visit(node)

    return eval_poly(ast.fix_missing_locations(R().visit(_dc(e))), {})


def check_tebd_tables(prog, rep):
    m = prog.module(TEBD)
    # calc_U: tau table; _calc_U_bond: prefactor table; consistency prefactor = -1j*tau/delta_t*dt
    f = m.func('TEBDEngine.calc_U')
    g = m.func('TEBDEngine._calc_U_bond')
    tau = {}
    pref = {}
    for te in ('real', 'imag'):
        # calc_U: value stored under the key 'tau' on the path selected by type_evo
        for p in run_paths(_body(f), {}, {'type_evo': te}):
            for st in p.trace:
                v = None
                if isinstance(st, ast.Assign):
                    for t in st.targets:
                        if isinstance(t, ast.Subscript) and isinstance(t.slice, ast.Constant) and \
                                t.slice.value == 'tau':
                            v = st.value
                    if isinstance(st.value, ast.Dict):
                        for k, val in zip(st.value.keys, st.value.values):
                            if isinstance(k, ast.Constant) and k.value == 'tau':
                                v = val
                    if isinstance(st.value, ast.Call) and call_name(st.value) == 'dict':
                        for k in st.value.keywords:
                            if k.arg == 'tau':
                                v = k.value
                if v is not None:
                    try:
                        tau[te] = eval_poly(subst(v, {k: x for k, x in p.env.items()
                                                      if k not in params(f)}), {})
                    except NotPoly:
                        pass
        # _calc_U_bond: the exponent handed to expm on the path selected by type_evo
        for p in run_paths(_body(g), {'h is None': False, 'E_offset is not None': False},
                           {'type_evo': te}):
            if p.outcome != 'return':
                continue
            for st in p.trace:
                if isinstance(st, ast.Assign) and isinstance(st.value, ast.Call) and \
                        dotted(st.value.func) == 'npc.expm' and st.value.args:
                    arg = st.value.args[0]
                    e = p.env.get(arg.id) if isinstance(arg, ast.Name) else arg
                    if isinstance(e, ast.AST):
                        try:
                            pref[te] = _exponent_poly(e)
                        except NotPoly:
                            pass
    if set(tau) != {'real', 'imag'} or set(pref) != {'real', 'imag'}:
        raise AnalysisError('TEBD tau/prefactor tables not found (tau=%s pref=%s)' %
                            (sorted(tau), sorted(pref)))
    pm = params(f)
    delta = Poly.sym(pm[2])
    for te in ('real', 'imag'):
        rep.instance('TEBD-tau-prefactor', {'type_evo': te, 'tau': repr(tau[te]),
                                            'exponent': repr(pref[te])})
        # exponent must be -1j * (tau/delta_t) * dt * H2
        if not tau[te].symbols() == {pm[2]}:
            rep.violation('TEBD-tau-prefactor', m, 'TEBDEngine.calc_U', 'tau:' + te,
                          'tau for %s evolution is [%r], not a multiple of delta_t' %
                          (te, tau[te]), f.lineno)
            continue
        ratio = tau[te].coeff(pm[2])
        want = Poly({('H2', 'dt'): C(0, -1) * ratio})
        if pref[te] != want:
            rep.violation('TEBD-tau-prefactor', m, 'TEBDEngine._calc_U_bond', 'exponent:' + te,
                          'the gate exponent for %s evolution is [%r]; with tau=[%r] the engine '
                          'advertises exp(-i*tau*H), i.e. exponent [%r]' %
                          (te, pref[te], tau[te], want), g.lineno)
    # _U index alignment: built in the order of suzuki_trotter_time_steps(order), scaled by delta_t
    rep.instance('TEBD-U-index', {})
    ok = False
    for st in ast.walk(f):
        if isinstance(st, ast.For) and isinstance(st.iter, ast.Call) and \
                dotted(st.iter.func) == 'self.suzuki_trotter_time_steps' and \
                [unparse(a) for a in st.iter.args] == [pm[1]]:
            var = unparse(st.target)
            calls = [c for c in ast.walk(st) if isinstance(c, ast.Call) and
                     dotted(c.func) == 'self._calc_U_bond']
            # the table is `self._U` itself or a local list published as `self._U = <local>`
            tabs = {'self._U'} | {unparse(a.value) for a in ast.walk(f) if isinstance(
                a, ast.Assign) and [unparse(t) for t in a.targets] == ['self._U'] and isinstance(
                    a.value, ast.Name) and a.lineno > st.lineno}
            app = [c for c in ast.walk(st) if isinstance(c, ast.Call) and isinstance(
                c.func, ast.Attribute) and c.func.attr == 'append' and
                   unparse(c.func.value) in tabs]
            for c in calls:
                try:
                    p = eval_poly(c.args[1], {})
                except (NotPoly, IndexError):
                    continue
                if p == Poly.sym(var) * delta and app:
                    ok = True
    if not ok:
        # comprehension form: [[.. _calc_U_bond(i, t * delta_t, ..) ..] for t in steps(order)]
        for lc in ast.walk(f):
            if isinstance(lc, ast.ListComp) and len(lc.generators) == 1 and isinstance(
                    lc.generators[0].iter, ast.Call) and dotted(
                        lc.generators[0].iter.func) == 'self.suzuki_trotter_time_steps' and \
                    [unparse(a) for a in lc.generators[0].iter.args] == [pm[1]]:
                var = unparse(lc.generators[0].target)
                st = lc
                while not isinstance(st, ast.stmt):
                    st = parent(st)
                published = isinstance(st, ast.Assign) and (
                    unparse(st.targets[0]) == 'self._U' or any(
                        isinstance(a, ast.Assign) and [unparse(t) for t in a.targets] ==
                        ['self._U'] and unparse(a.value) == unparse(st.targets[0])
                        for a in ast.walk(f)))
                for c in ast.walk(lc.elt):
                    if isinstance(c, ast.Call) and dotted(c.func) == 'self._calc_U_bond':
                        try:
                            if eval_poly(c.args[1], {}) == Poly.sym(var) * delta and published:
                                ok = True
                        except (NotPoly, IndexError):
                            pass
    if not ok:
        rep.violation('TEBD-U-index', m, 'TEBDEngine.calc_U', 'U-table',
                      'self._U must be built by appending, for each entry t of '
                      'suzuki_trotter_time_steps(order) in order, gates for time t*delta_t', f.lineno)
    # evolve_step: bonds of one parity
    es = inline_temps(m.func('TEBDEngine.evolve_step'))
    rep.instance('TEBD-bond-parity', {})
    ok = False
    for st in ast.walk(es):
        if isinstance(st, ast.For) and isinstance(st.iter, ast.Call) and \
                dotted(st.iter.func) in ('np.arange', 'range') and len(st.iter.args) == 3:
            a0, a1, a2 = st.iter.args
            if 'odd' in names_in(a0) and unparse(a1) == 'self.psi.L' and unparse(a2) == '2':
                ok = True
    if not ok:
        rep.violation('TEBD-bond-parity', m, 'TEBDEngine.evolve_step', 'bond-range',
                      'evolve_step must visit bonds odd%2, odd%2+2, ... < L', es.lineno)
    # evolve: iterates the decomposition of (order, N_steps) and uses evolve_step for each
    ev = m.func('TEBDEngine.evolve')
    rep.instance('TEBD-evolve-schedule', {})
    ok = False
    pmv = params(ev)
    for st in ast.walk(ev):
        if isinstance(st, ast.For) and isinstance(st.iter, ast.Call) and \
                dotted(st.iter.func) == 'self.suzuki_trotter_decomposition' and \
                len(st.iter.args) == 2 and unparse(st.iter.args[1]) == pmv[1]:
            tg = [unparse(e) for e in st.target.elts] if isinstance(st.target, ast.Tuple) else []
            for c in ast.walk(st):
                if isinstance(c, ast.Call) and dotted(c.func) == 'self.evolve_step' and \
                        [unparse(a) for a in c.args] == tg:
                    ok = True
    if not ok:
        rep.violation('TEBD-evolve-schedule', m, 'TEBDEngine.evolve', 'schedule-use',
                      'evolve must run evolve_step(U_idx_dt, odd) for every entry of '
                      'suzuki_trotter_decomposition(order, %s)' % pmv[1], ev.lineno)


def check_expmpo(prog, rep):
    m = prog.module(EXPMPO)
    rep.unit(m)
    f = m.func('ExpMPOEvolution.calc_U')
    dtn = params(f)[1]
    found = 0
    body = _body(f)
    for order in _order_values(f):
        steps = None
        for p in run_paths(body, {'self._U_param == U_param': False,
                                  'self.force_prepare_evolve': True}, {'order': order},
                           substitute=False):
            if p.outcome == 'raise':
                continue
            lst = None
            for st in p.trace:
                if isinstance(st, ast.Assign) and any(unparse(t) == 'self._U_MPO'
                                                      for t in st.targets):
                    lst = st.value
            if lst is None:
                continue
            lst = _resolve_lists(lst, p.env)
            args = []
            if isinstance(lst, ast.List):
                for e in lst.elts:
                    if isinstance(e, ast.Call) and isinstance(e.func, ast.Attribute) and \
                            e.func.attr == 'make_U' and e.args:
                        args.append(e.args[0])
                    else:
                        raise AnalysisError('ExpMPOEvolution.calc_U: %s not a make_U result' %
                                            unparse(e)[:60])
            elif isinstance(lst, ast.ListComp) and len(lst.generators) == 1 and \
                    isinstance(lst.elt, ast.Call) and isinstance(lst.elt.func, ast.Attribute) and \
                    lst.elt.func.attr == 'make_U' and lst.elt.args and \
                    unparse(lst.elt.args[0]) == unparse(lst.generators[0].target) and \
                    isinstance(lst.generators[0].iter, (ast.List, ast.Tuple)):
                args = list(lst.generators[0].iter.elts)
            else:
                raise AnalysisError('ExpMPOEvolution.calc_U: _U_MPO list not understood for '
                                    'order %r: %s' % (order, unparse(lst)[:80]))
            steps = args
        if steps is None:
            raise AnalysisError('ExpMPOEvolution.calc_U: _U_MPO list not found for order %r' %
                                order)
        try:
            total = Poly.const(0)
            for a in steps:
                total = total + eval_poly(a, {})
        except NotPoly as e:
            raise AnalysisError('ExpMPOEvolution.calc_U: %s' % e)
        found += 1
        rep.instance('EXPMPO-time-sum', {'order': order, 'sum': repr(total)})
        want = Poly({(dtn, ): C(0, -1)})
        if total != want:
            rep.violation('EXPMPO-time-sum', m, 'ExpMPOEvolution.calc_U',
                          'time-sum:%s' % order,
                          'order %r: the arguments of make_U sum to [%r], expected [%r] '
                          '(exp(-i H dt) per step)' % (order, total, want), f.lineno)
    if found < 2:
        raise AnalysisError('ExpMPOEvolution.calc_U: order branches not found')
    es = m.func('ExpMPOEvolution.evolve_step')
    rep.instance('EXPMPO-apply-all', {})
    ok = any(isinstance(st, ast.For) and unparse(st.iter) == 'self._U_MPO' for st in ast.walk(es))
    if not ok:
        rep.violation('EXPMPO-apply-all', m, 'ExpMPOEvolution.evolve_step', 'apply-all',
                      'evolve_step must apply every MPO of self._U_MPO', es.lineno)


def check_tdvp(prog, rep):
    m = prog.module(TDVP)
    rep.unit(m)
    half_fwd = Poly({('self.dt', ): C(0, Fraction_half(-1))})
    half_bwd = Poly({('self.dt', ): C(0, Fraction_half(1))})
    for cname, nsite, back in (('TwoSiteTDVPEngine', 2, 'one_site_update'),
                               ('SingleSiteTDVPEngine', 1, 'zero_site_update')):
        ul = inline_temps(m.func(cname + '.update_local'), keep=('dt', ))
        # forward step
        fw = [s for s in stmts_of(ul) if isinstance(s, ast.Assign) and
              unparse(s.targets[0]) == 'dt']
        rep.instance('TDVP-half-steps', {'class': cname, 'forward': [key_text(s) for s in fw]})
        okf = False
        double_guard = None
        for s in fw:
            try:
                if eval_poly(s.value, {}) == half_fwd:
                    okf = True
            except NotPoly:
                pass
            p = parent(s)
            if isinstance(p, ast.If) and s in p.body:
                try:
                    if eval_poly(s.value, {}) == Poly.const(2) * Poly.sym('dt'):
                        double_guard = p.test
                except NotPoly:
                    pass
        ke = [c for c in body_nodes(ul) if isinstance(c, ast.Call) and
              dotted(c.func) == 'self._krylov_evolve']
        if not okf or not ke or unparse(ke[0].args[2]) != 'dt':
            rep.violation('TDVP-half-steps', m, cname + '.update_local', 'forward-half-step',
                          'the forward evolution must use -0.5j*self.dt (doubled only at the '
                          'turning point)', ul.lineno)
        # backward steps: all calls to `back` in the class with 0.5j*self.dt
        cls = m.cls(cname)
        nb = 0
        for fn in cls.body:
            if not isinstance(fn, ast.FunctionDef):
                continue
            nfn = inline_temps(fn)
            for c in body_nodes(nfn):
                if isinstance(c, ast.Call) and dotted(c.func) == 'self.' + back:
                    nb += 1
                    arg = c.args[-1]
                    rep.instance('TDVP-half-steps', {'class': cname, 'backward': unparse(c)})
                    try:
                        okb = eval_poly(arg, {}) == half_bwd
                    except NotPoly:
                        okb = False
                    if not okb:
                        rep.violation('TDVP-half-steps', m, '%s.%s' % (cname, fn.name),
                                      'backward-half-step',
                                      'backward evolution `%s` must use +0.5j*self.dt (the exact '
                                      'negative of the forward half step)' % unparse(c), c.lineno)
        if nb < 1:
            raise AnalysisError('%s: backward evolution calls not found' % cname)
        if nsite == 2:
            # decision table over the sweep direction: right-moving -> backward step on the site
            # just entered (i0+1), left-moving -> on i0, last update of the sweep (None) -> none
            want = {True: ['self.i0 + 1'], False: ['self.i0'], None: []}
            for mv, sites in want.items():
                got = []
                for p in run_paths(_body(ul), {'self.move_right': mv, 'self.combine': True,
                                               'self.i0 is not None': True,
                                               'self.i0 is None': False}):
                    g2 = []
                    for st in p.trace:
                        if isinstance(st, ast.Expr) and isinstance(st.value, ast.Call) and \
                                dotted(st.value.func) == 'self.' + back:
                            a0 = subst(st.value.args[0], p.env)
                            try:
                                g2.append(repr(eval_poly(a0, {})))
                            except NotPoly:
                                g2.append(unparse(a0))
                    got.append(g2)
                exp = [repr(eval_poly(ast.parse(x, mode='eval').body, {})) for x in sites]
                rep.instance('TDVP-half-steps', {'class': cname, 'move_right': mv,
                                                 'backward_sites': got})
                if not got or any(g2 != exp for g2 in got):
                    rep.violation('TDVP-half-steps', m, cname + '.update_local',
                                  'backward-site:%s' % mv,
                                  'with move_right=%s the backward one-site step must act on %s; '
                                  'found %s' % (mv, sites or 'no site', got), ul.lineno)
        # the backward helper passes its dt to _krylov_evolve unchanged
        bf = m.func('%s.%s' % (cname, back))
        kc = [c for c in body_nodes(bf) if isinstance(c, ast.Call) and
              dotted(c.func) == 'self._krylov_evolve']
        if not kc or unparse(kc[0].args[2]) != params(bf)[-1]:
            rep.violation('TDVP-half-steps', m, '%s.%s' % (cname, back), 'backward-dt-passed',
                          '%s must evolve by exactly its `dt` argument' % back, bf.lineno)
        # turning point: the site visited once by the schedule is the one with the doubled step
        gs = inline_temps(m.func(cname + '.get_sweep_schedule'), keep=('i0s', ))
        rep.instance('TDVP-turning-point', {'class': cname})
        turn = None
        for s in stmts_of(gs):
            if isinstance(s, ast.Assign) and unparse(s.targets[0]) == 'i0s':
                rs = [c for c in ast.walk(s.value) if isinstance(c, ast.Call) and
                      dotted(c.func) == 'range']
                if len(rs) == 2 and len(rs[0].args) == 2 and len(rs[1].args) == 3:
                    try:
                        stop1 = eval_poly(rs[0].args[1], {})
                        start2 = eval_poly(rs[1].args[0], {})
                        start1 = eval_poly(rs[0].args[0], {})
                        stop2 = eval_poly(rs[1].args[1], {})
                        step2 = eval_poly(rs[1].args[2], {})
                    except NotPoly:
                        continue
                    if stop1 == start2 and start1 == Poly.const(0) and \
                            stop2 == Poly.const(-1) and step2 == Poly.const(-1):
                        turn = start2
        if turn is None:
            rep.violation('TDVP-turning-point', m, cname + '.get_sweep_schedule', 'schedule-shape',
                          'i0s must be range(0, T) + range(T, -1, -1): every site below the '
                          'turning point T twice, T once', gs.lineno)
        else:
            okg = False
            if double_guard is not None and isinstance(double_guard, ast.Compare) and \
                    isinstance(double_guard.ops[0], ast.Eq):
                try:
                    rhs = eval_poly(double_guard.comparators[0], {})
                    if unparse(double_guard.left) in ('i0', 'self.i0') and rhs == turn:
                        okg = True
                except NotPoly:
                    pass
            if not okg:
                rep.violation('TDVP-turning-point', m, cname + '.update_local', 'doubling-guard',
                              'the step is doubled under `%s` but the schedule visits site %r '
                              'only once: total forward time per sweep is not dt on every site' %
                              (unparse(double_guard) if double_guard is not None else 'nothing',
                               turn), ul.lineno)
    # evolve: one sweep per step, errors of all updates collected
    ev = m.func('TDVPEngine.evolve')
    rep.instance('TDVP-evolve', {})
    pm = params(ev)
    ok = False
    for st in ast.walk(ev):
        if isinstance(st, ast.For) and unparse(st.iter) == 'range(%s)' % pm[1]:
            if any(isinstance(c, ast.Call) and dotted(c.func) == 'self.sweep'
                   for c in ast.walk(st)):
                ok = True
    if not ok:
        rep.violation('TDVP-evolve', m, 'TDVPEngine.evolve', 'sweeps',
                      'evolve must perform exactly one sweep per step', ev.lineno)


def Fraction_half(sign):
    from fractions import Fraction
    return Fraction(sign, 2)


def check_errflow_c14(prog, rep):
    prod = {'evolve_step': None, 'update_bond': None, 'update_bond_imag': None,
            'svd_theta': 3, 'decompose_theta_qr_based': 4, 'apply': None, 'evolve': None}
    m = prog.module(TEBD)
    n = 0
    for q in ('TEBDEngine.evolve', 'TEBDEngine.evolve_step', 'TEBDEngine.update_bond',
              'TEBDEngine.update_imag', 'TEBDEngine.update_bond_imag',
              'QRBasedTEBDEngine.update_bond', 'QRBasedTEBDEngine.update_bond_imag',
              'RandomUnitaryEvolution.evolve'):
        f = m.func(q)
        p = dict(prod)
        p.pop('apply')
        n += check_errflow(f, p, q, m, rep, 'ERRFLOW')
        # _trunc_err_bonds[i] updated with the same value that is returned
        if 'update_bond' in q:
            rep.instance('ERRFLOW-bonds', {'function': q})
            st = [s for s in stmts_of(f) if isinstance(s, ast.Assign) and
                  'self._trunc_err_bonds[' in unparse(s.targets[0])]
            rets = [s for s in stmts_of(f) if isinstance(s, ast.Return)]
            if not st or not rets or not (
                    names_in(st[0].value) & names_in(rets[-1].value)):
                rep.violation('ERRFLOW-bonds', m, q, 'trunc-err-bonds',
                              'the per-bond error record must be incremented by the returned '
                              'truncation error', f.lineno)
    m2 = prog.module(EXPMPO)
    n += check_errflow(m2.func('ExpMPOEvolution.evolve_step'), {'apply': None},
                       'ExpMPOEvolution.evolve_step', m2, rep, 'ERRFLOW')
    m3 = prog.module(ALG)
    rep.unit(m3)
    n += check_errflow(m3.func('TimeEvolutionAlgorithm.evolve'), {'evolve_step': None},
                       'TimeEvolutionAlgorithm.evolve', m3, rep, 'ERRFLOW')
    m4 = prog.module(TDVP)
    n += check_errflow(m4.func('TwoSiteTDVPEngine.update_local'), {'svd_theta': 3},
                       'TwoSiteTDVPEngine.update_local', m4, rep, 'ERRFLOW')
    # TDVP.evolve collects every entry of trunc_err_list
    f = m4.func('TDVPEngine.evolve')
    rep.instance('ERRFLOW', {'function': 'TDVPEngine.evolve', 'call': 'trunc_err_list'})
    ok = False
    for st in ast.walk(f):
        if isinstance(st, ast.For) and unparse(st.iter) == 'self.trunc_err_list':
            v = unparse(st.target)
            for s2 in ast.walk(st):
                if isinstance(s2, ast.AugAssign) and v in names_in(s2.value):
                    ok = True
    if not ok:
        rep.violation('ERRFLOW', m4, 'TDVPEngine.evolve', 'trunc_err_list',
                      'evolve must add every entry of self.trunc_err_list of each sweep', f.lineno)
    # sweep() resets trunc_err_list: the collection must happen once per sweep, i.e. inside the
    # same loop body as the call of self.sweep()
    rep.instance('ERRFLOW', {'function': 'TDVPEngine.evolve', 'call': 'collect-per-sweep'})
    for st in ast.walk(f):
        if isinstance(st, ast.For) and unparse(st.iter) == 'self.trunc_err_list':
            p = parent(st)
            sweeps_in_parent = isinstance(p, (ast.For, ast.While)) and any(
                isinstance(b, ast.Expr) and 'self.sweep(' in unparse(b) for b in p.body)
            sweep_in_loop = any(isinstance(lp, (ast.For, ast.While)) and 'self.sweep(' in unparse(lp)
                                for lp in ast.walk(f) if lp is not st)
            if sweep_in_loop and not sweeps_in_parent:
                rep.violation('ERRFLOW', m4, 'TDVPEngine.evolve', 'collect-outside-sweep-loop',
                              'self.sweep() runs inside a step loop and resets '
                              'self.trunc_err_list each time, but the errors are collected outside '
                              'that loop: only the last sweep of each evolve() call is counted',
                              st.lineno)
    return n


def run(prog, rep, tier):
    rep.rule('ACCOUNT-*', 'for every concrete TimeEvolutionAlgorithm subclass, along the resolved '
             'run_evolution -> evolve call closure exactly one function adds the step errors to '
             'self.trunc_err and exactly one advances self.evolved_time by N_steps*step, outside '
             'loops')
    rep.rule('TROTTER-sum', 'for each order and bond family the scheduled Suzuki-Trotter '
             'coefficients sum, as an exact polynomial in N_steps and the symbolic coefficients, '
             'to N_steps')
    rep.rule('TEBD-* / EXPMPO-* / TDVP-*', 'time-argument tables agree: gate exponent = '
             '-i*tau*H; sum of make_U arguments = -i*dt; TDVP forward/backward half steps cancel '
             'and the doubled site is the one visited once')
    rep.rule('ERRFLOW', 'every truncation error produced on a step reaches the returned sum')
    table = check_account(prog, rep, tier)
    check_run_evolution_flow(prog, rep)
    ob, di = check_trotter(prog, rep)
    check_tebd_tables(prog, rep)
    check_expmpo(prog, rep)
    check_tdvp(prog, rep)
    check_errflow_c14(prog, rep)
    rep.floor('ACCOUNT-trunc_err', 12)
    rep.floor('ACCOUNT-evolved_time', 12)
    rep.floor('TROTTER-sum', 8)
    rep.floor('ERRFLOW', 12)
    rep.floor('TDVP-half-steps', 6)
    rep.assumptions += ['method resolution follows a statically computed C3 MRO',
                        'convergence order and norm/energy conservation are NOT decided']
    from ..flow import check_dead_computations
    rep.rule('VALUE-dead', 'no result of a call is bound to a local that is never read (reaching '
             'definitions)')
    check_dead_computations(prog, rep, ['tenpy/algorithms/tebd.py', 'tenpy/algorithms/tdvp.py', 'tenpy/algorithms/mpo_evolution.py', 'tenpy/algorithms/algorithm.py'])
    from ..flow import check_undefined_attrs
    rep.rule('ATTR-defined', 'every self.X read names an attribute bound somewhere in the class family')
    check_undefined_attrs(prog, rep, ['tenpy/algorithms/tebd.py', 'tenpy/algorithms/tdvp.py', 'tenpy/algorithms/mpo_evolution.py', 'tenpy/algorithms/algorithm.py'])
    from ..labels import check_labels
    rep.rule('LABEL-known', 'typestate of leg-label sets: literal labels used on a local tensor '
             'whose complete label set is known (literal transposition, contractions) exist on it')
    check_labels(prog, rep, ['tenpy/algorithms/tebd.py', 'tenpy/algorithms/tdvp.py', 'tenpy/algorithms/mpo_evolution.py'])
    rep.rule('CACHE-key-after-value', 'the memo key of calc_U is published only after the gates '
             'are complete: nothing that can raise is reachable after the key store')
    if check_cache_key_order(prog, rep) < 2:
        raise AnalysisError('CACHE-key-after-value: memo guards of calc_U not found')
    rep.rule('CACHE-invalidate', 'derived data are dropped whenever their source may have changed '
             '(force_prepare_evolve after update_time_parameter; env.clear() with the basis expansion)')
    if check_cache_invalidate(prog, rep) < 2:
        raise AnalysisError('CACHE-invalidate: reinit_model / prepare_evolve not recognised')
    rep.rule('NORM-renorm-use', 'a factor norm(S) multiplied into psi.norm is divided out of S before any further use of S in the same update')
    if check_renorm_use(prog, rep) < 2:
        raise AnalysisError('NORM-renorm-use: single-site TDVP updates not recognised')
    rep.rule('TROTTER-order', 'order conditions of the fourth-order Suzuki scheme on the folded literals')
    check_trotter_order(prog, rep)
    return rep.finish(
        level='other',
        explanation='Accounting clauses of C14 decided statically: class-by-class count of '
        'accumulations of trunc_err/evolved_time along the resolved run path (table in '
        'coverage.account_table), exact symbolic Suzuki-Trotter sums (%d obligations, %d '
        'discharged, exhaustive over orders x bond families), time-argument table agreement for '
        'TEBD/ExpMPO/TDVP, and truncation-error flow. Convergence order is not decided.' % (ob, di),
        proof={'obligations': ob, 'discharged': di, 'exhaustive': True,
               'checker_cmd': './check C14', 'trusted_base': ['sa/linform.py', 'python ast']})


# ------------------------------------------------------------------ NORM-renorm-use
_NORM_FUNCS = ('npc.norm', 'np.linalg.norm', 'norm', 'np_conserved.norm')


def check_renorm_use(prog, rep):
    """`renorm = norm(S); psi.norm *= renorm` moves the factor `renorm` from the wavefunction into
    the scalar psi.norm.  The factor is then accounted for exactly once only if every later use of
    S in that update is of the normalised S: an in-place/rebinding normalisation `S /= renorm`
    (`S = S / renorm`) precedes the use, or the use itself is `S / renorm`."""
    n = 0
    for rel in ('tenpy/algorithms/tdvp.py', 'tenpy/algorithms/tebd.py',
                'tenpy/algorithms/mpo_evolution.py', 'tenpy/algorithms/purification.py'):
        m = prog.module(rel)
        for q, f in sorted(m.functions.items()):
            facs = []
            for st in ast.walk(f):
                if isinstance(st, ast.AugAssign) and isinstance(st.op, ast.Mult) and \
                        isinstance(st.target, ast.Attribute) and st.target.attr == 'norm' and \
                        isinstance(st.value, ast.Name):
                    facs.append((st, st.value.id))
            for st, X in facs:
                # definition of X as the norm of a local V
                dfn = None
                for a in ast.walk(f):
                    if isinstance(a, ast.Assign) and len(a.targets) == 1 and \
                            isinstance(a.targets[0], ast.Name) and a.targets[0].id == X and \
                            isinstance(a.value, ast.Call) and call_name(a.value) in _NORM_FUNCS \
                            and a.value.args and isinstance(a.value.args[0], ast.Name):
                        dfn = a
                if dfn is None:
                    continue
                V = dfn.value.args[0].id
                n += 1
                rep.instance('NORM-renorm-use', {'function': q, 'factor': X, 'of': V})

                def is_div(e):
                    return isinstance(e, ast.BinOp) and isinstance(e.op, ast.Div) and \
                        isinstance(e.left, ast.Name) and e.left.id == V and \
                        isinstance(e.right, ast.Name) and e.right.id == X
                normaliser = None
                for b in f.body:
                    if isinstance(b, ast.AugAssign) and isinstance(b.op, ast.Div) and \
                            isinstance(b.target, ast.Name) and b.target.id == V and \
                            isinstance(b.value, ast.Name) and b.value.id == X:
                        normaliser = b
                    elif isinstance(b, ast.Assign) and len(b.targets) == 1 and \
                            isinstance(b.targets[0], ast.Name) and b.targets[0].id == V and \
                            is_div(b.value):
                        normaliser = b
                    elif isinstance(b, ast.AugAssign) and isinstance(b.op, ast.Mult) and \
                            isinstance(b.target, ast.Name) and b.target.id == V and \
                            isinstance(b.value, ast.BinOp) and isinstance(b.value.op, ast.Div) and \
                            isinstance(b.value.right, ast.Name) and b.value.right.id == X and \
                            isinstance(b.value.left, ast.Constant) and b.value.left.value == 1:
                        normaliser = b   # S *= 1. / renorm
                    if normaliser is not None:
                        break
                if normaliser is not None and normaliser.lineno < dfn.lineno:
                    normaliser = None
                parents = {}
                for a in ast.walk(f):
                    for c in ast.iter_child_nodes(a):
                        parents[c] = a
                for a in ast.walk(f):
                    if not (isinstance(a, ast.Name) and a.id == V and isinstance(a.ctx, ast.Load)):
                        continue
                    if a.lineno <= dfn.lineno:
                        continue
                    if normaliser is not None and (
                            normaliser.lineno <= a.lineno <= (normaliser.end_lineno or 0)):
                        continue
                    if normaliser is not None and a.lineno > normaliser.lineno:
                        continue
                    if is_div(parents.get(a)):
                        continue
                    rep.violation(
                        'NORM-renorm-use', rel, q, 'raw-use:%s:%s' % (V, X),
                        '`%s = norm(%s)` is moved into psi.norm (`norm *= %s`), but `%s` is used '
                        'here without having been divided by it: the factor is counted twice '
                        '(psi.norm of a non-unitary step is wrong)' % (X, V, X, V), a.lineno)
    return n


# ------------------------------------------------------------------ TROTTER-order
def _fold_num(e, env, depth=0):
    """numeric value of a literal arithmetic expression (names through the path environment)"""
    if depth > 20:
        raise NotPoly('too deep')
    if isinstance(e, ast.Constant) and isinstance(e.value, (int, float)) and not isinstance(
            e.value, bool):
        return float(e.value)
    if isinstance(e, ast.Name):
        v = env.get(e.id, UNKNOWN)
        if isinstance(v, ast.AST):
            return _fold_num(v, env, depth + 1)
        if isinstance(v, (int, float)) and not isinstance(v, bool):
            return float(v)
        raise NotPoly('unknown name ' + e.id)
    if isinstance(e, ast.UnaryOp) and isinstance(e.op, (ast.USub, ast.UAdd)):
        v = _fold_num(e.operand, env, depth + 1)
        return -v if isinstance(e.op, ast.USub) else v
    if isinstance(e, ast.BinOp):
        a, b = _fold_num(e.left, env, depth + 1), _fold_num(e.right, env, depth + 1)
        if isinstance(e.op, ast.Add):
            return a + b
        if isinstance(e.op, ast.Sub):
            return a - b
        if isinstance(e.op, ast.Mult):
            return a * b
        if isinstance(e.op, ast.Div):
            return a / b
        if isinstance(e.op, ast.Pow):
            return a ** b
    raise NotPoly('not a literal expression: ' + unparse(e))


def check_trotter_order(prog, rep):
    """TROTTER-order: the fourth-order scheme is Suzuki's composition of five second-order steps
    with times (t1, t1, t3, t1, t1). Besides 4 t1 + t3 = 1 (decided exactly by TROTTER-sum) the
    third-order error cancels only if 4 t1^3 + t3^3 = 0; with the literal constants folded from
    the source, both must hold (to rounding) and the half steps must be t1/2 and (t1 + t3)/2."""
    m = prog.module(TEBD)
    f = m.func('TEBDEngine.suzuki_trotter_time_steps')
    if 4 not in _order_values(f):
        raise AnalysisError('suzuki_trotter_time_steps: order 4 not found')
    p = _single_return(f, 4, 'suzuki_trotter_time_steps')
    val = p.value
    if isinstance(val, ast.Name) and isinstance(p.env.get(val.id), ast.AST):
        val = p.env[val.id]
    if not isinstance(val, (ast.List, ast.Tuple)) or len(val.elts) != 4:
        raise AnalysisError('suzuki_trotter_time_steps: order 4 does not return four time steps')
    try:
        h1, t1, h2, t3 = [_fold_num(e, dict(p.env)) for e in val.elts]
    except (NotPoly, ZeroDivisionError, OverflowError) as e:
        raise AnalysisError('suzuki_trotter_time_steps: cannot fold the order-4 constants (%s)' % e)
    checks = [('sum 4*t1 + t3 = 1', 4 * t1 + t3 - 1.0),
              ('cubic cancellation 4*t1^3 + t3^3 = 0', 4 * t1 ** 3 + t3 ** 3),
              ('first half step = t1/2', h1 - t1 / 2),
              ('middle half step = (t1 + t3)/2', h2 - (t1 + t3) / 2)]
    for what, resid in checks:
        rep.instance('TROTTER-order', {'order': 4, 'condition': what, 'residual': '%.3e' % resid})
        if abs(resid) > 1e-12:
            rep.violation('TROTTER-order', m, 'TEBDEngine.suzuki_trotter_time_steps',
                          'order4:' + what,
                          'with the constants in the source (t1 = %.15g, t3 = %.15g) the '
                          'condition "%s" is violated by %.3e: the scheme advertised as fourth '
                          'order has a third-order error term (it converges like a second-order '
                          'scheme)' % (t1, t3, what, resid), f.lineno)
    return len(checks)


# ------------------------------------------------------------------ CACHE-key-after-value
def check_cache_key_order(prog, rep):
    """CACHE-key-after-value: a method that skips its work when `self.<key> == <params>` (memo
    guard followed by `return`) publishes the key only once the cached value is complete: no
    statement that can raise (a call other than logging, a `raise`) and no store to another
    attribute built by a call is reachable after `self.<key> = <params>`. Otherwise an exception
    between the two leaves a key that describes a value that was never built, and the next call
    with the same parameters silently reuses the previous value."""
    from ..cfg import CFG
    n = 0
    for rel in ('tenpy/algorithms/tebd.py', 'tenpy/algorithms/mpo_evolution.py',
                'tenpy/algorithms/tdvp.py', 'tenpy/algorithms/purification.py',
                'tenpy/algorithms/algorithm.py'):
        m = prog.module(rel)
        for q, f0 in m.functions.items():
            if '==' not in unparse(f0):
                continue
            f = inline_temps(f0)     # a named guard / parameter dict is the same guard
            guard = None
            for st in stmts_of(f):
                if isinstance(st, ast.If) and st.body and isinstance(st.body[-1], ast.Return):
                    for c in ast.walk(st.test):
                        if isinstance(c, ast.Compare) and len(c.ops) == 1 and isinstance(
                                c.ops[0], ast.Eq) and isinstance(c.left, ast.Attribute) and \
                                unparse(c.left).startswith('self.') and isinstance(
                                    c.comparators[0], (ast.Name, ast.Dict, ast.Call)):
                            guard = (unparse(c.left), unparse(c.comparators[0]))
                if guard:
                    break
            if not guard:
                continue
            key, local = guard
            stores = [st for st in stmts_of(f) if isinstance(st, ast.Assign) and any(
                unparse(t) == key for t in st.targets) and unparse(st.value) == local]
            if not stores:
                continue
            cfg = CFG(f)
            for st in stores:
                n += 1
                todo = [x for nd in cfg.nodes_of(st) for x in cfg.normal_succ(nd)]
                seen = set()
                bad = None
                while todo and bad is None:
                    x = todo.pop()
                    if x.id in seen:
                        continue
                    seen.add(x.id)
                    s2 = x.stmt
                    if s2 is not None and not isinstance(s2, (ast.If, ast.For, ast.While, ast.Try,
                                                             ast.With)):
                        if isinstance(s2, ast.Raise):
                            bad = s2
                        for c in ast.walk(s2):
                            if isinstance(c, ast.Call) and not (call_name(c) or '').startswith(
                                    ('logger.', 'warnings.')):
                                bad = s2
                    elif s2 is not None and isinstance(s2, (ast.If, ast.While)):
                        for c in ast.walk(s2.test):
                            if isinstance(c, ast.Call):
                                bad = s2
                    elif s2 is not None and isinstance(s2, ast.For):
                        bad = s2 if any(isinstance(c, ast.Call) for c in ast.walk(s2.iter)) \
                            else bad
                    todo.extend(cfg.normal_succ(x))
                rep.instance('CACHE-key-after-value', {'function': q, 'module': rel, 'key': key,
                                                       'params': local, 'ok': bad is None})
                if bad is not None:
                    rep.violation('CACHE-key-after-value', m, q, 'key-before:' + key_text(bad)[:50],
                                  '`%s = %s` is stored before `%s`, which can raise: the memo '
                                  'guard `%s == %s` then skips the rebuild on the next call and the '
                                  'previous gates are used with the new parameters'
                                  % (key, local, key_text(bad)[:60], key, local), st.lineno)
    return n


# ------------------------------------------------------------------ CACHE-invalidate
def _must_follow(cfg, stmt, pred):
    """every normal path from `stmt` to the exit passes a node satisfying pred"""
    todo = [x for nd in cfg.nodes_of(stmt) for x in cfg.normal_succ(nd)]
    seen = set()
    while todo:
        x = todo.pop()
        if x.id in seen:
            continue
        seen.add(x.id)
        if x.stmt is not None and not isinstance(x.stmt, (ast.If, ast.For, ast.While, ast.Try,
                                                          ast.With)) and pred(x.stmt):
            continue
        if x is cfg.exit:
            return False
        todo.extend(cfg.normal_succ(x))
    return True


def check_cache_invalidate(prog, rep):
    """CACHE-invalidate: data derived from the state / the model must be dropped whenever the thing
    it was derived from MAY have changed, not only when a cheap comparison notices a change.
    (a) TimeDependentHAlgorithm.reinit_model: `update_time_parameter` is documented as potentially
        in-place (may return the same object with a new H), so after calling it every path sets
        `self.force_prepare_evolve = True` (the cached gates are keyed by dt / order only).
    (b) TDVPEngine.prepare_evolve: the Krylov basis expansion re-gauges every tensor of psi even
        when no bond grows, so on every path through the expansion branch `self.env.clear()` runs
        (before or after it)."""
    from ..cfg import CFG
    n = 0
    m = prog.module('tenpy/algorithms/algorithm.py')
    f = m.func('TimeDependentHAlgorithm.reinit_model')
    cfg = CFG(f)
    calls = [st for st in stmts_of(f) if not isinstance(st, (ast.If, ast.For, ast.While)) and any(
        isinstance(c, ast.Call) and isinstance(c.func, ast.Attribute) and
        c.func.attr == 'update_time_parameter' for c in ast.walk(st))]
    if not calls:
        raise AnalysisError('reinit_model: call of update_time_parameter not found')
    for st in calls:
        n += 1
        ok = _must_follow(cfg, st, lambda s: isinstance(s, ast.Assign) and any(
            unparse(t) == 'self.force_prepare_evolve' for t in s.targets) and isinstance(
                s.value, ast.Constant) and s.value.value is True) or (
                    isinstance(st, ast.Assign) and False)
        rep.instance('CACHE-invalidate', {'function': 'TimeDependentHAlgorithm.reinit_model',
                                          'after': key_text(st)[:60], 'flag_on_every_path': ok})
        if not ok:
            rep.violation('CACHE-invalidate', m, 'TimeDependentHAlgorithm.reinit_model',
                          'conditional-invalidate:force_prepare_evolve',
                          'after `%s` a path leaves reinit_model without '
                          '`self.force_prepare_evolve = True`: a model that updates its H in place '
                          'and returns itself keeps the gates of the old time (exp(-i H(t0) dt) is '
                          'applied at every step)' % key_text(st)[:60], st.lineno)
    m2 = prog.module('tenpy/algorithms/tdvp.py')
    f2 = m2.func('TDVPEngine.prepare_evolve')
    cfg2 = CFG(f2)

    def is_clear_stmt(s_):
        return isinstance(s_, ast.Expr) and isinstance(s_.value, ast.Call) and \
            unparse(s_.value.func) == 'self.env.clear'

    def is_clear(nd):
        return nd.stmt is not None and is_clear_stmt(nd.stmt)
    for st in stmts_of(f2):
        if isinstance(st, (ast.If, ast.For, ast.While, ast.Try, ast.With)) or not any(
                isinstance(c, ast.Call) and isinstance(c.func, ast.Attribute) and
                c.func.attr == 'subspace_expansion' for c in ast.walk(st)):
            continue
        n += 1
        # on every path through this expansion the environments are cleared, before or after it
        ok = cfg2.dominators_like_before(st, is_clear) or _must_follow(cfg2, st, is_clear_stmt)
        rep.instance('CACHE-invalidate', {'function': 'TDVPEngine.prepare_evolve',
                                          'expansion': key_text(st)[:60],
                                          'env_cleared_on_every_path': ok})
        if not ok:
            rep.violation('CACHE-invalidate', m2, 'TDVPEngine.prepare_evolve',
                          'conditional-invalidate:env',
                          '`%s` changes psi (subspace_expansion re-gauges all tensors even when no '
                          'bond grows) but a path through it does not run `self.env.clear()`: the '
                          'next sweep uses stale environments that still fit'
                          % key_text(st)[:60], st.lineno)
    return n
