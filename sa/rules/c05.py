"""C05 — factorizations: charge compatibility of the new internal leg (R-CHARGE, exhaustive over
direction cases), pipe/split pairing, label pairing, delegation of lq. Residuals, isometry and
triangularity are numerical and not decided."""
import ast
import re

from ..pattern import find, guards_of, pmatch
from ..charge import check_factorization_charges
from ..core import (AnalysisError, local_defs, body_nodes, call_name, dotted, key_text, kwarg, names_in,
                    params, parent, stmts_of, unparse)

NPC = 'tenpy/linalg/np_conserved.py'


def check_pipes(prog, rep):
    m = prog.module(NPC)
    rep.unit(m)
    for q, f in m.functions.items():
        blk = [s for s in stmts_of(f) if isinstance(s, ast.Assign) and isinstance(
            s.value, ast.Call) and call_name(s.value) == 'as_completely_blocked' and isinstance(
                s.targets[0], ast.Tuple)]
        if not blk:
            continue
        pa = unparse(blk[0].targets[0].elts[0])
        operand = unparse(blk[0].targets[0].elts[1])
        splits = []
        for c in body_nodes(f):
            if isinstance(c, ast.Call) and isinstance(c.func, ast.Attribute) and \
                    c.func.attr == 'split_legs':
                g = parent(c)
                guard = None
                while g is not None and g is not f:
                    if isinstance(g, ast.If) and pa in names_in(g.test):
                        guard = g.test
                        break
                    g = parent(g)
                splits.append((c, guard))
        rep.instance('FACT-pipes', {'function': q, 'splits': [unparse(c) for c, _ in splits]})
        returns_arrays = q not in ('_eigvals_worker', )
        if returns_arrays and not splits:
            rep.violation('FACT-pipes', m, q, 'no-split',
                          '%s blocks its input through hidden pipes (as_completely_blocked) but '
                          'never splits them again: factors of a non-blocked input come back with '
                          'pipe legs' % q, blk[0].lineno)
        # each hidden pipe is undone independently of the others: the condition of a split is
        # the membership test of ITS axis alone (an `elif` would make it depend on the other one)
        for c, guard in splits:
            if guard is None:
                continue
            st_ = c
            while not isinstance(st_, ast.stmt):
                st_ = parent(st_)
            gs = {(t, pol) for t, pol, _ in guards_of(f, st_) if pa in t}
            extra = {(t, pol) for t, pol in gs if re.fullmatch(r'-?\d+ in ' + re.escape(pa), t) and
                     (t != unparse(guard) or not pol)}
            if extra:
                rep.violation('FACT-pipes', m, q, 'split-depends-on-other-axis:' + unparse(c)[:30],
                              '`%s` additionally depends on %s: when both legs were piped only one '
                              'of them is split again and the other factor keeps the hidden pipe '
                              '(its indices stay in charge-sorted order)' %
                              (unparse(c), sorted('%s%s' % ('' if pol else 'not ', t)
                                                  for t, pol in extra)), c.lineno)
        for c, guard in splits:
            if guard is None:
                rep.violation('FACT-pipes', m, q, 'unguarded-split:' + unparse(c)[:30],
                              '`%s` is not guarded by a test on `%s`' % (unparse(c), pa), c.lineno)
                continue
            g = unparse(guard)
            arg = unparse(c.args[0]) if c.args else ''
            if g.startswith('0 in '):
                ok = arg == '0'
            elif g.startswith('1 in '):
                ok = arg in ('1', '-1')
            elif g.startswith('len('):
                ok = arg in (pa, '0', '')
            else:
                ok = True
            if not ok:
                rep.violation('FACT-pipes', m, q, 'split-axis:' + g,
                              'under `%s` the factor is split on axis `%s`: the pipe introduced '
                              'for that axis stays, another leg is split' % (g, arg), c.lineno)
        if q == 'svd':
            ow = [s for s in stmts_of(f) if isinstance(s, ast.Assign) and
                  unparse(s.targets[0]) == 'overwrite_a']
            rep.instance('FACT-overwrite', {'function': q})
            if not ow or pa not in names_in(ow[0].value) or 'len(' not in unparse(ow[0].value):
                rep.violation('FACT-overwrite', m, q, 'overwrite_a',
                              'LAPACK may overwrite the blocks only when a fresh copy was made by '
                              'the hidden pipes (overwrite_a = len(%s) > 0)' % pa, f.lineno)


def check_labels(prog, rep):
    m = prog.module(NPC)
    spec = {
        'svd': [('U', ['a_labels[0]', 'labL']), ('VH', ['labR', 'a_labels[1]'])],
        'qr': [('q', ['a_labels[0]', 'label_Q']), ('r', ['label_R', 'a_labels[1]'])],
    }
    for q, pairs in spec.items():
        f = m.func(q)
        for var, want in pairs:
            rep.instance('FACT-labels', {'function': q, 'factor': var})
            calls = [c for c in body_nodes(f) if isinstance(c, ast.Call) and isinstance(
                c.func, ast.Attribute) and c.func.attr == 'iset_leg_labels' and
                unparse(c.func.value) == var]
            got = [unparse(e) for e in calls[-1].args[0].elts] if calls and isinstance(
                calls[-1].args[0], ast.List) else None
            if got != want:
                rep.violation('FACT-labels', m, q, 'labels:' + var,
                              'factor %s must be labelled %s (outer label of the input on the '
                              'outer leg, inner label on the new leg), got %s' % (var, want, got),
                              f.lineno)
        # unpack order of inner_labels
        un = [s for s in stmts_of(f) if isinstance(s, ast.Assign) and
              unparse(s.value) == 'inner_labels']
        rep.instance('FACT-labels', {'function': q, 'unpack': [key_text(s) for s in un]})
        want_un = {'svd': ['labL', 'labR'], 'qr': ['label_Q', 'label_R']}[q]
        if not un or [unparse(e) for e in un[0].targets[0].elts] != want_un:
            rep.violation('FACT-labels', m, q, 'inner-label-order',
                          'inner_labels must be unpacked as %s' % want_un, f.lineno)
    for q in ('eigh', 'eig'):
        f = m.func(q)
        rep.instance('FACT-labels', {'function': q})
        pa = params(f)[0]
        lab = [c for c in body_nodes(f) if isinstance(c, ast.Call) and
               call_name(c) in ('iset_leg_labels', 'set_leg_labels') and c.args]
        good = [c for c in lab if unparse(c.args[0]) in (
            "[%s._labels[0], 'eig']" % pa, "[%s.get_leg_labels()[0], 'eig']" % pa)]
        if not good:
            rep.violation('FACT-labels', m, q, 'labels',
                          'eigenvectors must be labelled [a._labels[0], "eig"]', f.lineno)
    # lq delegates to qr of the transpose
    f = m.func('lq')
    rep.instance('FACT-lq', {})
    src = unparse(f)
    c = [c for c in body_nodes(f) if isinstance(c, ast.Call) and dotted(c.func) == 'qr']
    ok = bool(c) and unparse(c[0].args[0]) == 'a.transpose()' and \
        unparse(kwarg(c[0], 'inner_labels')) == 'inner_labels[::-1]' and \
        unparse(kwarg(c[0], 'pos_diag_R')) == 'pos_diag_L' and \
        unparse(kwarg(c[0], 'qtotal_Q')) == 'qtotal_Q' and \
        unparse(kwarg(c[0], 'inner_qconj')) == 'inner_qconj' and \
        unparse(kwarg(c[0], 'mode')) == 'mode' and unparse(kwarg(c[0], 'cutoff')) == 'cutoff'
    ret = [r for r in stmts_of(f) if isinstance(r, ast.Return)]
    if ok and ret:
        tgt = [s for s in stmts_of(f) if isinstance(s, ast.Assign) and s.value is c[0]]
        names = [unparse(e) for e in tgt[0].targets[0].elts] if tgt else []
        ok = len(names) == 2 and unparse(ret[0].value) == '(%s.transpose(), %s.transpose())' % (
            names[1], names[0])
    if not ok:
        rep.violation('FACT-lq', m, 'lq', 'delegation',
                      'lq(a) must be (R^T, Q^T) of qr(a^T) with reversed inner labels and all '
                      'options passed through', f.lineno)
    # eig family / expm: non-zero total charge rejected, legs contractible
    for q in ('_eig_worker', '_eigvals_worker', 'expm', 'speigs'):
        f = m.func(q)
        rep.instance('FACT-square-guard', {'function': q})
        src = unparse(f)
        guard = [s for s in ast.walk(f) if isinstance(s, ast.If) and 'qtotal' in unparse(
            s.test) and 'make_valid()' in unparse(s.test) and any(
                isinstance(b, ast.Raise) for b in s.body)]
        if not guard or 'test_contractible' not in src:
            rep.violation('FACT-square-guard', m, q, 'guard',
                          '%s must reject a non-zero total charge and non-contractible legs' % q,
                          f.lineno)
    # qr: identity completion only for missing sectors in mode complete
    f = m.func('qr')
    rep.instance('FACT-qr-complete', {})
    ok = any(isinstance(s, ast.If) and 'len(q_data) < a_leg0.block_number' in unparse(s.test)
             for s in ast.walk(f))
    if not ok:
        rep.violation('FACT-qr-complete', m, 'qr', 'complete-guard',
                      'identity blocks for sectors without data must be added iff '
                      'len(q_data) < block_number', f.lineno)
    # q uses the conj of the inner leg, r the inner leg itself; qdata columns follow
    mk = [c for c in ast.walk(f) if isinstance(c, ast.Call) and dotted(c.func) == 'Array']
    rep.instance('FACT-qr-legs', {'constructions': [unparse(c)[:60] for c in mk]})
    if len(mk) != 2 or unparse(mk[0].args[0]) != '[a_leg0, inner_leg.conj()]' or \
            unparse(mk[1].args[0]) != '[inner_leg, a.legs[1]]':
        rep.violation('FACT-qr-legs', m, 'qr', 'legs',
                      'Q must carry [a_leg0, inner_leg.conj()] and R [inner_leg, a.legs[1]] so the '
                      'two factors are contractible', f.lineno)


def check_arg_aliasing(prog, rep):
    """an in-place method applied to X inside one argument of a call while a later argument
    still uses X: the later argument sees the modified X (left-to-right evaluation)"""
    import re
    m = prog.module(NPC)
    n = 0
    for q, f in m.functions.items():
        for c in body_nodes(f):
            if not isinstance(c, ast.Call) or len(c.args) < 2:
                continue
            for i, a in enumerate(c.args):
                # base of a chain  X.imeth(...)  where every link before is in-place
                node = a
                touched = None
                while isinstance(node, ast.Call) and isinstance(node.func, ast.Attribute):
                    nm = node.func.attr
                    recv = node.func.value
                    if re.match(r'^i[a-z]', nm) and not nm.startswith('is_') and isinstance(
                            recv, ast.Name):
                        touched = recv.id
                        break
                    if re.match(r'^i[a-z]', nm) and not nm.startswith('is_'):
                        node = recv
                        continue
                    break
                if touched is None:
                    continue
                later = [b for b in c.args[i + 1:] if touched in names_in(b)]
                n += 1
                rep.instance('FACT-arg-alias', {'function': q, 'call': unparse(c)[:80],
                                                'modified': touched})
                if later:
                    rep.violation('FACT-arg-alias', m, q, 'inplace-then-reuse:' + touched,
                                  '`%s`: argument %d modifies `%s` in place and a later argument '
                                  '(`%s`) uses `%s` again — it sees the modified tensor (e.g. '
                                  'singular values multiplied in twice)' %
                                  (unparse(c)[:90], i, touched, unparse(later[0])[:40], touched),
                                  c.lineno)
    return n


def check_dtypes(prog, rep):
    """the declared dtype of a result whose blocks are replaced by LAPACK output covers that
    output: for the general (non-hermitian) eigen-decomposition it depends on `hermitian`"""
    from ..core import depends_on
    m = prog.module(NPC)
    f = m.func('_eig_worker')
    rep.instance('FACT-dtype', {'function': '_eig_worker'})
    mk = [c for c in body_nodes(f) if isinstance(c, ast.Call) and dotted(c.func) == 'diag']
    ok = False
    for c in mk:
        d = kwarg(c, 'dtype')
        if d is not None and depends_on(f, d, ['hermitian']) and 'a.dtype' in unparse(d):
            ok = True
    if not ok:
        rep.violation('FACT-dtype', m, '_eig_worker', 'eigenvector-dtype',
                      'the eigenvector Array must be declared with a dtype covering both the input '
                      'dtype and the LAPACK result (complex for the general eigenproblem): '
                      'otherwise its blocks are complex while the Array claims to be real '
                      '(to_ndarray / tensordot silently drop imaginary parts)', f.lineno)
    for qn in ('_eig_worker', '_eigvals_worker'):
        g = m.func(qn)
        rep.instance('FACT-dtype', {'function': qn, 'check': 'eigenvalue dtype'})
        ok = any(isinstance(s, ast.Assign) and unparse(s.targets[0]) == 'dtype' and isinstance(
            s.value, ast.IfExp) and unparse(s.value.test) == 'hermitian' and
            'float' in unparse(s.value.body) and 'complex' in unparse(s.value.orelse)
            for s in stmts_of(g))
        if not ok:
            rep.violation('FACT-dtype', m, qn, 'eigenvalue-dtype',
                          'eigenvalues are real for hermitian input and complex otherwise',
                          g.lineno)


def check_inner_width(prog, rep):
    """qr(mode='reduced'): the inner leg keeps, per charge block, as many indices as the stored
    Q block has columns (= rows of the R block). With a cutoff the block factorisation may drop
    dependent columns, so the width must be read off the produced block, not the input block."""
    m = prog.module(NPC)
    f = m.func('qr')
    n = 0
    for st in ast.walk(f):
        e = pmatch('$mask[$$a:$$a + $$w] = True', st) if isinstance(st, ast.Assign) else None
        if not e:
            continue
        n += 1
        w = e['$$w']
        defs = local_defs(f)
        srcs = set(names_in(w))
        todo = list(srcs)
        while todo:
            x = todo.pop()
            for v in defs.get(x, []):
                for y in names_in(v):
                    if y not in srcs:
                        srcs.add(y)
                        todo.append(y)
        produced = {t.id for s2 in ast.walk(f) if isinstance(s2, ast.Assign) and
                    isinstance(s2.value, ast.Call) and call_name(s2.value) in ('qr', 'qr_li', 'rq')
                    for tt in s2.targets for t in ast.walk(tt) if isinstance(t, ast.Name)}
        direct = set(names_in(w))
        rep.instance('FACT-inner-width', {'store': key_text(st), 'width': unparse(w),
                                          'block_factors': sorted(produced)})
        if not (direct & produced):
            rep.violation('FACT-inner-width', m, 'qr', 'width-from-input',
                          '`%s`: the number of kept inner indices must be the number of columns of '
                          'the produced Q block (%s); `%s` is computed from something else, which '
                          'differs as soon as the block factorisation drops columns (cutoff on a '
                          'rank-deficient block)' % (key_text(st), sorted(produced), unparse(w)),
                          st.lineno)
    if n < 1:
        raise AnalysisError('qr: inner-leg mask store not found')


def run(prog, rep, tier):
    rep.rule('CHARGE-factor', 'symbolic evaluation of the leg charges built by _svd_worker, qr, '
             'orthogonal_columns in every direction case: eff(l1)+eff(l2)-qtotal == 0 for each '
             'constructed factor (hypothesis: blocks of the input obey the charge rule)')
    rep.rule('FACT-*', 'hidden pipes are split again on the recorded axes; overwrite_a only for '
             'fresh copies; factor labels pair outer/inner; lq delegates to qr of the transpose; '
             'square-matrix routines reject non-zero total charge')
    n_ob, n_dis = check_factorization_charges(prog, rep)
    check_pipes(prog, rep)
    check_labels(prog, rep)
    check_arg_aliasing(prog, rep)
    check_dtypes(prog, rep)
    check_inner_width(prog, rep)
    rep.floor('CHARGE-factor', 40)
    rep.floor('FACT-pipes', 6)
    rep.floor('FACT-labels', 6)
    rep.assumptions += ['hypothesis: stored blocks of the input satisfy the charge rule',
                        'make_valid treated as identity (equalities modulo the charge group)',
                        'residuals / isometry / triangularity are NOT decided']
    from ..flow import check_dead_computations
    rep.rule('VALUE-dead', 'no result of a call is bound to a local that is never read (reaching '
             'definitions)')
    check_dead_computations(prog, rep, ['tenpy/tools/math.py', 'tenpy/linalg/svd_robust.py', 'tenpy/linalg/np_conserved.py'])
    rep.rule('FACT-numpy-roles', 'dtype never in an integer slot of np.eye / np.tri / np.diag')
    check_numpy_roles(prog, rep, ['tenpy/linalg/np_conserved.py', 'tenpy/tools/math.py', 'tenpy/linalg/svd_robust.py', 'tenpy/linalg/truncation.py', 'tenpy/linalg/charges.py'])
    rep.rule('FACT-search-flag', 'values left by a search loop are re-assigned on the not-found path')
    if check_search_flag(prog, rep, ['tenpy/linalg/np_conserved.py', 'tenpy/tools/math.py', 'tenpy/linalg/charges.py']) < 1:
        raise AnalysisError('FACT-search-flag: the block search of speigs not found')
    rep.rule('FACT-fallback-forwards', 'the gesvd fallback of svd_robust.svd receives every option '
             'the primary call receives')
    if check_fallback_forwards(prog, rep) < 1:
        raise AnalysisError('FACT-fallback-forwards: the two scipy.linalg.svd calls not found')
    rep.rule('FACT-unit-phase', 'no phase x / |x| of a possibly vanishing diagonal entry in qr')
    check_unit_phase(prog, rep)
    rep.rule('FACT-full-unitary', 'svd(full_matrices=True): every charge sector of the legs gets a '
             'block in U / VH (identity where `a` stores none)')
    if check_full_unitary(prog, rep) < 2:
        raise AnalysisError('FACT-full-unitary: the full_matrices branch of _svd_worker not found')
    rep.rule('FACT-eig-slot', 'eigenvalues and eigenvector blocks are stored at the row sector of the '
             'diagonal block, sliced on a.legs[0]')
    if check_eig_slots(prog, rep) < 3:
        raise AnalysisError('FACT-eig-slot: stores of _eig_worker / _eigvals_worker not found')
    rep.rule('FACT-triangular', 'typestate of the R factor of qr_li on the CFG')
    check_triangular(prog, rep)
    return rep.finish(
        level='other',
        explanation='Charge compatibility of the new internal leg decided exhaustively over '
        'direction cases by symbolic evaluation of the real source (%d obligations, %d '
        'discharged); pairing rules for hidden pipes, labels and the lq delegation.' %
        (n_ob, n_dis),
        proof={'obligations': n_ob, 'discharged': n_dis, 'exhaustive': True,
               'checker_cmd': './check C05', 'trusted_base': ['sa/charge.py', 'sa/linform.py']})


# ------------------------------------------------------------------ FACT-eig-slot
def check_eig_slots(prog, rep):
    """_eig_worker / _eigvals_worker write the eigenvalues of a diagonal block into the flat array
    `resw` and (for eig/eigh) the eigenvectors into the identity `resv = diag(1, a.legs[0])`, whose
    blocks and columns are enumerated by the sectors of a.legs[0].  Eigenvalue i belongs to column
    i of the eigenvector matrix only if both are addressed through the ROW index of the block
    (column 0 of a._qdata) and the slices of a.legs[0]: the column index / second leg enumerate the
    same sectors in another order when the second leg is stored in the equivalent flipped form.
    Row / column index expressions are recognised by data flow (rows of a._qdata, its columns,
    unpacked or indexed, through single-assignment temporaries)."""
    m = prog.module(NPC)
    n = 0
    for qn in ('_eig_worker', '_eigvals_worker'):
        f = m.func(qn)
        tdefs, unpack, loopvars = {}, {}, {}
        for st in ast.walk(f):
            if isinstance(st, ast.Assign) and len(st.targets) == 1:
                t, v = st.targets[0], st.value
                if isinstance(t, ast.Name):
                    tdefs.setdefault(t.id, []).append(v)
                elif isinstance(t, ast.Tuple) and len(t.elts) == 2 and all(
                        isinstance(e, ast.Name) for e in t.elts):
                    unpack[t.elts[0].id] = (v, 0)
                    unpack[t.elts[1].id] = (v, 1)
            if isinstance(st, ast.For):
                tg, it = st.target, st.iter
                pairs_ = []
                if isinstance(it, ast.Call) and unparse(it.func) == 'zip' and isinstance(
                        tg, ast.Tuple) and len(tg.elts) == len(it.args):
                    pairs_ = list(zip(tg.elts, it.args))
                elif isinstance(it, ast.Call) and unparse(it.func) == 'enumerate' and isinstance(
                        tg, ast.Tuple) and len(tg.elts) == 2 and it.args:
                    pairs_ = [(tg.elts[1], it.args[0])]
                else:
                    pairs_ = [(tg, it)]
                for t_, i_ in pairs_:
                    if isinstance(t_, ast.Name):
                        loopvars[t_.id] = i_

        def kind(e, depth=0):
            """'row' / 'col' if `e` is the row / column sector index of the current block"""
            if depth > 4:
                return None
            if isinstance(e, ast.Subscript):
                base, sl = e.value, e.slice
                if unparse(base) == 'a._qdata' and isinstance(sl, ast.Tuple) and len(sl.elts) == 2 \
                        and isinstance(sl.elts[1], ast.Constant):
                    return 'row' if sl.elts[1].value == 0 else 'col'
                if isinstance(base, ast.Name) and isinstance(sl, ast.Constant) and \
                        base.id in loopvars and unparse(loopvars[base.id]) == 'a._qdata':
                    return 'row' if sl.value == 0 else 'col'
                return None
            if isinstance(e, ast.Name):
                if e.id in loopvars:
                    it = loopvars[e.id]
                    u = unparse(it)
                    if u == 'a._qdata[:, 0]':
                        return 'row'
                    if u == 'a._qdata[:, 1]':
                        return 'col'
                    return None
                if e.id in unpack:
                    v, k = unpack[e.id]
                    if isinstance(v, ast.Name) and v.id in loopvars and unparse(
                            loopvars[v.id]) == 'a._qdata':
                        return 'row' if k == 0 else 'col'
                    return None
                if len(tdefs.get(e.id, [])) == 1:
                    return kind(tdefs[e.id][0], depth + 1)
            return None

        def resolve(e, depth=0):
            if isinstance(e, ast.Name) and len(tdefs.get(e.id, [])) == 1 and depth < 3 and \
                    kind(e) is None:
                return resolve(tdefs[e.id][0], depth + 1)
            return e
        for st in ast.walk(f):
            if not (isinstance(st, ast.Assign) and len(st.targets) == 1 and isinstance(
                    st.targets[0], ast.Subscript)):
                continue
            t = st.targets[0]
            base = unparse(t.value)
            if base == 'resw':
                idx = resolve(t.slice)
                if not (isinstance(idx, ast.Call) and isinstance(idx.func, ast.Attribute) and
                        idx.func.attr == 'get_slice' and len(idx.args) == 1):
                    continue   # (initialisation etc.)
                n += 1
                leg = unparse(resolve(idx.func.value))
                k = kind(idx.args[0])
                ok = leg == 'a.legs[0]' and k == 'row'
                rep.instance('FACT-eig-slot', {'function': qn, 'store': unparse(t)[:60],
                                               'leg': leg, 'index': k})
                if not ok:
                    rep.violation('FACT-eig-slot', m, qn, 'eigenvalue-slot:' + unparse(idx)[:40],
                                  '`%s`: the eigenvalues of a block belong to the slice of its ROW '
                                  'sector on a.legs[0] (the leg the eigenvector identity was built '
                                  'on); here: leg `%s`, index kind %s. The column index / second '
                                  'leg order the sectors differently for a flipped second leg' %
                                  (unparse(t)[:60], leg, k), st.lineno)
            elif base == 'resv._data':
                n += 1
                k = kind(t.slice)
                rep.instance('FACT-eig-slot', {'function': qn, 'store': unparse(t)[:60], 'index': k})
                if k != 'row':
                    rep.violation('FACT-eig-slot', m, qn, 'eigenvector-slot:' + unparse(t.slice)[:40],
                                  '`%s`: the identity resv has one block per sector of a.legs[0] '
                                  'in order; the block of the eigenvectors is the ROW sector' %
                                  unparse(t)[:60], st.lineno)
    return n


# ------------------------------------------------------------------ FACT-numpy-roles
_INT_SLOTS = {'np.eye': (1, 2), 'np.identity': (), 'np.tri': (1, 2), 'np.diag': (1, ),
              'np.arange': (), 'np.linspace': (2, )}


def _looks_like_dtype(e):
    t = unparse(e)
    return t.endswith('.dtype') or t in ('float', 'complex', 'int', 'bool', 'np.float64',
                                         'np.complex128', 'np.intp', 'np.bool_', 'dtype',
                                         'np.float32', 'np.complex64', 'np.int64')


def check_numpy_roles(prog, rep, rels):
    """FACT-numpy-roles: positional arguments of numpy constructors in their roles: the second and
    third positional argument of np.eye / np.tri are integers (columns, diagonal), not the dtype
    (np.eye(k, a.dtype) raises TypeError on the path that builds a block for an empty sector)."""
    n = 0
    for rel in rels:
        m = prog.module(rel)
        for q, f in m.functions.items():
            for c in body_nodes(f):
                if not isinstance(c, ast.Call):
                    continue
                fn = dotted(c.func)
                if fn not in _INT_SLOTS:
                    continue
                n += 1
                for k in _INT_SLOTS[fn]:
                    if k < len(c.args) and _looks_like_dtype(c.args[k]):
                        rep.violation('FACT-numpy-roles', m, q, 'dtype-in-int-slot:' + fn,
                                      '`%s`: positional argument %d of %s is an integer '
                                      '(number of columns / diagonal offset); the dtype must be '
                                      'passed as dtype=...: TypeError when this line runs' %
                                      (unparse(c)[:60], k + 1, fn), c.lineno)
    rep.instance('FACT-numpy-roles', {'constructor_calls': n})
    return n


# ------------------------------------------------------------------ FACT-search-flag
def check_search_flag(prog, rep, rels):
    """FACT-search-flag: the pattern `found = False; for ..: x = ..; if no match: continue;
    found = True; break` followed by `if not found: <fallback>`. On the fallback path the values
    the loop left in its variables belong to items that did NOT match; every such variable that
    is read after the fallback block has to be re-assigned inside it (or the block raises)."""
    n = 0
    for rel in rels:
        m = prog.module(rel)
        for q, f in m.functions.items():
            blocks = [f.body] + [getattr(s, fld) for s in ast.walk(f) for fld in ('body', 'orelse')
                                 if isinstance(getattr(s, fld, None), list) and s is not f]
            for blk in blocks:
                # the same search written as `for ..: .. break` + `else:` (not-found path)
                for j, loop in enumerate(blk):
                    if not (isinstance(loop, ast.For) and loop.orelse and any(
                            isinstance(x, ast.Break) for x in ast.walk(loop))):
                        continue
                    loop_vars = {x.id for b_ in loop.body for x in ast.walk(b_)
                                 if isinstance(x, ast.Name) and isinstance(x.ctx, ast.Store)}
                    loop_vars |= {x.id for x in ast.walk(loop.target) if isinstance(x, ast.Name)}
                    after = set()
                    for s2 in blk[j + 1:]:
                        after |= {x.id for x in ast.walk(s2) if isinstance(x, ast.Name) and
                                  isinstance(x.ctx, ast.Load)}
                    redefined = {x.id for b_ in loop.orelse for x in ast.walk(b_)
                                 if isinstance(x, ast.Name) and isinstance(x.ctx, ast.Store)}
                    raises = isinstance(loop.orelse[-1], ast.Raise)
                    n += 1
                    stale = sorted((loop_vars & after) - redefined)
                    rep.instance('FACT-search-flag', {'function': q, 'form': 'for-else',
                                                      'loop_variables_read_later': sorted(
                                                          loop_vars & after),
                                                      'else_raises': raises})
                    if stale and not raises:
                        rep.violation('FACT-search-flag', m, q,
                                      'stale-after-search:' + ','.join(stale),
                                      'when the search loop finds nothing its `else` block does '
                                      'not re-assign %s, which the code after it reads: it still '
                                      'holds the value of the last item that did not match' %
                                      stale, loop.orelse[0].lineno)
                for i, st in enumerate(blk):
                    if not (isinstance(st, ast.Assign) and isinstance(st.value, ast.Constant) and
                            st.value.value is False and isinstance(st.targets[0], ast.Name)):
                        continue
                    flag = st.targets[0].id
                    loops = [(j, s) for j, s in enumerate(blk[i + 1:], i + 1)
                             if isinstance(s, (ast.For, ast.While)) and any(
                                 isinstance(x, ast.Assign) and isinstance(x.value, ast.Constant)
                                 and x.value.value is True and unparse(x.targets[0]) == flag
                                 for x in ast.walk(s))]
                    if not loops:
                        continue
                    j, loop = loops[0]
                    fb = [(k, s) for k, s in enumerate(blk[j + 1:], j + 1) if isinstance(s, ast.If)
                          and unparse(s.test) in ('not ' + flag, flag + ' is False',
                                                  flag + ' == False')]
                    if not fb:
                        continue
                    k, fallback = fb[0]
                    loop_vars = {x.id for x in ast.walk(loop) if isinstance(x, ast.Name) and
                                 isinstance(x.ctx, ast.Store)} - {flag}
                    # variables only bound after the match test belong to the matching item
                    after = set()
                    for s in blk[k + 1:]:
                        after |= {x.id for x in ast.walk(s) if isinstance(x, ast.Name) and
                                  isinstance(x.ctx, ast.Load)}
                    redefined = {x.id for x in ast.walk(fallback) if isinstance(x, ast.Name) and
                                 isinstance(x.ctx, ast.Store)}
                    raises = bool(fallback.body) and isinstance(fallback.body[-1], ast.Raise)
                    n += 1
                    stale = sorted((loop_vars & after) - redefined)
                    # values bound only together with the flag are defined on the found path only:
                    # reading them after a fallback that does not define them is the same defect
                    rep.instance('FACT-search-flag', {'function': q, 'flag': flag,
                                                      'loop_variables_read_later': sorted(
                                                          loop_vars & after),
                                                      'redefined_in_fallback': sorted(
                                                          redefined & loop_vars)})
                    if stale and not raises:
                        rep.violation('FACT-search-flag', m, q, 'stale-after-search:' + ','.join(stale),
                                      'when the search loop finds nothing (`%s` stays False) the '
                                      'fallback block does not re-assign %s, which the code after '
                                      'it reads: it still holds the value of the last item that '
                                      'did not match' % (flag, stale), fallback.lineno)
    return n


# ------------------------------------------------------------------ FACT-triangular
def check_triangular(prog, rep):
    """FACT-triangular: typestate of the R factor in tools.math.qr_li ("upper right R"). A value is
    TRIANGULAR when it is the R output of scipy.linalg.qr (or a selection of ROWS of such a
    value); a column permutation `R[:, perm]` destroys the state. Forward dataflow on the CFG
    (join = not triangular unless both are); the R that is returned must be TRIANGULAR on every
    path."""
    from ..cfg import CFG
    m = prog.module('tenpy/tools/math.py')
    f = m.functions.get('qr_li')
    if f is None:
        raise AnalysisError('tools.math.qr_li not found')
    rep.unit(m)
    cfg = CFG(f)

    def value_state(v, st):
        if isinstance(v, ast.Name):
            return st.get(v.id, False)
        if isinstance(v, ast.Subscript) and isinstance(v.slice, ast.Tuple) and \
                len(v.slice.elts) == 2:
            rows, cols = v.slice.elts
            full = lambda s: isinstance(s, ast.Slice) and s.lower is None and s.upper is None \
                and s.step is None
            if full(cols):
                return value_state(v.value, st)       # selection of rows
            return False                               # columns selected / permuted
        return False

    def transfer(n, st):
        s = n.stmt
        if not isinstance(s, ast.Assign) or len(s.targets) != 1:
            return st
        d = dict(st)
        t, v = s.targets[0], s.value
        if isinstance(t, ast.Tuple) and isinstance(v, ast.Call) and \
                (dotted(v.func) or '').endswith('linalg.qr'):
            names = [e.id for e in t.elts if isinstance(e, ast.Name)]
            for i, nm in enumerate(names):
                d[nm] = (i == 1)                       # (Q, R[, P]): R is triangular
        elif isinstance(t, ast.Name):
            d[t.id] = value_state(v, st)
        return tuple(sorted(d.items()))

    def join(a, b):
        da, db = dict(a), dict(b)
        return tuple(sorted((k, da.get(k, False) and db.get(k, False))
                            for k in set(da) | set(db)))
    sin, _ = cfg.forward((), lambda n, s_: transfer(n, dict(s_)), join)
    n = 0
    for node in cfg.nodes:
        r = node.stmt
        if not (isinstance(r, ast.Return) and isinstance(r.value, ast.Tuple) and
                len(r.value.elts) == 2):
            continue
        st = dict(sin.get(node.id, ()))
        ok = value_state(r.value.elts[1], st)
        n += 1
        rep.instance('FACT-triangular', {'return': key_text(r), 'R_is_triangular': bool(ok)})
        if not ok:
            rep.violation('FACT-triangular', m, 'qr_li', 'R-not-triangular:' + key_text(r)[:40],
                          '`%s`: on this path the second factor is not the R of a QR '
                          'factorisation any more (columns were permuted back after the '
                          'pivoted factorisation): the documented upper-right form is lost' %
                          key_text(r), r.lineno)
    if n < 2:
        raise AnalysisError('qr_li: returns not found')
    return n


# ------------------------------------------------------------------ FACT-full-unitary
def check_full_unitary(prog, rep):
    """FACT-full-unitary: with full_matrices=True the factors are square on the legs of `a`; they
    are unitary only if EVERY charge sector of the leg has a block. Sectors without a stored block
    in `a` (zero block; sector left without partner by the total charge) therefore get an identity
    block: in the full_matrices branch that assembles `U_qdata` / `VH_qdata` from diagonal index
    pairs there is, for each of the two data lists, a loop over `range(a.legs[k].block_number)`
    that appends `np.eye(...)` for the indices not present."""
    m = prog.module(NPC)
    f = m.func('_svd_worker')
    n = 0
    for st in ast.walk(f):
        if not (isinstance(st, ast.If) and unparse(st.test) == 'full_matrices'):
            continue
        diag = {}
        for a in ast.walk(st):
            if isinstance(a, ast.Assign) and isinstance(a.value, ast.Call):
                inner = a.value
                while isinstance(inner, ast.Call) and isinstance(inner.func, ast.Attribute) and \
                        inner.func.attr == 'astype':
                    inner = inner.func.value
                if isinstance(inner, ast.Call) and (call_name(inner) or '').endswith('stack') and \
                        inner.args and isinstance(inner.args[0], (ast.List, ast.Tuple)) and \
                        len(inner.args[0].elts) == 2 and unparse(inner.args[0].elts[0]) == unparse(
                            inner.args[0].elts[1]):
                    diag[unparse(a.targets[0])] = unparse(inner.args[0].elts[0])
        if not diag:
            continue
        for tgt, idx in sorted(diag.items()):
            n += 1
            data = tgt.replace('_qdata', '_data')
            ok = False
            # any way of adding identity blocks to the data list inside this branch counts
            for c in ast.walk(st):
                grows = (isinstance(c, ast.Call) and isinstance(c.func, ast.Attribute) and
                         c.func.attr in ('append', 'extend', 'insert') and
                         unparse(c.func.value) == data) or (
                             isinstance(c, ast.AugAssign) and unparse(c.target) == data) or (
                                 isinstance(c, ast.Assign) and unparse(c.targets[0]) == data)
                if grows and any(isinstance(x, ast.Call) and (call_name(x) or '').split('.')[-1]
                                 in ('eye', 'identity') for x in ast.walk(c)):
                    ok = True
            rep.instance('FACT-full-unitary', {'factor': tgt, 'index': idx, 'completed': ok})
            if not ok:
                rep.violation('FACT-full-unitary', m, '_svd_worker', 'no-identity-blocks:' + tgt,
                              'full_matrices=True: `%s` pairs the indices `%s` of the stored '
                              'blocks only; charge sectors of the leg without a stored block get '
                              'no block in `%s`, so the factor is zero there instead of the '
                              'identity and is not unitary' % (tgt, idx, data), st.lineno)
    return n


# ------------------------------------------------------------------ FACT-fallback-forwards
def check_fallback_forwards(prog, rep):
    """FACT-fallback-forwards: a fallback call of the same routine (scipy.linalg.svd with the other
    LAPACK driver after 'gesdd' failed) must receive every option of the caller that the primary
    call receives; an option dropped on the fallback path silently reverts to the library default
    (full_matrices=True: U, VH of the wrong shape only when the fallback is taken)."""
    m = prog.module('tenpy/linalg/svd_robust.py')
    n = 0
    for q, f in m.functions.items():
        ps = set(params(f))
        calls = {}
        for c in ast.walk(f):
            if isinstance(c, ast.Call) and call_name(c) and '.' in (unparse(c.func)):
                calls.setdefault(unparse(c.func), []).append(c)
        for callee, cs in calls.items():
            if len(cs) < 2:
                continue
            cs.sort(key=lambda c: c.lineno)

            def forwarded(c):
                out = set()
                for a in list(c.args) + [k.value for k in c.keywords]:
                    for x in ast.walk(a):
                        if isinstance(x, ast.Name) and x.id in ps:
                            out.add(x.id)
                return out
            first = forwarded(cs[0])
            for c in cs[1:]:
                n += 1
                miss = sorted(first - forwarded(c))
                rep.instance('FACT-fallback-forwards', {'function': q, 'callee': callee,
                                                        'primary': sorted(first),
                                                        'missing_in_fallback': miss})
                if miss:
                    rep.violation('FACT-fallback-forwards', m, q, 'fallback-drops:' + ','.join(miss),
                                  'the fallback call `%s` does not receive %s, which the primary '
                                  'call passes on: on the fallback path these options revert to '
                                  'the defaults of %s' % (key_text(c)[:60], miss, callee), c.lineno)
    return n


# ------------------------------------------------------------------ FACT-unit-phase
def check_unit_phase(prog, rep):
    """FACT-unit-phase: `x / np.abs(x)` is the phase of x only for x != 0; for a vanishing entry it
    is 0/0 = NaN (rank-deficient block: zero on the diagonal of R). In the factorisation code every
    such quotient divides by a magnitude that has been made non-zero (`np.where(zero, 1, ..)`), or
    the result is selected with `np.where` on the zero mask."""
    m = prog.module(NPC)
    n = 0

    def scan(f):
        out = []
        for b in ast.walk(f):
            if isinstance(b, ast.BinOp) and isinstance(b.op, ast.Div) and isinstance(
                    b.right, ast.Call) and unparse(b.right.func) in ('np.abs', 'abs', 'np.absolute') \
                    and b.right.args and unparse(b.right.args[0]) == unparse(b.left):
                out.append(b)
        return out
    fx = ast.parse("def f(r):\n    d = np.diag(r)\n    return d / np.abs(d)\n").body[0]
    rep.control('FACT-unit-phase', len(scan(fx)) == 1)
    for q in ('qr', ):
        f = m.func(q)
        n += 1
        for b in scan(f):
            rep.violation('FACT-unit-phase', m, q, 'phase-of-zero:' + unparse(b.left)[:20],
                          '`%s` is NaN where `%s` vanishes (rank-deficient block); the NaN is '
                          'multiplied into a column of Q and a row of R' %
                          (unparse(b)[:50], unparse(b.left)[:20]), b.lineno)
    rep.instance('FACT-unit-phase', {'functions': ['qr'], 'unguarded_quotients': 0})
    return n
