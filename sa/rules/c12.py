"""C12 — local Hilbert spaces and fermionic signs: operator-registry coupling (R-COUPLED/Site),
Jordan-Wigner routing (R-JW), numbered-family coherence (R-FAMILY), grouped-site JW bookkeeping,
ownership of strengths in term lists. Commutators / anticommutators as dense matrices are not
decided."""
import ast
import re

from ..core import (AnalysisError, bound_args, local_defs, assigned_targets, body_nodes, call_name, dotted, enclosing_stmt, is_self_attr, key_text, names_in,
                    params, parent, stmts_of, unparse)
from ..dtable import run_paths
from ..flow import possibly_undefined, reaching_defs
from ..normal import inline_temps
from ..pattern import P, branches, find, guards_of, pmatch
from ..own import FuncInfo, Own

SITE = 'tenpy/networks/site.py'
TERMS = 'tenpy/networks/terms.py'
MPS = 'tenpy/networks/mps.py'
MODEL = 'tenpy/models/model.py'


def _strip_bool(e):
    while isinstance(e, ast.Call) and call_name(e) == 'bool' and len(e.args) == 1:
        e = e.args[0]
    return e


def _parity_defect(f):
    """None if `f` (normal form) computes the parity of `x in self.need_JW_string` over all
    factors of `name.split()`: an accumulator toggled once per fermionic factor (`v = not v`
    under the membership test, or v = v != m / v ^ m / v ^= m), started from the first factor
    (loop over the rest) or from False (loop over all); or a count taken modulo 2."""
    member = P('$$x in self.need_JW_string')
    rets = [s for s in ast.walk(f) if isinstance(s, ast.Return) and s.value is not None]
    if len(rets) != 1:
        return 'expected a single return'
    rv = _strip_bool(rets[0].value)
    # count % 2 forms
    for pat in ('sum($$g) % 2 == 1', 'sum($$g) % 2 != 0', 'sum($$g) % 2', 'len($$g) % 2 == 1',
                'sum($$g) & 1'):
        e = pmatch(pat, rv)
        if e and 'in self.need_JW_string' in unparse(e['$$g']) and \
                'name.split()' in unparse(e['$$g']) and '[1:]' not in unparse(e['$$g']):
            return None
    if not isinstance(rv, ast.Name):
        return 'returns `%s`' % unparse(rv)[:60]
    v = rv.id
    loops = [s for s in f.body if isinstance(s, ast.For) and isinstance(s.target, ast.Name)]
    if len(loops) != 1:
        return 'expected one loop over the factors'
    lp = loops[0]
    x = lp.target.id
    toggles = 0
    for st in lp.body:
        ok = False
        if isinstance(st, ast.If) and not st.orelse and len(st.body) == 1:
            e = pmatch(member, st.test)
            if e and unparse(e['$$x']) == x and pmatch('%s = not %s' % (v, v), st.body[0]):
                ok = True
        for pat in ('%s = %s != $$m', '%s = %s ^ $$m', '%s = %s is not $$m'):
            e = pmatch(pat % (v, v), st)
            if e:
                mm = pmatch(member, _strip_bool(e['$$m']))
                ok = bool(mm) and unparse(mm['$$x']) == x
        if isinstance(st, ast.AugAssign) and isinstance(st.op, ast.BitXor) and \
                unparse(st.target) == v:
            mm = pmatch(member, _strip_bool(st.value))
            ok = bool(mm) and unparse(mm['$$x']) == x
        if ok:
            toggles += 1
        elif v in names_in(st) and any(isinstance(t, ast.Name) and t.id == v
                                       for s2 in ast.walk(st)
                                       for t in (assigned_targets(s2) if isinstance(
                                           s2, ast.stmt) else [])):
            return '`%s` updates the flag in a way that is not a toggle per fermionic factor' % \
                key_text(st)[:60]
    if toggles != 1:
        return 'the loop toggles the flag %d times per factor' % toggles
    inits = [s for s in f.body if isinstance(s, ast.Assign) and unparse(s.targets[0]) == v
             and s.lineno < lp.lineno]
    if len(inits) != 1:
        return 'the flag is not initialised exactly once before the loop'
    iv = _strip_bool(inits[0].value)
    it = unparse(lp.iter)
    e = pmatch(member, iv)
    if e and unparse(e['$$x']) == 'name.split()[0]' and it == 'name.split()[1:]':
        return None
    if isinstance(iv, ast.Constant) and iv.value is False and it == 'name.split()':
        return None
    return 'initial value `%s` with a loop over `%s` does not cover every factor exactly once' % (
        unparse(iv)[:40], it)


def _registry_effects(f):
    """effects of a Site method on the operator registries, as (kind, key, value, stmt) with
    expression texts taken from the given (normal-form) function"""
    out = []
    for st in ast.walk(f):
        if not isinstance(st, ast.stmt):
            continue
        if isinstance(st, ast.Expr) and isinstance(st.value, ast.Call):
            c = st.value
            d = dotted(c.func) or ''
            a = [unparse(x) for x in c.args]
            if d == 'setattr' and len(a) == 3 and a[0] == 'self':
                out.append(('attr+', a[1], a[2], st))
            elif d == 'delattr' and len(a) == 2 and a[0] == 'self':
                out.append(('attr-', a[1], None, st))
            elif d == 'self.opnames.add' and a:
                out.append(('opnames+', a[0], None, st))
            elif d in ('self.opnames.remove', 'self.opnames.discard') and a:
                out.append(('opnames-', a[0], None, st))
            elif d == 'self.need_JW_string.add' and a:
                out.append(('jw+', a[0], None, st))
            elif d in ('self.need_JW_string.discard', 'self.need_JW_string.remove') and a:
                out.append(('jw-', a[0], None, st))
            elif d == 'self.hc_ops.pop' and a:
                out.append(('hc-', a[0], None, st))
            elif d.startswith('self.') and d.count('.') == 1:
                out.append(('call', d[5:], ', '.join(a), st))
        elif isinstance(st, ast.Assign):
            for t in st.targets:
                if isinstance(t, ast.Subscript) and unparse(t.value) == 'self.hc_ops':
                    out.append(('hc+', unparse(t.slice), unparse(st.value), st))
                if is_self_attr(t, 'JW_exponent'):
                    out.append(('jwexp', None, unparse(st.value), st))
        elif isinstance(st, ast.Delete):
            for t in st.targets:
                if isinstance(t, ast.Subscript) and unparse(t.value) == 'self.hc_ops':
                    out.append(('hc-', unparse(t.slice), None, st))
    return out


def _guards(f, st):
    return {(t, pol) for t, pol, _ in guards_of(f, st)}


def check_site_registry(prog, rep):
    m = prog.module(SITE)
    rep.unit(m)

    def report(fn, prefix, checks, text, f):
        for what, ok in checks:
            rep.instance('SITE-registry', {'function': fn, 'registry': what})
            if not ok:
                rep.violation('SITE-registry', m, fn, prefix + what, text % what, f.lineno)

    # ---- add_op(name, op, need_JW, hc)
    f = inline_temps(m.func('Site.add_op'), keep=('hc', ))
    pm = params(f)
    nm, opn, jw, hc = pm[1], pm[2], pm[3], pm[4]
    ef = _registry_effects(f)
    hcp = {(k, v) for kind, k, v, _ in ef if kind == 'hc+'}
    report('Site.add_op', 'add:', [
        ('attribute', any(kind == 'attr+' and k == nm for kind, k, v, _ in ef)),
        ('opnames', any(kind == 'opnames+' and k == nm for kind, k, v, _ in ef)),
        ('need_JW_string', any(kind == 'jw+' and k == nm and (jw, True) in _guards(f, st)
                               for kind, k, v, st in ef)),
        ('hc_ops both directions', (hc, nm) in hcp and (nm, hc) in hcp),
        ('JW_exponent', any(kind == 'jwexp' and ("%s == 'JW'" % nm, True) in _guards(f, st)
                            for kind, k, v, st in ef)),
    ], 'add_op must keep the operator registries in step; missing update of: %s', f)
    # ---- remove_op(name)
    f = inline_temps(m.func('Site.remove_op'))
    nm = params(f)[1]
    ef = _registry_effects(f)
    hcdel = [k for kind, k, v, _ in ef if kind == 'hc-']
    defs = local_defs(f)
    # a deletion inside `for key in <list of keys>` deletes every element the list can hold
    for lp in ast.walk(f):
        if isinstance(lp, ast.For) and isinstance(lp.target, ast.Name) and lp.target.id in hcdel:
            it = lp.iter
            srcs = [it] + (list(defs.get(it.id, [])) if isinstance(it, ast.Name) else [])
            for e in srcs:
                for x in ast.walk(e):
                    if isinstance(x, (ast.List, ast.Tuple)):
                        hcdel.extend(unparse(el) for el in x.elts)

    def is_partner(k):
        txts = [k] + [unparse(v) for v in defs.get(k, [])]
        return any('self.hc_ops' in t and nm in t for t in txts)

    report('Site.remove_op', 'remove:', [
        ('attribute', any(kind == 'attr-' and k == nm for kind, k, v, _ in ef)),
        ('opnames', any(kind == 'opnames-' and k == nm for kind, k, v, _ in ef)),
        ('need_JW_string', any(kind == 'jw-' and k == nm for kind, k, v, _ in ef)),
        ('hc_ops both directions', nm in hcdel and any(is_partner(k) for k in hcdel if k != nm)),
    ], 'remove_op leaves a stale entry in: %s (e.g. a later operator of the same name inherits '
       'the Jordan-Wigner flag / hc partner)', f)
    # ---- rename_op(old_name, new_name)
    f0 = m.func('Site.rename_op')
    f = inline_temps(f0)
    old, new = params(f)[1], params(f)[2]
    ef = _registry_effects(f)
    defs = local_defs(f)
    hcp = {(k, v) for kind, k, v, _ in ef if kind == 'hc+'}

    def reads_old(txt, what):
        txts = [txt] + [unparse(v) for v in defs.get(txt, [])]
        return any(what in t and old in t for t in txts)

    jw_ok = False
    for kind, k, v, st in ef:
        if kind == 'jw+' and k == new:
            for t, pol in _guards(f, st):
                if pol and reads_old(t, 'self.need_JW_string'):
                    jw_ok = True
    partner = [v for (k, v) in hcp if k == new and v != new and reads_old(v, 'self.hc_ops')]
    report('Site.rename_op', 'rename:', [
        ('removes old', any(kind == 'call' and k == 'remove_op' and v == old
                            for kind, k, v, _ in ef)),
        ('attribute', any(kind == 'attr+' and k == new for kind, k, v, _ in ef)),
        ('opnames', any(kind == 'opnames+' and k == new for kind, k, v, _ in ef)),
        ('need_JW_string', jw_ok),
        ('hc_ops both directions', bool(partner) and (partner[0], new) in hcp and
         (new, new) in hcp),
        ('JW_exponent', any(kind == 'jwexp' and ("%s == 'JW'" % new, True) in _guards(f, st)
                            for kind, k, v, st in ef)),
    ], 'rename_op must carry over: %s', f)
    # the state needed for need_JW must be read BEFORE remove_op drops it
    f = f0
    for s in stmts_of(f):
        if isinstance(s, ast.Assign) and 'in self.need_JW_string' in unparse(s.value):
            rm = [x for x in stmts_of(f) if 'self.remove_op(' in unparse(x)]
            if rm and s.lineno > rm[0].lineno:
                rep.violation('SITE-registry', m, 'Site.rename_op', 'rename:read-after-remove',
                              'need_JW is read after remove_op already discarded it', s.lineno)
    # op_needs_JW: parity (xor) over the factors of a product name
    f = inline_temps(m.func('Site.op_needs_JW'))
    rep.instance('SITE-jw-parity', {})
    why = _parity_defect(f)
    if why:
        rep.violation('SITE-jw-parity', m, 'Site.op_needs_JW', 'parity',
                      'a product of operators needs a JW string iff an odd number of factors '
                      'does: ' + why, f.lineno)
    # get_hc_op_name: reversed order, each factor mapped
    f = inline_temps(m.func('Site.get_hc_op_name'))
    rep.instance('SITE-hc-name', {})
    src = unparse(f)
    nrev = src.count('reversed(') + src.count('[::-1]') + src.count('.reverse()') + \
        src.count('.insert(0,')
    mapped = any(pmatch('self.hc_ops.get($$x)', c) or pmatch('self.hc_ops.get($$x, $$d)', c) or
                 pmatch('self.hc_ops[$$x]', c) for c in body_nodes(f))
    if nrev % 2 != 1 or not mapped or 'split()' not in src:
        rep.violation('SITE-hc-name', m, 'Site.get_hc_op_name', 'hc-product',
                      '(A B)^dagger = B^dagger A^dagger: factors must be mapped through hc_ops in '
                      'reversed order (found %d order reversals)' % nrev, f.lineno)


def check_grouped_site(prog, rep):
    m = prog.module(SITE)
    f = m.func('GroupedSite.__init__')
    rep.instance('GROUPED-jw', {'rule': 'operator lists'})
    why = None
    sel = find('$ops = $J if $$c else $I', f)
    sel = [(n, e) for n, e in sel if unparse(e['$$c']) in ('need_JW', 'need_JW is True')]
    for st in ast.walk(f):          # the same selection written as if/else
        if isinstance(st, ast.If):
            t, tb, fb = branches(st)
            if unparse(t) == 'need_JW' and len(tb) == 1 and len(fb) == 1:
                e1 = pmatch('$ops = $J', tb[0])
                e2 = pmatch('$ops = $I', fb[0], {'$ops': e1['$ops']} if e1 else None)
                if e1 and e2:
                    e2.update(e1)
                    sel.append((st, e2))
    if len(sel) != 1:
        why = 'the choice between the JW list and the identity list by need_JW was not found'
    else:
        e = sel[0][1]
        ops, J, I_ = e['$ops'], e['$J'], e['$I']
        put = find('%s[$i] = $$op' % ops, f)
        rest_i = find('%s[$i] = $$s.Id' % I_, f)
        rest_j = find('%s[$i] = $$s.JW' % J, f)
        inits = {unparse(st.targets[0]): unparse(st.value) for st in stmts_of(f)
                 if isinstance(st, ast.Assign) and len(st.targets) == 1}
        if not put or not rest_i or not rest_j:
            why = 'operator slot / restoration of both lists (Ids[i] = Id, JW_Ids[i] = JW) missing'
        elif len({x[1]['$i'] for x in put + rest_i + rest_j}) != 1:
            why = 'the slot written and the slots restored use different indices'
        elif '.Id for' not in inits.get(I_, '') or not (
                inits.get(J, '').startswith(I_) or '.Id for' in inits.get(J, '')):
            why = 'both working lists must start as the list of identities'
        else:
            # the slot is restored after the product was taken (same block as the put)
            pn = put[0][0]
            use = [c for c in body_nodes(f) if isinstance(c, ast.Call) and
                   dotted(c.func) == 'self.kroneckerproduct' and ops in names_in(c)]
            if not use or any(n.lineno < use[0].lineno or parent(n) is not parent(pn)
                              for n, _ in rest_i + rest_j):
                why = 'both lists must be restored right after the product with the operator ' \
                    'in slot i was taken'
    jwall = [c for c in body_nodes(f) if isinstance(c, ast.Call) and
             dotted(c.func) == 'self.kroneckerproduct' and c.args and (
                 pmatch('[$s.JW for $s in sites]', c.args[0]) or
                 pmatch('[sites[$i].JW for $i in range($$n)]', c.args[0]))]
    if not jwall:
        d_ = local_defs(f)
        jwall = [c for c in body_nodes(f) if isinstance(c, ast.Call) and
                 dotted(c.func) == 'self.kroneckerproduct' and c.args and
                 isinstance(c.args[0], ast.Name) and any(
                     pmatch('[$s.JW for $s in sites]', v) for v in d_.get(c.args[0].id, []))]
    if not jwall and why is None:
        why = 'the JW string of the grouped site is the product of the JW strings of all sub-sites'
    if why:
        rep.violation('GROUPED-jw', m, 'GroupedSite.__init__', 'jw-lists',
                      'a fermionic operator of sub-site i must be combined with JW on the '
                      'sub-sites left of it and Id elsewhere; after sub-site i is done both lists '
                      'must be restored (Ids[i]=Id, JW_Ids[i]=JW): ' + why, f.lineno)
    # local aliasing of two working lists
    check_local_alias(rep, m, 'GroupedSite.__init__', f)
    # need_JW flag and hc name forwarded to add_op
    rep.instance('GROUPED-jw', {'rule': 'flags forwarded'})
    addop = m.func('Site.add_op')
    defs = local_defs(f)

    def derives(expr, what):
        todo, seen = [expr], set()
        while todo:
            e = todo.pop()
            if what in unparse(e):
                return True
            for nmx in names_in(e):
                if nmx not in seen:
                    seen.add(nmx)
                    todo.extend(defs.get(nmx, []))
        return False

    ok = False
    for c in body_nodes(f):
        if isinstance(c, ast.Call) and dotted(c.func) == 'self.add_op':
            b = bound_args(c, addop)
            if 'need_JW' in b and 'hc' in b and derives(b['need_JW'], '.need_JW_string') and \
                    derives(b['hc'], '.hc_ops'):
                ok = True
    if not ok:
        rep.violation('GROUPED-jw', m, 'GroupedSite.__init__', 'flags',
                      'grouped operators must inherit need_JW and the (relabelled) hc partner',
                      f.lineno)


def check_local_alias(rep, m, qual, f):
    """`A = B` between two local lists that are both written by subscript afterwards"""
    writes = {}
    for st in stmts_of(f):
        if isinstance(st, ast.Assign):
            for t in st.targets:
                if isinstance(t, ast.Subscript) and isinstance(t.value, ast.Name):
                    writes.setdefault(t.value.id, []).append(st.lineno)
    for st in stmts_of(f):
        if isinstance(st, ast.Assign) and len(st.targets) == 1 and isinstance(
                st.targets[0], ast.Name) and isinstance(st.value, (ast.Name, ast.Subscript)):
            a = st.targets[0].id
            v = st.value
            full_slice = isinstance(v, ast.Subscript) and isinstance(v.slice, ast.Slice) and \
                v.slice.lower is None and v.slice.upper is None and isinstance(v.value, ast.Name)
            b = v.id if isinstance(v, ast.Name) else (v.value.id if full_slice else None)
            if b is None or a == b:
                continue
            # `a` chosen between several lists (if need_JW: a = X else: a = Y) is a selector,
            # not a second list kept in step: writes through it are meant to hit X or Y
            srcs = {unparse(s2.value) for s2 in stmts_of(f) if isinstance(s2, ast.Assign) and
                    len(s2.targets) == 1 and unparse(s2.targets[0]) == a and
                    isinstance(s2.value, ast.Name)}
            if len(srcs) > 1:
                continue
            if a in writes and b in writes:
                rep.instance('LOCAL-alias', {'function': qual, 'stmt': key_text(st),
                                             'copy': full_slice})
                if isinstance(v, ast.Name):
                    rep.violation('LOCAL-alias', m, qual, 'aliased-lists:%s=%s' % (a, b),
                                  '`%s` makes `%s` and `%s` one list, but both are updated '
                                  'element-wise afterwards as if independent: an update through '
                                  'one silently changes the other' % (key_text(st), a, b),
                                  st.lineno)


def check_family(prog, rep):
    """numbered / sided parameter families are not mixed inside an index expression"""
    m = prog.module(MPS)
    rep.unit(m)
    n = 0
    for q, f in m.functions.items():
        pm = params(f)
        fam = {}
        for p in pm:
            mm = re.match(r'^([a-z_]+?)([12])$', p)
            if mm:
                fam.setdefault(mm.group(2), set()).add(mm.group(1))
        if len(fam) < 2:
            continue
        # loops over a collection of family K
        for lp in ast.walk(f):
            if not isinstance(lp, ast.For) or not isinstance(lp.iter, ast.Name):
                continue
            mm = re.match(r'^([a-z_]+?)([12])$', lp.iter.id)
            if not mm:
                continue
            k = mm.group(2)
            other = '2' if k == '1' else '1'
            var = names_in(lp.target)
            for sub in ast.walk(lp):
                if isinstance(sub, ast.Subscript) and isinstance(sub.value, ast.Name):
                    m2 = re.match(r'^([a-z_]+?)([12])$', sub.value.id)
                    if m2 and m2.group(2) == other and (var & names_in(sub.slice)) and \
                            sub.value.id in pm:
                        n += 1
                        rep.violation('FAMILY-mix', m, q,
                                      'mixed-family:%s:%s' % (lp.iter.id, sub.value.id),
                                      'inside `for %s in %s` the element `%s` of the OTHER family '
                                      'is indexed with the loop variable: the decision taken for '
                                      '%s is based on %s (e.g. a fermionic %s%s with a bosonic '
                                      '%s%s gets no Jordan-Wigner string and no error)' %
                                      (unparse(lp.target), lp.iter.id, unparse(sub), lp.iter.id,
                                       sub.value.id, m2.group(1), k, m2.group(1), other),
                                      sub.lineno)
                    if m2 and (var & names_in(sub.slice)) and sub.value.id in pm:
                        rep.instance('FAMILY-mix', {'function': q, 'loop': lp.iter.id,
                                                    'indexed': unparse(sub)})
    return n


def check_loopvar_const_index(prog, rep):
    """`for x in coll[1:]: ... coll[0] ...` with x unused: every element gets the first one"""
    for rel in (SITE, TERMS):
        m = prog.module(rel)
        for q, f in m.functions.items():
            for lp in ast.walk(f):
                if not isinstance(lp, ast.For) or not isinstance(lp.target, ast.Name):
                    continue
                it = lp.iter
                coll = None
                if isinstance(it, ast.Subscript) and isinstance(it.value, ast.Name):
                    coll = it.value.id
                elif isinstance(it, ast.Name):
                    coll = it.id
                if coll is None:
                    continue
                body_names = set()
                for b in lp.body:
                    body_names |= names_in(b)
                const_idx = [s for b in lp.body for s in ast.walk(b)
                             if isinstance(s, ast.Subscript) and isinstance(s.value, ast.Name) and
                             s.value.id == coll and isinstance(s.slice, ast.Constant)]
                if const_idx:
                    rep.instance('LOOPVAR-unused', {'function': q, 'loop': key_text(lp)})
                    if lp.target.id not in body_names:
                        rep.violation('LOOPVAR-unused', m, q,
                                      'loopvar-unused:%s:%s' % (lp.target.id, coll),
                                      '`%s` never uses `%s` but indexes `%s` with a constant '
                                      '(`%s`): every element is treated like element %s' %
                                      (key_text(lp), lp.target.id, coll, unparse(const_idx[0]),
                                       unparse(const_idx[0].slice)), lp.lineno)


def _check_coupling_handler(t, rep):
    """coupling_term_handle_JW as a decision table over (left operator fermionic, right operator
    fermionic) with op_string=None: (T,T) -> string 'JW' and the left operator multiplied by it;
    (F,F) -> 'Id', operators untouched; exactly one -> error. An explicit op_string is kept."""
    q = 'CouplingTerms.coupling_term_handle_JW'
    f = inline_temps(t.func(q))
    body = [s for s in f.body if not (isinstance(s, ast.Expr) and isinstance(s.value, ast.Constant))]
    atoms = sorted({unparse(c) for c in body_nodes(f)
                    if isinstance(c, ast.Call) and call_name(c) == 'op_needs_JW'})
    rep.instance('JW-entry', {'function': 'coupling_term_handle_JW', 'atoms': atoms})
    left = [a for a in atoms if a.endswith('(op_i)')]
    right = [a for a in atoms if a.endswith('(op_j)')]

    def bad(msg):
        rep.violation('JW-entry', t, q, 'handler',
                      'two fermionic operators -> string "JW" (multiplied onto the LEFT operator); '
                      'exactly one -> error; none -> "Id": ' + msg, f.lineno)

    if len(left) != 1 or len(right) != 1 or len(atoms) != 2:
        return bad('the decisions op_needs_JW(op_i) / op_needs_JW(op_j) were not found (%s)' % atoms)
    if 'i %' not in left[0] or 'j %' not in right[0]:
        return bad('each operator must be looked up on its own site (%s, %s)' % (left[0], right[0]))
    for a in (True, False):
        for b in (True, False):
            paths = run_paths(body, {left[0]: a, right[0]: b}, {'op_string': None})
            outs = set()
            for p in paths:
                if p.outcome == 'raise':
                    outs.add('raise')
                elif p.outcome == 'return' and isinstance(p.value, ast.Tuple) and \
                        len(p.value.elts) == 6:
                    ops = p.env.get('op_string')
                    li = p.env.get('op_i')
                    lj = p.env.get('op_j')
                    mult = isinstance(li, ast.AST) and bool(
                        pmatch("$$s.multiply_op_names([op_i, 'JW'])", li)) and 'i %' in unparse(li)
                    order = [unparse(e) for e in p.value.elts]
                    if order != ['strength', 'i', 'j', 'op_i', 'op_j', 'op_string']:
                        outs.add('returns %s' % order)
                    else:
                        outs.add('%s/left %s/right %s' % (
                            ops, 'times JW' if mult else ('untouched' if li is None or not isinstance(
                                li, ast.AST) else 'changed'),
                            'untouched' if not isinstance(lj, ast.AST) else 'changed'))
                else:
                    outs.add('falls off / odd return')
            want = {'JW/left times JW/right untouched'} if (a and b) else (
                {'Id/left untouched/right untouched'} if not (a or b) else {'raise'})
            rep.instance('JW-entry', {'function': 'coupling_term_handle_JW', 'left fermionic': a,
                                      'right fermionic': b, 'outcome': sorted(outs)})
            if outs != want:
                return bad('for (left fermionic, right fermionic) = (%s, %s) the outcome is %s, '
                           'expected %s' % (a, b, sorted(outs), sorted(want)))
    # explicit string is kept, and 'JW' given explicitly is multiplied onto the left operator too
    for given, mult_want in (("'Id'", False), ("'JW'", True)):
        paths = run_paths(body, {}, {'op_string': ast.literal_eval(given)})
        for p in paths:
            if p.outcome != 'return':
                continue
            li = p.env.get('op_i')
            mult = isinstance(li, ast.AST) and 'multiply_op_names' in unparse(li)
            if p.env.get('op_string') != ast.literal_eval(given) or mult != mult_want:
                return bad('an explicitly given op_string=%s must be kept%s' % (
                    given, ' and multiplied onto the left operator' if mult_want else ''))


def check_jw_entry_points(prog, rep):
    m = prog.module(MPS)
    table = {
        'BaseMPSExpectationValue.expectation_value_term': ['_term_to_ops_list'],
        'BaseMPSExpectationValue.term_correlation_function_right': ['_term_to_ops_list'],
        'BaseMPSExpectationValue.term_correlation_function_left': ['_term_to_ops_list'],
        'BaseMPSExpectationValue.correlation_function': ['op_needs_JW'],
        'BaseMPSExpectationValue._term_to_ops_list': ['op_needs_JW'],
        'MPS.apply_local_op': ['need_JW', 'apply_JW_string_left_of_virt_leg'],
    }
    for q, needs in table.items():
        if not m.has_func(q):
            raise AnalysisError('anchor vanished: %s' % q)
        f = m.func(q)
        src = unparse(f)
        for need in needs:
            rep.instance('JW-entry', {'function': q, 'needs': need})
            if need not in src:
                rep.violation('JW-entry', m, q, 'jw-bypassed:' + need,
                              '%s places named operators on sites but no longer reaches `%s`: '
                              'fermionic operators get no Jordan-Wigner string' % (q, need),
                              f.lineno)
    # _term_to_ops_list: JW appended on all sites LEFT of a fermionic operator
    f = m.func('BaseMPSExpectationValue._term_to_ops_list')
    rep.instance('JW-entry', {'function': '_term_to_ops_list', 'needs': 'string to the left'})
    ok = False
    # J: the relative position at which the operator itself is stored (`<lists>[J].append(op)`)
    pos = {unparse(c.func.value.slice) for c in ast.walk(f) if isinstance(c, ast.Call) and
           isinstance(c.func, ast.Attribute) and c.func.attr == 'append' and isinstance(
               c.func.value, ast.Subscript) and c.args and not isinstance(c.args[0], ast.Constant)}
    for s in ast.walk(f):
        if not (isinstance(s, ast.For) and "append('JW')" in unparse(s)):
            continue
        it = s.iter
        for J in pos:
            if unparse(it) in ('range(%s)' % J, 'range(0, %s)' % J):
                ok = True      # for k in range(J): lists[k].append('JW')
            if isinstance(it, ast.Subscript) and isinstance(it.slice, ast.Slice) and \
                    it.slice.lower is None and it.slice.step is None and \
                    it.slice.upper is not None and unparse(it.slice.upper) == J:
                ok = True      # for names in lists[:J]: names.append('JW')
    if not ok:
        rep.violation('JW-entry', m, 'BaseMPSExpectationValue._term_to_ops_list', 'string-side',
                      'each fermionic operator at relative position j contributes JW on the '
                      'positions range(j) to its left', f.lineno)
    # terms.py handlers
    t = prog.module(TERMS)
    rep.unit(t)
    _check_coupling_handler(t, rep)
    f = t.func('MultiCouplingTerms.multi_coupling_term_handle_JW')
    rep.instance('JW-entry', {'function': 'multi_coupling_term_handle_JW'})
    why = _multi_handler_defect(f)
    if why:
        rep.violation('JW-entry', t, 'MultiCouplingTerms.multi_coupling_term_handle_JW', 'handler',
                      'the string toggles at every fermionic operator; an odd total is an error: '
                      + why, f.lineno)
    f = t.func('order_combine_term')
    rep.instance('JW-entry', {'function': 'order_combine_term'})
    why = _swap_sign_defect(f)
    if why:
        rep.violation('JW-entry', t, 'order_combine_term', 'swap-sign',
                      'each transposition of two fermionic operators (and only those) flips the '
                      'sign, and only when the pair is actually swapped: ' + why, f.lineno)


def _multi_handler_defect(f):
    """From left to right a flag says whether a Jordan-Wigner string is open: it toggles at every
    fermionic operator; while it is set the operator is multiplied by JW (from the right) and the
    string to the next operator is 'JW', otherwise 'Id'; a string still open at the end is an
    error."""
    tog = find('$f = not $f', f) + find('$f = $f != $$m', f) + find('$f ^= $$m', f)
    tog = [(n, e) for n, e in tog if isinstance(parent(n), (ast.If, ast.For))]
    if len(tog) != 1:
        return '%d toggles of the open-string flag found' % len(tog)
    node, e = tog[0]
    flag = e['$f']
    lp = parent(node)
    while lp is not None and not isinstance(lp, ast.For):
        lp = parent(lp)
    if lp is None:
        return 'the toggle is not inside the loop over the operators'
    if isinstance(lp.target, ast.Name):
        x, needs = lp.target.id, ['op_needs_JW[%s]' % lp.target.id]
    elif isinstance(lp.target, ast.Tuple) and pmatch('enumerate(op_needs_JW)', lp.iter) and \
            len(lp.target.elts) == 2 and all(isinstance(z, ast.Name) for z in lp.target.elts):
        x = lp.target.elts[0].id
        needs = [lp.target.elts[1].id, 'op_needs_JW[%s]' % x]
    else:
        return 'the loop over the operators was not recognised'
    g = _guards(f, node)
    if '$$m' in e:
        if not any(nd in unparse(e['$$m']) for nd in needs):
            return 'the flag must toggle with op_needs_JW[%s]' % x
    elif not any((nd, True) in g for nd in needs):
        return 'the flag must toggle exactly when op_needs_JW[%s]' % x
    inits = [st for st in stmts_of(f) if isinstance(st, ast.Assign) and
             unparse(st.targets[0]) == flag and st.lineno < lp.lineno]
    if not inits or unparse(inits[-1].value) != 'False':
        return 'no string is open before the first operator (flag starts False)'
    app_jw = [n for n, _ in find("$$l.append('JW')", lp)]
    app_id = [n for n, _ in find("$$l.append('Id')", lp)]
    mult = [n for n, _ in find("ops[%s] = $$s.multiply_op_names([ops[%s], 'JW'])" % (x, x), lp)]
    if not app_jw or not app_id or not mult:
        return "per operator: 'JW' string + operator times JW while open, 'Id' otherwise"

    def st_of(n):
        while not isinstance(n, ast.stmt):
            n = parent(n)
        return n

    for n in app_jw + mult:
        if (flag, True) not in _guards(f, st_of(n)) or st_of(n).lineno < node.lineno:
            return "`%s` must happen while the string is open (after the toggle)" % unparse(n)[:50]
    for n in app_id:
        if (flag, False) not in _guards(f, st_of(n)) or st_of(n).lineno < node.lineno:
            return "`%s` must happen while no string is open (after the toggle)" % unparse(n)[:50]
    if 'sites[ijkl[%s] %% L]' % x not in unparse(mult[0]) and \
            'sites[ijkl[%s] %% self.L]' % x not in unparse(mult[0]):
        return 'JW must be taken from the site of that operator'
    rs = [st for st in ast.walk(f) if isinstance(st, ast.Raise) and st.lineno > lp.end_lineno and
          (flag, True) in _guards(f, st)]
    if not rs:
        return 'a string still open after the last operator (odd number) must raise'
    return None


def _swap_sign_defect(f):
    """bubble sort of (op, site, fermionic) triples: the sign flip `sign = -sign` is guarded by
    exactly: the adjacent elements X = T[s], Y = T[s+1] are out of order (X[1] > Y[1]) and both
    are fermionic (X[2] and Y[2]); the swap itself is guarded by the order test only."""
    flips = [n for n, _ in find('$sg = -$sg', f)] + [n for n, _ in find('$sg *= -1', f)] + \
        [n for n, _ in find('$sg = $sg * -1', f)]
    if len(flips) != 1:
        return '%d sign flips found' % len(flips)
    flip = flips[0]
    g = guards_of(f, flip)
    order = [x for x in g if pmatch('$a[1] > $b[1]', x[2]) or pmatch('$b[1] < $a[1]', x[2])]
    if len(order) != 1 or not order[0][1]:
        return 'the flip is not guarded by one comparison of the site indices'
    e = pmatch('$a[1] > $b[1]', order[0][2]) or pmatch('$b[1] < $a[1]', order[0][2])
    X, Y = e['$a'], e['$b']
    ferm = {t for t, pol, _ in g if pol}
    if '%s[2]' % X not in ferm or '%s[2]' % Y not in ferm:
        return 'the flip must require both `%s[2]` and `%s[2]` (both operators fermionic); it ' \
            'requires %s' % (X, Y, sorted(ferm))
    extra = [(t, pol) for t, pol, _ in g if t not in ('%s[2]' % X, '%s[2]' % Y, order[0][0])]
    if extra:
        return 'the flip depends on additional conditions %s' % extra
    # X, Y are adjacent elements s, s+1 of one list
    L = s = None
    for n, e2 in find('$x, $y = $l[$s:$s + 2]', f):
        if e2['$x'] == X and e2['$y'] == Y:
            L, s = e2['$l'], e2['$s']
    dx = [e2 for n, e2 in find('%s = $l[$s]' % X, f)]
    dy = [e2 for n, e2 in find('%s = $l[$s + 1]' % Y, f)]
    if dx and dy and dx[0]['$l'] == dy[0]['$l'] and dx[0]['$s'] == dy[0]['$s']:
        L, s = dx[0]['$l'], dx[0]['$s']
    if L is None:
        return '`%s`, `%s` are not the adjacent elements [s], [s+1] of one list' % (X, Y)
    # the swap: under the order guard only
    swaps = [n for n, _ in find('%s[%s], %s[%s + 1] = %s, %s' % (L, s, L, s, Y, X), f)]
    a = [n for n, _ in find('%s[%s] = %s' % (L, s, Y), f)]
    b = [n for n, _ in find('%s[%s + 1] = %s' % (L, s, X), f)]
    if not swaps and not (a and b):
        return 'the swap of `%s[%s]` and `%s[%s+1]` was not found' % (L, s, L, s)
    for n in swaps + a + b:
        gs = [(t, pol) for t, pol, _ in guards_of(f, n)]
        if gs != [(order[0][0], True)]:
            return 'the swap must be guarded by the order test alone (guards %s)' % gs
    return None


def check_owned_attrs(prog, rep, modules=(TERMS, SITE)):
    """an attribute stored in __init__ from something that may alias an argument must not be
    written in place by a method (the caller's array / a sibling object would change)"""
    n = 0
    ct = prog.classtable()
    for rel in modules:
        m = prog.module(rel)
        own = Own(m, set())
        for cname, cnode in m.classes.items():
            if '.' in cname:
                continue
            init = None
            for b in cnode.body:
                if isinstance(b, ast.FunctionDef) and b.name == '__init__':
                    init = b
            if init is None:
                continue
            fi = FuncInfo(init, cname + '.__init__', True)
            shared = {}
            for st in stmts_of(init):
                if isinstance(st, ast.Assign) and len(st.targets) == 1 and is_self_attr(
                        st.targets[0]):
                    if own.origin(fi, st.value) == 'P':
                        shared[st.targets[0].attr] = st
                    elif st in init.body:
                        # an unconditional later re-binding to a fresh value wins
                        shared.pop(st.targets[0].attr, None)
            if not shared:
                continue
            for b in cnode.body:
                if not isinstance(b, ast.FunctionDef) or b.name == '__init__':
                    continue
                fb = FuncInfo(b, cname + '.' + b.name, True)
                for st, kind, root, attr, desc in own.write_sites(fb):
                    if kind == 'deep' and isinstance(root, ast.Name) and root.id == 'self' and \
                            attr in shared:
                        n += 1
                        rep.instance('OWN-attr', {'class': cname, 'attr': attr,
                                                  'writer': b.name, 'site': desc})
                        rep.violation('OWN-attr', m, '%s.%s' % (cname, b.name),
                                      'shared-attr-written:' + attr,
                                      '`%s` writes self.%s in place, but %s.__init__ stores it as '
                                      '`%s` which may be the caller\'s own array: other objects '
                                      'built from the same array (and the caller) see the change '
                                      '(e.g. a fermionic reordering sign applied twice)' %
                                      (desc, attr, cname, key_text(shared[attr])), st.lineno)
            rep.instance('OWN-attr', {'class': cname, 'aliasing_attrs': sorted(shared)},
                         nontrivial=False)
    return n


# reads the path-insensitive definite-assignment analysis cannot prove bound, confirmed by reading
DEF_ACCEPTED = {
    (SITE, 'GroupedSite.__init__', 'legs', "charges != 'same'"):
        "read under `charges != 'same'`; the if/elif chain above binds `legs` for 'drop' and "
        "'independent' and raises for anything else",
}


def check_def_before_use(prog, rep):
    n = 0
    for rel in (SITE, TERMS):
        m = prog.module(rel)
        for q, f in m.functions.items():
            hits = possibly_undefined(f)
            n += 1
            seen = set()
            for name, st, node in hits:
                if (name, id(st)) in seen:
                    continue
                seen.add((name, id(st)))
                guard = None
                cur = st
                while cur is not f and cur is not None and guard is None:
                    p = parent(cur)
                    if isinstance(p, ast.If):
                        guard = ('' if cur in p.body else 'not ') + unparse(p.test)
                    cur = p
                acc = DEF_ACCEPTED.get((rel, q, name, guard))
                rep.instance('DEF-before-use', {'function': q, 'name': name, 'accepted': acc})
                if acc:
                    continue
                rep.violation('DEF-before-use', m, q, 'maybe-unbound:%s' % name,
                              '`%s` is read in `%s` but a path from the entry of %s reaches this '
                              'statement without binding it (UnboundLocalError for the option '
                              'combination that takes that path)' % (name, key_text(st)[:70], q),
                              node.lineno)
    rep.instance('DEF-before-use', {'functions analysed': n})
    return n


# helper -> (position, keyword) of an argument whose value must be the same for every call of the
# helper that re-computes the operators of one term: the flag says whether a Jordan-Wigner string
# arrives from operators further right, which is a property of the term pair, not of the call.
ROLE_ARGS = {'_term_to_ops_list': (3, 'JW_from_right')}


def check_shallow_copy_methods(prog, rep):
    """site.py makes shallow copies of sites (`copy.copy(s)`) and then calls methods on the
    copies; a shallow copy shares every container attribute with the original. In those methods a
    mapping attribute whose entries change (state_labels under a permutation) must be re-bound to a
    new object, not assigned item by item -- or the original site changes too."""
    m = prog.module(SITE)
    meths = set()
    for q, f in m.functions.items():
        copies = set()
        for st in stmts_of(f):
            if isinstance(st, ast.Assign) and isinstance(st.targets[0], ast.Name) and \
                    'copy.copy(' in unparse(st.value):
                copies.add(st.targets[0].id)
        if not copies:
            continue
        for c in body_nodes(f):
            if isinstance(c, ast.Call) and isinstance(c.func, ast.Attribute):
                b = c.func.value
                while isinstance(b, ast.Subscript):
                    b = b.value
                if isinstance(b, ast.Name) and b.id in copies and c.func.attr not in (
                        'append', 'extend'):
                    meths.add(c.func.attr)
    n = 0
    for name in sorted(meths):
        if not m.has_func('Site.' + name):
            continue
        f = m.func('Site.' + name)
        n += 1
        rep.instance('OWN-shallow', {'method': 'Site.' + name,
                                     'reason': 'called on copy.copy() of a site'})
        for st in stmts_of(f):
            hits = []
            for t in assigned_targets(st):
                if isinstance(t, ast.Subscript) and is_self_attr(t.value):
                    hits.append(unparse(t.value))
            if isinstance(st, ast.Expr) and isinstance(st.value, ast.Call) and \
                    isinstance(st.value.func, ast.Attribute) and \
                    st.value.func.attr in ('update', 'setdefault') and \
                    is_self_attr(st.value.func.value):
                hits.append(unparse(st.value.func.value))
            for h in hits:
                rep.violation('OWN-shallow', m, 'Site.' + name, 'item-store:' + h,
                              '`%s` changes the entries of `%s` in place, but Site.%s is called on '
                              'shallow copies of sites (copy.copy in this module), which share '
                              'that mapping with the original site: the original\'s %s no longer '
                              'match its operators' % (key_text(st)[:70], h, name,
                                                       h.split('.')[-1]), st.lineno)
    if n < 1:
        raise AnalysisError('OWN-shallow: no method called on shallow copies of sites was found')
    return n


def check_recompute_agree(prog, rep):
    m = prog.module(MPS)
    n = 0
    for q, f in m.functions.items():
        groups = {}
        for c in body_nodes(f):
            if isinstance(c, ast.Call) and is_self_attr(c.func) and c.func.attr in ROLE_ARGS and \
                    c.args:
                groups.setdefault((c.func.attr, unparse(c.args[0])), []).append(c)
        groups = {k: v for k, v in groups.items() if len(v) > 1}
        if not groups:
            continue
        cfg, rd = reaching_defs(f)
        for (callee, term), calls in sorted(groups.items()):
            pos, kw = ROLE_ARGS[callee]
            seen = []
            for c in calls:
                a = c.args[pos] if len(c.args) > pos else None
                for k in c.keywords:
                    if k.arg == kw:
                        a = k.value
                if a is None:
                    val = ('absent', )
                else:
                    defs = set()
                    st = enclosing_stmt(c)
                    for nm in sorted(names_in(a)):
                        for nd in cfg.nodes_of(st):
                            defs |= {(nm, d) for d in rd.get(nd.id, {}).get(nm, ())}
                    val = (unparse(a), tuple(sorted(defs)))
                seen.append((c, val))
            n += 1
            rep.instance('RECOMPUTE-agree', {'function': q, 'callee': callee, 'term': term,
                                             'calls': len(calls)})
            c0, v0 = seen[0]
            for c, v in seen[1:]:
                if v != v0:
                    rep.violation(
                        'RECOMPUTE-agree', m, q, 'role-arg:%s:%s' % (callee, term),
                        '%s calls %s for the term `%s` several times (once up front, again inside '
                        'its loop) but the `%s` argument differs: `%s` sees %s, `%s` sees %s -- '
                        'the name was rebound in between, so the re-computed operators lose (or '
                        'gain) the Jordan-Wigner string coming from the other term' %
                        (q, callee, term, kw, unparse(c0)[:70], _show(v0), unparse(c)[:70],
                         _show(v)), c.lineno)
    return n


def _show(v):
    if v == ('absent', ):
        return 'the default'
    return 'the value bound by ' + '; '.join('`%s`' % d[:60] for _, d in v[1]) if v[1] else v[0]


def run(prog, rep, tier):
    rep.rule('SITE-*', 'add_op / remove_op / rename_op keep attribute, opnames, need_JW_string, '
             'hc_ops (both directions) and JW_exponent in step; JW need of a product is a parity; '
             'hc of a product reverses the factors')
    rep.rule('GROUPED-jw / LOCAL-alias', 'grouped sites put JW on the sub-sites left of a '
             'fermionic operator using two independent working lists')
    rep.rule('FAMILY-mix / LOOPVAR-unused', 'numbered parameter families are not mixed in an index '
             'expression; a loop over a collection does not use a constant element instead of its '
             'loop variable')
    rep.rule('JW-entry', 'every API placing named operators on sites reaches the Jordan-Wigner '
             'decision; the handlers branch on it as documented')
    rep.rule('RECOMPUTE-agree', 'calls that re-compute the operator list of one term pass the same '
             'JW_from_right value (same expression, same reaching definitions)')
    rep.rule('DEF-before-use', 'definite assignment on the statement CFG of every function of '
             'site.py and terms.py (same-guard, conjunct and run-at-least-once-loop idioms '
             'recognised; remaining reads are in the confirmed table)')
    rep.rule('OWN-shallow', 'methods called on shallow copies of sites re-bind mapping attributes '
             'instead of assigning items')
    rep.rule('OWN-attr', 'attributes that may alias constructor arguments are not written in '
             'place')
    check_site_registry(prog, rep)
    check_grouped_site(prog, rep)
    check_family(prog, rep)
    check_loopvar_const_index(prog, rep)
    check_jw_entry_points(prog, rep)
    check_owned_attrs(prog, rep)
    check_recompute_agree(prog, rep)
    check_shallow_copy_methods(prog, rep)
    ndef = check_def_before_use(prog, rep)
    if ndef < 100:
        raise AnalysisError('DEF-before-use analysed only %d functions of site.py/terms.py' % ndef)
    rep.floor('RECOMPUTE-agree', 2)
    rep.floor('SITE-registry', 12)
    rep.floor('JW-entry', 10)
    rep.assumptions += ['operator algebra as dense matrices is NOT decided']
    from ..flow import check_dead_computations
    rep.rule('VALUE-dead', 'no result of a call is bound to a local that is never read (reaching '
             'definitions)')
    check_dead_computations(prog, rep, ['tenpy/networks/site.py'])
    from ..flow import check_undefined_attrs
    rep.rule('ATTR-defined', 'every self.X read names an attribute bound somewhere in the class family')
    check_undefined_attrs(prog, rep, ['tenpy/networks/site.py'])
    from ..flow import check_carried_flags
    rep.rule('LOOP-carried-flag', 'a flag set under a test inside a loop body and read there is '
             're-initialised per iteration')
    check_carried_flags(prog, rep, ['tenpy/networks/site.py'])
    rep.rule('JW-left-operator', 'the on-site JW factor of a two-site term is attached to the left '
             'operator as `op_i JW` in both places that build such terms')
    if check_jw_left_operator(prog, rep) < 2:
        raise AnalysisError('JW-left-operator: fewer than 2 products found')
    from ..flow import check_stale_loop_reads
    rep.rule('LOOP-stale-read', 'no per-item variable is read in a loop before the iteration assigns '
             'it when its only other bindings are inside other loops')
    check_stale_loop_reads(prog, rep, ['tenpy/networks/mps.py', 'tenpy/networks/site.py', 'tenpy/networks/terms.py'])
    rep.rule('SITE-perm-flag', 'composing a permutation into Site.perm and setting used_sort_charge '
             'are coupled updates')
    if check_perm_flag(prog, rep) < 1:
        raise AnalysisError('SITE-perm-flag: update of Site.perm not found')
    from ..flow import check_site_index_offset
    rep.rule('SITE-index-offset', 'the Jordan-Wigner decision of a shifted term asks the shifted site '
             '(shared with C09)')
    if check_site_index_offset(prog, rep, ['tenpy/networks/mps.py']) < 2:
        raise AnalysisError('SITE-index-offset: site lookups of _term_to_ops_list not found')
    return rep.finish(
        level='other',
        explanation='Operator-registry coupling, Jordan-Wigner routing, parameter-family '
        'coherence and grouped-site JW bookkeeping decided structurally on site.py, terms.py, '
        'mps.py.')


# ------------------------------------------------------------------ JW-left-operator
def check_jw_left_operator(prog, rep):
    """JW-left-operator: for a two-site fermionic term `op_i ... op_j` (i < j) the Jordan-Wigner
    string covers the sites i <= k < j: besides the string sites in between it contributes ONE
    on-site factor, on the LEFT site, applied before op_i (`op_i JW`). The two places that attach
    it (CouplingTerms.coupling_term_handle_JW and CouplingModel.add_exponentially_decaying_coupling)
    agree: the only operator re-defined through multiply_op_names is the left one, with the JW
    factor second in the product."""
    sites = [('tenpy/networks/terms.py', 'CouplingTerms.coupling_term_handle_JW'),
             ('tenpy/models/model.py', 'CouplingModel.add_exponentially_decaying_coupling')]
    n = 0
    for rel, q in sites:
        m = prog.module(rel)
        f = m.func(q)
        prods = [st for st in stmts_of(f) if isinstance(st, ast.Assign) and isinstance(
            st.value, ast.Call) and isinstance(st.value.func, ast.Attribute) and
            st.value.func.attr == 'multiply_op_names']
        if not prods:
            raise AnalysisError('%s: no multiply_op_names product found' % q)
        for st in prods:
            n += 1
            tgt = unparse(st.targets[0])
            arg = st.value.args[0] if st.value.args else None
            elts = [unparse(e) for e in arg.elts] if isinstance(arg, (ast.List, ast.Tuple)) else []
            ok = tgt == 'op_i' and len(elts) == 2 and elts[0] == 'op_i' and \
                elts[1] in ("'JW'", 'op_string')
            rep.instance('JW-left-operator', {'function': q, 'product': key_text(st)[:70], 'ok': ok})
            if not ok:
                rep.violation('JW-left-operator', m, q, 'jw-factor:' + tgt,
                              '`%s`: the on-site Jordan-Wigner factor of a two-site term belongs '
                              'to the left operator as `op_i JW` (string on sites i <= k < j); '
                              'attached elsewhere the string is one site off -- pairing terms '
                              'C_i C_j / Cd_i Cd_j and spinful hopping change sign structure'
                              % key_text(st)[:60], st.lineno)
    return n


# ------------------------------------------------------------------ SITE-perm-flag
def check_perm_flag(prog, rep):
    """SITE-perm-flag: `Site.perm` records how the local basis was re-ordered; add_op() permutes a
    dense operator given in the standard basis with it iff `used_sort_charge` is set (default of
    `permute_dense`). The two are coupled: every method of Site that composes a permutation into
    `self.perm` also sets `self.used_sort_charge = True`, in the same branch."""
    m = prog.module('tenpy/networks/site.py')
    ct = prog.classtable()
    ci = ct.get('Site')
    n = 0
    for name, f in ci.methods.items():
        if name == '__init__':
            continue
        for st in stmts_of(f):
            if not (isinstance(st, ast.Assign) and any(is_self_attr(t, 'perm') for t in st.targets)
                    and any(is_self_attr(x, 'perm') for x in ast.walk(st.value))):
                continue
            n += 1
            blk = parent(st)
            body = None
            for fld in ('body', 'orelse', 'finalbody'):
                if st in (getattr(blk, fld, None) or []):
                    body = getattr(blk, fld)
            ok = any(isinstance(s2, ast.Assign) and any(
                is_self_attr(t, 'used_sort_charge') for t in s2.targets) and isinstance(
                    s2.value, ast.Constant) and s2.value.value is True for s2 in (body or []))
            rep.instance('SITE-perm-flag', {'method': 'Site.' + name, 'update': key_text(st)[:50],
                                            'flag_set_in_same_block': ok})
            if not ok:
                rep.violation('SITE-perm-flag', m, 'Site.' + name, 'perm-without-flag',
                              '`%s` composes a permutation into self.perm but the block does not '
                              'set self.used_sort_charge = True: add_op() keeps storing dense '
                              'operators in the un-permuted basis' % key_text(st)[:50], st.lineno)
    return n
