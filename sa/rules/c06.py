"""C06 — leg fusion and leg transforms: fusion rule, direction algebra (sign-case enumeration),
q_map column roles, flag discipline (shared with C02). Bijectivity of q_map/_perm over all leg
tuples is combinatorial over data and not decided."""
import ast

from ..core import (AnalysisError, body_nodes, call_name, dotted, is_self_attr, key_text, names_in,
                    params, parent, stmts_of, unparse)
from ..linform import NotPoly, Poly, eval_poly
from ..inline import inline_helpers
from ..normal import inline_temps
from ..pattern import pmatch
from .c02 import check_flag_l

CH = 'tenpy/linalg/charges.py'
NPC = 'tenpy/linalg/np_conserved.py'


def _mv(node):
    """strip make_valid(...) wrappers"""
    while isinstance(node, ast.Call) and call_name(node) == 'make_valid' and node.args:
        node = node.args[0]
    return node


def _transform(prog, m, qual, depth=0):
    """(s_q(sigma) for sigma in +1,-1, s_c, legs_conj, resolvable) of a conj-like method"""
    f = m.func(qual)
    sq = {1: 1, -1: 1}
    sc = 1
    legs = 1
    base = None
    for st in stmts_of(f):
        if isinstance(st, ast.Assign) and isinstance(st.value, ast.Call):
            d = dotted(st.value.func) or ''
            if d in ('LegCharge.conj', 'LegCharge.flip_charges_qconj') and st.value.args and \
                    unparse(st.value.args[0]) == 'self':
                base = d
    if base is not None and depth < 2:
        bsq, bsc, blegs = _transform(prog, m, base, depth + 1)
        sq, sc = dict(bsq), bsc
    for st in stmts_of(f):
        if isinstance(st, ast.Assign) and len(st.targets) == 1 and isinstance(
                st.targets[0], ast.Attribute) and isinstance(st.targets[0].value, ast.Name) and \
                st.targets[0].value.id != 'self':
            attr = st.targets[0].attr
            if attr == 'qconj':
                for sigma in (1, -1):
                    try:
                        v = eval_poly(st.value, {'__': None})
                        v = _subst_sym(v, 'self.qconj', sigma)
                    except NotPoly:
                        raise AnalysisError('%s: qconj expression %s not understood' %
                                            (qual, unparse(st.value)))
                    if not v.is_const():
                        raise AnalysisError('%s: qconj `%s` is not a function of self.qconj' %
                                            (qual, unparse(st.value)))
                    c = v.const_value()
                    if c.im != 0 or c.re not in (1, -1):
                        raise AnalysisError('%s: qconj value %r' % (qual, c))
                    sq[sigma] = int(c.re) * sigma  # s_q = new/old = new*old for +-1
            elif attr == 'charges':
                sc = _charge_sign(qual, st.value)
            elif attr == 'legs':
                src = unparse(st.value)
                legs = -1 if '.conj()' in src else 1
        if isinstance(st, ast.Expr) and isinstance(st.value, ast.Call) and \
                call_name(st.value) == '_set_charges':
            sc = _charge_sign(qual, st.value.args[0])
    return sq, sc, legs


def _subst_sym(poly, sym, val):
    out = Poly.const(0)
    for mono, c in poly.t.items():
        term = Poly({(): c})
        for s in mono:
            term = term * (Poly.const(val) if s == sym else Poly.sym(s))
        out = out + term
    return out


def _charge_sign(qual, node):
    node = _mv(node)
    try:
        v = eval_poly(node, {})
    except NotPoly:
        raise AnalysisError('%s: charges expression %s not understood' % (qual, unparse(node)))
    if v == Poly.sym('self.charges'):
        return 1
    if v == -Poly.sym('self.charges'):
        return -1
    raise AnalysisError('%s: charges expression %s is not +-self.charges' % (qual, unparse(node)))


def check_direction(prog, rep):
    m = prog.module(CH)
    rep.unit(m)
    # documented effect on the effective charge (charges*qconj) of the leg itself and direction
    spec = {
        'LegCharge.conj': dict(eff=-1, qconj=-1, doc='conj: opposite qconj, same charges'),
        'LegCharge.flip_charges_qconj': dict(eff=1, qconj=-1,
                                             doc='both charges and qconj negated: same leg'),
        'LegPipe.conj': dict(eff=-1, qconj=-1, legs=-1,
                             doc='pipe and all incoming legs conjugated'),
        'LegPipe.outer_conj': dict(eff=1, qconj=-1, legs=1,
                                   doc='incoming legs unchanged => effective outgoing charges '
                                       'unchanged; direction and charges flip together'),
    }
    for qual, sp in spec.items():
        sq, sc, legs = _transform(prog, m, qual)
        f = m.func(qual)
        for sigma in (1, -1):
            eff = sq[sigma] * sc
            rep.instance('DIR-algebra', {'function': qual, 'self.qconj': sigma,
                                         'qconj_factor': sq[sigma], 'charges_factor': sc,
                                         'eff_factor': eff, 'legs_factor': legs})
            if sq[sigma] != sp['qconj']:
                rep.violation('DIR-algebra', m, qual, 'qconj:%+d' % sigma,
                              'for a leg with qconj=%+d the result has qconj*=%+d, documented %+d '
                              '(%s): conjugate legs are no longer contractible' %
                              (sigma, sq[sigma], sp['qconj'], sp['doc']), f.lineno)
            elif eff != sp['eff']:
                rep.violation('DIR-algebra', m, qual, 'eff:%+d' % sigma,
                              'for a leg with qconj=%+d the effective charge of every index is '
                              'multiplied by %+d, documented %+d (%s)' %
                              (sigma, eff, sp['eff'], sp['doc']), f.lineno)
            if 'legs' in sp:
                if legs != sp['legs']:
                    rep.violation('DIR-algebra', m, qual, 'legs',
                                  'incoming legs %s conjugated; documented: %s' %
                                  ('are' if legs == -1 else 'are not', sp['doc']), f.lineno)
                elif eff != legs:
                    rep.violation('DIR-algebra', m, qual, 'fusion:%+d' % sigma,
                                  'outgoing effective charge factor %+d but incoming legs factor '
                                  '%+d: the fusion rule out = sum(in) no longer holds' %
                                  (eff, legs), f.lineno)
    # no literal +-1 direction on a copy of self
    for qual, f in m.functions.items():
        if f.name in ('__init__', '__setstate__', 'from_hdf5'):
            continue
        for st in stmts_of(f):
            if isinstance(st, ast.Assign) and isinstance(st.targets[0], ast.Attribute) and \
                    st.targets[0].attr == 'qconj' and isinstance(st.targets[0].value, ast.Name):
                rep.instance('DIR-literal', {'function': qual, 'store': key_text(st)})
                v = st.value
                lit = isinstance(v, ast.Constant) or (isinstance(v, ast.UnaryOp) and isinstance(
                    v.operand, ast.Constant))
                if lit:
                    rep.violation('DIR-literal', m, qual, 'literal-qconj',
                                  '`%s`: the direction of a derived leg must be computed from the '
                                  'source leg, not a literal' % key_text(st), st.lineno)


def check_sign_conditionals(prog, rep):
    """where charges of a leg with direction X are merged into a leg with direction Y they are
    taken as is iff X == Y, negated otherwise"""
    sites = [(CH, 'LegCharge.extend'), (NPC, 'concatenate')]
    for rel, qual in sites:
        m = prog.module(rel)
        f = m.func(qual)
        found = 0
        for n in ast.walk(f):
            test = body = orelse = None
            if isinstance(n, ast.IfExp):
                test, body, orelse = n.test, n.body, n.orelse
            elif isinstance(n, ast.If) and len(n.body) == 1 and len(n.orelse) == 1 and \
                    isinstance(n.body[0], ast.Assign) and isinstance(n.orelse[0], ast.Assign):
                test, body, orelse = n.test, n.body[0].value, n.orelse[0].value
            if test is None or not isinstance(test, ast.Compare) or 'qconj' not in unparse(test):
                continue
            if not isinstance(test.ops[0], (ast.Eq, ast.NotEq)):
                continue
            found += 1
            eqb, neb = (body, orelse) if isinstance(test.ops[0], ast.Eq) else (orelse, body)
            rep.instance('DIR-sign-conditional', {'function': qual, 'test': unparse(test)})
            e, ne = _mv(eqb), _mv(neb)
            ok = not (isinstance(e, ast.UnaryOp) and isinstance(e.op, ast.USub)) and \
                isinstance(ne, ast.UnaryOp) and isinstance(ne.op, ast.USub) and \
                unparse(ne.operand) == unparse(e)
            if not ok:
                rep.violation('DIR-sign-conditional', m, qual, 'sign-conditional',
                              'under `%s` the charges must be taken unchanged when the directions '
                              'agree and negated when they differ (got `%s` / `%s`)' %
                              (unparse(test), unparse(eqb), unparse(neb)), n.lineno)
        if not found:
            raise AnalysisError('%s: direction-dependent charge merge not found' % qual)


def check_fusion_rule(prog, rep):
    m = prog.module(CH)
    f = m.func('LegPipe._init_from_legs')
    rep.instance('FUSION-rule', {'function': 'LegPipe._init_from_legs'})
    ok = False
    for n in body_nodes(f):
        if isinstance(n, ast.ListComp) and 'charges' in unparse(n.elt) and 'qconj' in unparse(
                n.elt):
            var = unparse(n.generators[0].target)
            try:
                v = eval_poly(n.elt, {})
            except NotPoly:
                continue
            want = Poly.sym('self.qconj') * Poly.sym(var + '.qconj') * Poly.sym(var + '.charges')
            if v == want and unparse(n.generators[0].iter) == 'self.legs':
                ok = True
    sums = [c for c in body_nodes(f) if isinstance(c, ast.Call) and dotted(c.func) == 'np.sum']
    if not ok or not sums:
        rep.violation('FUSION-rule', m, 'LegPipe._init_from_legs', 'fusion-rule',
                      'outgoing charges must be the sum over incoming legs of '
                      'self.qconj*l.qconj*l.charges (so that effective charges add up)', f.lineno)
    # the sum must be reduced with make_valid and sorted with the SAME permutation as q_map
    src = unparse(f)
    rep.instance('FUSION-perm', {})
    perm = [s for s in stmts_of(f) if isinstance(s, ast.Assign) and isinstance(s.value, ast.Call)
            and call_name(s.value) == 'lexsort']
    if perm:
        pn = unparse(perm[0].targets[0])
        users = [unparse(s.targets[0]) for s in stmts_of(f) if isinstance(s, ast.Assign) and
                 isinstance(s.value, ast.Subscript) and unparse(s.value.slice) == pn]
        need = {'q_map', 'charges', 'blocksizes'}
        if not need <= set(users):
            rep.violation('FUSION-perm', m, 'LegPipe._init_from_legs', 'perm-applied',
                          'the sorting permutation must be applied to q_map, charges and block '
                          'sizes alike (applied to %s): otherwise the index map disagrees with '
                          'the charges' % sorted(users), perm[0].lineno)
        if 'inverse_permutation(%s)' % pn not in src:
            rep.violation('FUSION-perm', m, 'LegPipe._init_from_legs', 'perm-inverse',
                          'self._perm must be the inverse of the sorting permutation', f.lineno)
    else:
        raise AnalysisError('_init_from_legs: lexsort not found')
    # single-block fast path and _partial_qtotal
    g = m.func('_partial_qtotal')
    rep.instance('FUSION-rule', {'function': '_partial_qtotal'})
    pm = params(g)
    srcg = unparse(g)
    ok = 'get_charge' in srcg and any(
        isinstance(s, ast.AugAssign) and isinstance(s.op, ast.Mult) and unparse(s.value) == pm[3]
        for s in stmts_of(g)) and any(
            isinstance(s, ast.AugAssign) and isinstance(s.op, ast.Add) and pm[4] in names_in(
                s.value) for s in stmts_of(g))
    if not ok:
        rep.violation('FUSION-rule', m, '_partial_qtotal', 'partial-qtotal',
                      '_partial_qtotal must return qconj * sum(effective charges) + add_qtotal',
                      g.lineno)
    init0 = m.func('LegPipe.__init__')
    init, inl = inline_helpers(init0, 'LegPipe.__init__', m, prog, known=('_init_from_legs', '_partial_qtotal'))
    init = inline_temps(init)
    rep.instance('FUSION-rule', {'function': 'LegPipe.__init__ (single block)',
                                 'inlined_helpers': inl})
    calls = [c for c in body_nodes(init) if isinstance(c, ast.Call) and
             call_name(c) == '_partial_qtotal']
    qc = params(init0)[2]
    if not calls or len(calls[0].args) < 4 or \
            unparse(calls[0].args[3]) not in (qc, 'self.qconj') or \
            unparse(calls[0].args[1]) not in ('legs', 'self.legs'):
        rep.violation('FUSION-rule', m, 'LegPipe.__init__', 'single-block-charges',
                      'the single-block fast path must compute the charge with the pipe\'s own '
                      'qconj over all incoming legs', init0.lineno)
    # to_LegCharge keeps the LegCharge state of the pipe
    f2 = m.func('LegPipe.to_LegCharge')
    rep.instance('FUSION-rule', {'function': 'LegPipe.to_LegCharge'})
    if 'LegCharge.__getstate__(self)' not in unparse(f2):
        rep.violation('FUSION-rule', m, 'LegPipe.to_LegCharge', 'state',
                      'to_LegCharge must carry over exactly the LegCharge state of the pipe',
                      f2.lineno)
    check_flatmap(m, rep)


def _sum_terms(e):
    if isinstance(e, ast.BinOp) and isinstance(e.op, ast.Add):
        return _sum_terms(e.left) + _sum_terms(e.right)
    return [e]


def check_flatmap(m, rep):
    """map_incoming_flat on its normal form (temporaries inlined): the loop runs over the incoming
    legs from the last to the first, accumulating `acc += stride * within_block` and then
    `stride *= block size` (C order: last leg fastest); the result is
    slices[row[2]] + row[0] + acc for the q_map row of the incoming block indices."""
    q = 'LegPipe.map_incoming_flat'
    f3 = inline_temps(m.func(q))
    rep.instance('FUSION-flatmap', {'normal_form_inlined': f3._inlined_names})

    def bad(msg, node=None):
        rep.violation('FUSION-flatmap', m, q, 'flat-map',
                      'flat index = slices[q_map[j,2]] + q_map[j,0] + C-order offset within the '
                      'block (last incoming leg fastest): ' + msg, (node or f3).lineno)

    loops = [s for s in f3.body if isinstance(s, ast.For)]
    if not loops:
        return bad('no loop over the incoming legs')
    lp = loops[0]
    desc = pmatch('range($$n - 1, -1, -1)', lp.iter) or pmatch('reversed(range($$n))', lp.iter) \
        or pmatch('range($$n)[::-1]', lp.iter)
    if desc is None or unparse(desc['$$n']) not in ('self.nlegs', 'len(self.legs)',
                                                    'len(incoming_indices)'):
        return bad('the loop `for %s in %s` does not run from the last incoming leg down to the '
                   'first' % (unparse(lp.target), unparse(lp.iter)), lp)
    ax = unparse(lp.target)
    acc = stride = None
    order = []
    for st in lp.body:
        e = pmatch('$acc += $stride * $$leg.get_qindex($$ind)[1]', st)
        if e and unparse(e['$$leg']) == 'self.legs[%s]' % ax and \
                unparse(e['$$ind']) == 'incoming_indices[%s]' % ax:
            acc, stride = e['$acc'], e['$stride']
            order.append('acc')
        e = pmatch('$stride *= $$leg.slices[$$q + 1] - $$leg.slices[$$q]', st)
        if e and unparse(e['$$leg']) == 'self.legs[%s]' % ax and pmatch(
                '$$leg.get_qindex($$ind)[0]', e['$$q']) and (stride in (None, e['$stride'])):
            stride = e['$stride']
            order.append('stride')
    if order != ['acc', 'stride']:
        return bad('inside the loop the offset must grow by stride*within_block BEFORE the stride '
                   'is multiplied by the block size of that leg (found %s)' % order, lp)
    inits = {unparse(s.targets[0]): unparse(s.value) for s in f3.body
             if isinstance(s, ast.Assign) and s.lineno < lp.lineno}
    if inits.get(acc) != '0' or inits.get(stride) != '1':
        return bad('offset starts at 0 and stride at 1', lp)
    rets = [s for s in f3.body if isinstance(s, ast.Return)]
    if not rets:
        return bad('no return')
    terms = _sum_terms(rets[-1].value)
    rest = [t for t in terms if unparse(t) != acc]
    if len(terms) != 3 or len(rest) != 2:
        return bad('returns `%s`' % unparse(rets[-1].value)[:100], rets[-1])
    ok = False
    for a, b in (rest, rest[::-1]):
        e = pmatch('self.slices[$$row[2]]', a)
        if e and pmatch('$$row[0]', b, e):
            row = e['$$row']
            r = pmatch('self.q_map[$$j, :]', row) or pmatch('self.q_map[$$j]', row)
            if r and pmatch('self._map_incoming_qind($qin)[0]', r['$$j']):
                ok = True
    if not ok:
        bad('returns `%s`' % unparse(rets[-1].value)[:160], rets[-1])


def _is_qmap(e):
    return isinstance(e, (ast.Name, ast.Attribute)) and unparse(e).endswith('q_map')


def _is_row(e):
    if isinstance(e, ast.Name) and e.id.endswith('q_map_row'):
        return True
    if isinstance(e, ast.Subscript) and _is_qmap(e.value):
        sl = e.slice
        if isinstance(sl, ast.Tuple):
            return len(sl.elts) == 2 and isinstance(sl.elts[1], ast.Slice) and \
                sl.elts[1].lower is None and sl.elts[1].upper is None and \
                not isinstance(sl.elts[0], ast.Slice)
        return not isinstance(sl, ast.Slice)
    return False


def _qmap_cols(node):
    """for a Subscript of a q_map-like object (the 2D table or one of its rows) return the text
    of the column specification"""
    if not isinstance(node, ast.Subscript):
        return None
    if _is_row(node.value):
        # q_map[rows, :] is a sub-table when `rows` is an index array: then a 2-tuple follows
        if isinstance(node.slice, ast.Tuple) and len(node.slice.elts) == 2:
            return unparse(node.slice.elts[1])
        return unparse(node.slice)
    if _is_qmap(node.value):
        sl = node.slice
        if isinstance(sl, ast.Tuple) and len(sl.elts) == 2:
            return unparse(sl.elts[1])
    return None


def _eff_col(e):
    """column of a q_map element expression, looking through `q_map[row, :N][k]`"""
    if isinstance(e, ast.Subscript) and isinstance(e.slice, ast.Constant) and isinstance(
            e.slice.value, int):
        inner = _qmap_cols(e.value)
        if inner is not None and inner.startswith(':') and inner[1:].isdigit():
            return str(e.slice.value)
    return _qmap_cols(e)


def check_qmap_roles(prog, rep):
    m = prog.module(NPC)
    mc = prog.module(CH)
    sites = [(m, 'Array.combine_legs', 'out'), (m, '_combine_legs_worker', 'out'),
             (m, 'Array.split_legs', 'in'), (m, '_split_legs_worker', 'in'),
             (mc, 'LegPipe.map_incoming_flat', None)]
    n = 0
    for mod, qual, role in sites:
        f = inline_temps(mod.func(qual))
        # q_map-like local aliases: x = pipe.q_map[rows, :]  /  q_map_row = p.q_map[qi, :]
        for node in body_nodes(f):
            col = _qmap_cols(node)
            if col is None or not isinstance(node.ctx, ast.Load):
                continue
            if col in (':', ):
                continue
            pn = parent(node)
            if col.startswith(':') and col[1:].isdigit() and isinstance(pn, ast.Subscript) and \
                    pn.value is node and isinstance(pn.slice, ast.Constant) and isinstance(
                        pn.slice.value, int) and 0 <= pn.slice.value < int(col[1:]):
                # element of an unpacked row prefix: q_map[row, :3][k] is column k
                col = str(pn.slice.value)
                node = pn
            n += 1
            st = node
            while not isinstance(st, ast.stmt):
                st = parent(st)
            rep.instance('QMAP-roles', {'function': qual, 'use': unparse(node),
                                        'stmt': key_text(st)[:70]})
            if col == ':3' and isinstance(st, ast.Assign) and isinstance(
                    st.targets[0], ast.Tuple) and len(st.targets[0].elts) == 3 and all(
                        isinstance(e, ast.Name) for e in st.targets[0].elts) and st.value is node:
                # start, stop, qind = q_map[row, :3]: the names carry the column roles
                names3 = [e.id for e in st.targets[0].elts]
                for s2 in stmts_of(f):
                    if isinstance(s2, ast.Assign) and 'qdata' in unparse(s2.targets[0]) and \
                            isinstance(s2.value, ast.Name) and s2.value.id in names3:
                        k3 = names3.index(s2.value.id)
                        if role == 'out' and k3 != 2:
                            rep.violation('QMAP-roles', mod, qual, 'qdata-column:%d' % k3,
                                          '`%s`: the block index of the combined leg is q_map[:, 2] '
                                          '(outgoing qindex), not column %d' % (key_text(s2), k3),
                                          s2.lineno)
                continue
            if col not in ('0', '1', '2', ':2', '3:'):
                rep.violation('QMAP-roles', mod, qual, 'column:' + col,
                              '`%s` uses q_map column(s) %s; the layout is [start, stop, outgoing '
                              'qindex, incoming qindices...]' % (unparse(node), col), node.lineno)
                continue
            # destination analysis: block indices of the result
            tgt = unparse(st.targets[0]) if isinstance(st, ast.Assign) else ''
            is_qdata = 'qdata' in tgt
            if is_qdata and role == 'out' and col != '2':
                rep.violation('QMAP-roles', mod, qual, 'qdata-column:' + col,
                              '`%s`: the block index of the combined leg is q_map[:, 2] (outgoing '
                              'qindex), not column %s' % (key_text(st), col), st.lineno)
            if is_qdata and role == 'in' and col != '3:':
                rep.violation('QMAP-roles', mod, qual, 'qdata-column:' + col,
                              '`%s`: the block indices of the split legs are q_map[:, 3:], not '
                              'column %s' % (key_text(st), col), st.lineno)
            # stop - start
            p = parent(node)
            if isinstance(p, ast.BinOp) and isinstance(p.op, ast.Sub):
                lc, rc = _qmap_cols(p.left), _qmap_cols(p.right)
                if lc is not None and rc is not None and (lc, rc) != ('1', '0'):
                    rep.violation('QMAP-roles', mod, qual, 'extent',
                                  '`%s`: the extent inside the fused block is q_map[:,1]-q_map[:,0]'
                                  % unparse(p), p.lineno)
            elif col == '1' and isinstance(p, ast.Call) and unparse(p.func) == 'slice' and \
                    len(p.args) == 2 and p.args[1] is node and _eff_col(p.args[0]) == '0':
                pass   # slice(start, stop) of one q_map row
            elif col == '1':
                rep.violation('QMAP-roles', mod, qual, 'lone-stop',
                              '`%s`: column 1 (stop) used outside a stop-start difference' %
                              key_text(st), st.lineno)
    return n


def check_elem_writeback(prog, rep):
    """`for i, e in enumerate(coll): ... e = f(e)` where `coll` is what the function returns: the
    new value must be written back (`coll[i] = e`), or the caller receives the old element while
    the function validated the new one (combine_legs(pipes=...): the auto-conjugated pipe)."""
    n = 0
    for rel in (NPC, CH):
        m = prog.module(rel)
        for q, f in m.functions.items():
            rets = set()
            for r in ast.walk(f):
                if isinstance(r, ast.Return) and r.value is not None:
                    rets |= names_in(r.value)
            for lp in ast.walk(f):
                if not isinstance(lp, ast.For):
                    continue
                e = pmatch('enumerate($c)', lp.iter)
                if not e or not isinstance(lp.target, ast.Tuple) or len(lp.target.elts) != 2 or \
                        not all(isinstance(x, ast.Name) for x in lp.target.elts):
                    continue
                i_, el = lp.target.elts[0].id, lp.target.elts[1].id
                c = e['$c']
                if c not in rets:
                    continue
                for st in ast.walk(lp):
                    if isinstance(st, ast.Assign) and any(isinstance(t, ast.Name) and t.id == el
                                                          for t in st.targets):
                        n += 1
                        slot = '%s[%s]' % (c, i_)
                        stored = any(unparse(t) == slot for t in st.targets)
                        blk = parent(st)
                        sib = [x for x in getattr(blk, 'body', []) + getattr(blk, 'orelse', [])
                               if isinstance(x, ast.Assign) and x.lineno >= st.lineno and
                               any(unparse(t) == slot for t in x.targets) and el in names_in(x.value)]
                        rep.instance('LOOP-elem-writeback', {'function': q, 'rebinding': key_text(st),
                                                             'written_back': bool(stored or sib)})
                        if not (stored or sib):
                            rep.violation('LOOP-elem-writeback', m, q, 'not-written-back:' + el,
                                          '`%s` replaces the loop element of `%s`, which the '
                                          'function returns, without storing it back into `%s`: '
                                          'the caller gets the old element (e.g. the pipe that '
                                          'was NOT conjugated)' % (key_text(st), c, slot),
                                          st.lineno)
    if n < 1:
        raise AnalysisError('LOOP-elem-writeback: _combine_legs_make_pipes not found')


def check_split_axes_sorted(prog, rep):
    """split_legs: the fast paths and the worker walk `axes` from the back assuming ascending
    order; every binding of `axes` must therefore be ascending by construction (enumerate /
    range comprehension, or sorted(...))."""
    m = prog.module(NPC)
    f = m.func('Array.split_legs')
    uses_rev = any(pmatch('reversed(axes)', x) for x in body_nodes(f)) or any(
        isinstance(c, ast.Call) and call_name(c) == '_split_legs_worker' for c in body_nodes(f))
    binds = [st for st in stmts_of(f) if isinstance(st, ast.Assign) and
             unparse(st.targets[0]) == 'axes']
    rep.instance('SPLIT-axes-sorted', {'bindings': [key_text(b)[:70] for b in binds],
                                       'order_dependent_uses': uses_rev})
    if not binds:
        raise AnalysisError('split_legs: bindings of `axes` not found')
    def filled_ascending(name):
        """`name = []` filled only by `name.append(i)` with i the index variable of an
        enumerate / range loop: ascending by construction"""
        apps = [c for c in body_nodes(f) if isinstance(c, ast.Call) and isinstance(
            c.func, ast.Attribute) and unparse(c.func.value) == name and
            c.func.attr in ('append', 'extend', 'insert')]
        if not apps:
            return False
        for c in apps:
            if c.func.attr != 'append' or len(c.args) != 1 or not isinstance(c.args[0], ast.Name):
                return False
            lp = c
            ok = False
            while lp is not None and lp is not f:
                lp = parent(lp)
                if isinstance(lp, ast.For) and isinstance(lp.iter, ast.Call) and \
                        call_name(lp.iter) in ('enumerate', 'range'):
                    idx = lp.target.elts[0] if isinstance(lp.target, ast.Tuple) and \
                        call_name(lp.iter) == 'enumerate' else lp.target
                    ok = isinstance(idx, ast.Name) and idx.id == c.args[0].id
                    break
            if not ok:
                return False
        return True
    for b in binds:
        v = b.value
        asc = bool(pmatch('sorted($$x)', v)) or (
            isinstance(v, ast.List) and not v.elts and filled_ascending('axes')) or (
            isinstance(v, ast.ListComp) and isinstance(v.generators[0].iter, ast.Call) and
            call_name(v.generators[0].iter) in ('enumerate', 'range')) or any(
                pmatch('axes.sort()', x) for x in body_nodes(f))
        if uses_rev and not asc:
            rep.violation('SPLIT-axes-sorted', m, 'Array.split_legs', 'axes-unsorted',
                          '`%s`: the axes given by the caller are used in the order given, but the '
                          'splitting walks them from the back assuming ascending order: for '
                          'axes=[1, 0] positions shift and the wrong legs / blocks are combined' %
                          key_text(b)[:70], b.lineno)


def run(prog, rep, tier):
    rep.rule('DIR-*', 'direction algebra by sign-case enumeration: effect of conj / '
             'flip_charges_qconj / LegPipe.conj / outer_conj on qconj, charges and incoming legs '
             'equals the documented one and preserves the fusion rule; direction-dependent merges '
             'negate iff directions differ; no literal direction on derived legs')
    rep.rule('FUSION-*', 'outgoing charges = sum of self.qconj*l.qconj*l.charges; one permutation '
             'applied to q_map, charges, block sizes; flat index map uses the q_map layout')
    rep.rule('QMAP-roles', 'consumers of q_map use columns in their roles: [start, stop, outgoing '
             'qindex, incoming qindices]')
    rep.rule('FLAG-L-*', 'see C02')
    check_direction(prog, rep)
    check_sign_conditionals(prog, rep)
    check_fusion_rule(prog, rep)
    n = check_qmap_roles(prog, rep)
    check_flag_l(prog, rep, 'C06')
    check_elem_writeback(prog, rep)
    check_split_axes_sorted(prog, rep)
    rep.floor('DIR-algebra', 8)
    rep.floor('QMAP-roles', 9)
    rep.floor('FLAG-L-reset', 12)
    rep.assumptions += ['bijectivity of q_map/_perm over all leg tuples is NOT decided']
    from ..flow import check_dead_computations
    rep.rule('VALUE-dead', 'no result of a call is bound to a local that is never read (reaching '
             'definitions)')
    check_dead_computations(prog, rep, ['tenpy/linalg/charges.py'])
    from ..flow import check_perm_mixed_direction
    rep.rule('PERM-mixed-direction', 'one permutation re-orders co-indexed arrays in one direction '
             'only (gather or scatter) within a function of charges.py')
    if check_perm_mixed_direction(prog, rep, ['tenpy/linalg/charges.py', 'tenpy/linalg/np_conserved.py']) < 4:
        raise AnalysisError('PERM-mixed-direction: permutation uses in charges.py not found')
    from ..flow import check_reshape_order
    rep.rule('RESHAPE-C-order', 'blocks are reshaped in C order only (the order of the pipe strides)')
    check_reshape_order(prog, rep, ['tenpy/linalg/charges.py', 'tenpy/linalg/np_conserved.py'])
    from .c01 import check_splice_order
    rep.rule('SPLICE-descending', 'one-for-many splices of pipe legs at the loop variable run over '
             'descending positions (shared with C01)')
    if check_splice_order(prog, rep) < 3:
        raise AnalysisError('SPLICE-descending: the splices of split_legs were not found')
    return rep.finish(
        level='other',
        explanation='Fusion rule, direction algebra (all sign cases), q_map column roles (%d '
        'consumer sites) and leg flag discipline decided on the current source.' % n)
