"""C10 — all representations of a model Hamiltonian are the same operator: the plus_hc /
explicit_plus_hc protocol of CouplingModel.add_* (R-PLUSHC), flag handling of representation
converters (R-HCFLAG), term-class interface agreement, merge-key completeness. Equality of dense
matrices is not decided."""
import ast
import re

from ..cfg import CFG
from ..dtable import UNKNOWN, run_paths
from ..flow import reaching_defs
from ..dtable import _val as dval
from ..normal import inline_temps
from ..pattern import find, guards_of, pmatch
from ..core import (AnalysisError, body_nodes, call_name, depends_on, dotted, is_self_attr,
                    key_text, kwarg, local_defs, names_in, params, parent, stmts_of, unparse)

MODEL = 'tenpy/models/model.py'
TERMS = 'tenpy/networks/terms.py'
MPO = 'tenpy/networks/mpo.py'
ED = 'tenpy/algorithms/exact_diag.py'

TERM_ADDERS = {'add_onsite_term', 'add_coupling_term', 'add_multi_coupling_term',
               'add_exponentially_decaying_coupling', 'add_centered_exponentially_decaying_term',
               'add_onsite', 'add_coupling', 'add_multi_coupling', 'add_local_term'}
OP_PARAM_RE = re.compile(r'^(op|opname|op\d|op_[ij]|ops|ops_ijkl|term)$')


def check_plus_hc(prog, rep):
    m = prog.module(MODEL)
    rep.unit(m)
    cls = m.cls('CouplingModel')
    n = 0
    for f in cls.body:
        if not isinstance(f, ast.FunctionDef) or 'plus_hc' not in params(f):
            continue
        if f.name == '__init__':
            continue
        n += 1
        q = 'CouplingModel.' + f.name
        pm = params(f)
        cfg = CFG(f)
        # ---- (a) the explicit_plus_hc protocol as a decision table over (explicit, plus_hc)
        halve = []
        for pat in ('$s /= 2', '$s /= 2.0', '$s = $s / 2', '$s = $s / 2.0', '$s = 0.5 * $s',
                    '$s *= 0.5'):
            halve += find(pat, f)
        setf = find('plus_hc = False', f)
        top = None
        for k, st in enumerate(f.body):
            if any(n is x for x in ast.walk(st) for n, _ in halve + setf):
                top = k
        rep.instance('PLUSHC-guard', {'function': q, 'found': top is not None})
        halved = halve[0][1]['$s'] if halve else None
        guard = f.body[top] if top is not None else None
        if top is None or not halve or not setf:
            rep.violation('PLUSHC-guard', m, q, 'no-guard' if top is None else 'guard-shape',
                          '%s has a plus_hc parameter but no complete explicit_plus_hc protocol '
                          '(drop the explicit h.c. / halve the strength): with explicit_plus_hc '
                          'the stored terms are H instead of H/2 (+h.c. implicit), i.e. the '
                          'represented operator doubles' % q, f.lineno)
        else:
            prefix = [s2 for s2 in f.body[:top + 1]
                      if not (isinstance(s2, ast.Expr) and isinstance(s2.value, ast.Constant))]
            hn = {id(n) for n, _ in halve}
            ok = True
            table = {}
            for e in (True, False):
                for p_ in (True, False):
                    outs = set()
                    for path in run_paths(prefix, {'self.explicit_plus_hc': e}, {'plus_hc': p_}):
                        if path.outcome != 'fall':      # left before the terms are added
                            continue
                        did_h = any(id(x) in hn for st2 in path.trace for x in ast.walk(st2))
                        outs.add((did_h, path.env.get('plus_hc', '?')))
                    table[(e, p_)] = outs
                    want = {(False, False)} if (e and p_) else (
                        {(True, False)} if e else {(False, p_)})
                    if outs != want:
                        ok = False
            rep.instance('PLUSHC-guard', {'function': q, 'table': {
                '%s/%s' % k: sorted(map(str, v)) for k, v in table.items()}})
            if not ok:
                rep.violation('PLUSHC-guard', m, q, 'guard-shape',
                              'under explicit_plus_hc the method must either drop the explicit '
                              'h.c. (plus_hc = False, strength unchanged) or halve the strength; '
                              'without it nothing changes. Table (explicit, plus_hc) -> '
                              '(halved, plus_hc afterwards): %s' % {
                                  k: sorted(map(str, v)) for k, v in table.items()}, guard.lineno)
            else:
                # the guard precedes every term-adding call, and the halved variable feeds them
                defs = local_defs(f)
                for c in body_nodes(f):
                    if isinstance(c, ast.Call) and call_name(c) in TERM_ADDERS:
                        st = c
                        while not isinstance(st, ast.stmt):
                            st = parent(st)
                        if st.lineno < guard.lineno:
                            rep.violation('PLUSHC-guard', m, q, 'term-before-guard',
                                          '`%s` adds terms before the explicit_plus_hc guard' %
                                          unparse(c)[:60], c.lineno)
                        # strength argument
                        sarg = c.args[0] if c.args else None
                        if sarg is not None and call_name(sarg) != 'conj' and \
                                isinstance(sarg, (ast.Name, ast.BinOp, ast.Starred)):
                            if not (halved in names_in(sarg) or depends_on(f, sarg, [halved],
                                                                           defs)):
                                rep.violation('PLUSHC-guard', m, q, 'halved-not-used',
                                              'the guard halves `%s` but `%s` adds the term with '
                                              '`%s`, which does not depend on it' %
                                              (halved, unparse(c)[:50], unparse(sarg)), c.lineno)
        # ---- (b) the statements executed only for plus_hc=True after the guard
        hc_stmts = [st for st in ast.walk(f) if isinstance(st, ast.stmt) and
                    not isinstance(st, (ast.If, ast.For, ast.While, ast.FunctionDef)) and
                    (guard is None or st.lineno > getattr(guard, 'end_lineno', guard.lineno)) and
                    ('plus_hc', True) in {(t, pol) for t, pol, _ in guards_of(f, st)}]
        rep.instance('PLUSHC-hc-block', {'function': q, 'found': bool(hc_stmts)})
        if not hc_stmts:
            rep.violation('PLUSHC-hc-block', m, q, 'no-hc-block',
                          'plus_hc=True does not add the Hermitian conjugate terms', f.lineno)
            continue
        blk = type('Blk', (), {'body': hc_stmts, 'lineno': hc_stmts[0].lineno})()
        strength_param = pm[1]
        calls = [c for s in blk.body for c in ast.walk(s) if isinstance(c, ast.Call) and
                 call_name(c) in TERM_ADDERS]
        if not calls:
            rep.violation('PLUSHC-hc-block', m, q, 'hc-block-adds-nothing',
                          'the plus_hc block adds no term', blk.lineno)
            continue
        hc_names = set()
        for s in blk.body:
            for a in ast.walk(s):
                if isinstance(a, ast.Assign) and 'get_hc_op_name' in unparse(a.value):
                    for t in a.targets:
                        hc_names |= names_in(t)
        for c in calls:
            src = unparse(c)
            args = list(c.args) + [k.value for k in c.keywords]
            # strength conjugated
            s0 = c.args[0] if c.args else None
            if s0 is None or not (isinstance(s0, ast.Call) and dotted(s0.func) in (
                    'np.conj', 'np.conjugate') and halved_or(strength_param, halved) &
                    names_in(s0)):
                rep.violation('PLUSHC-hc-block', m, q, 'strength-not-conjugated',
                              '`%s`: the h.c. term must carry np.conj(strength)' % src[:70],
                              c.lineno)
            # every other complex parameter conjugated as well
            for extra in ('lambda_', ):
                if extra in pm:
                    used = [a for a in args if extra in names_in(a)]
                    for a in used:
                        if not (isinstance(a, ast.Call) and dotted(a.func) in ('np.conj',
                                                                               'np.conjugate')):
                            rep.violation('PLUSHC-hc-block', m, q, extra + '-not-conjugated',
                                          '`%s`: the h.c. of exp(-lambda r) terms needs '
                                          'np.conj(%s); with a complex decay rate the model is '
                                          'no longer Hermitian' % (src[:70], extra), c.lineno)
            # operator names must be the hc names
            for a in args:
                for nm in names_in(a):
                    if OP_PARAM_RE.match(nm) and nm in pm and nm not in ('op_string', ):
                        # raw operator parameter passed into the h.c. term
                        if not _inside_hc_expr(a, nm):
                            rep.violation('PLUSHC-hc-block', m, q, 'raw-operator:' + nm,
                                          '`%s` passes the operator `%s` itself instead of its '
                                          'Hermitian conjugate (get_hc_op_name)' % (src[:70], nm),
                                          c.lineno)
            # recursion must not add h.c. again
            if isinstance(c.func, ast.Attribute) and is_self_attr(c.func) and \
                    c.func.attr == f.name:
                ph = kwarg(c, 'plus_hc')
                if ph is None or unparse(ph) != 'False':
                    rep.violation('PLUSHC-hc-block', m, q, 'recursion-plus_hc',
                                  'the recursive call must pass plus_hc=False', c.lineno)
        # geometry of the reversed term
        if f.name == 'add_coupling':
            c = calls[-1]
            a = [unparse(x) for x in c.args]
            rep.instance('PLUSHC-reverse', {'function': q, 'args': a[:7]})
            if len(a) < 6 or a[1] != 'u2' or a[3] != 'u1' or a[5] not in ('-dx', '-1 * dx') or \
                    'op2' not in a[2] or 'op1' not in a[4]:
                rep.violation('PLUSHC-reverse', m, q, 'reverse-geometry',
                              'h.c. of op1(u1,x) op2(u2,x+dx) is op2^dag(u2,x) op1^dag(u1,x-dx): '
                              'expected (.., u2, hc_op2, u1, hc_op1, -dx, ..), got %s' % a[:6],
                              c.lineno)
        if f.name in ('add_multi_coupling', 'add_local_term'):
            rep.instance('PLUSHC-reverse', {'function': q})
            loops = [unparse(s.iter) for s in ast.walk(f) if isinstance(s, ast.For) and
                     ('plus_hc', True) in {(t, pol) for t, pol, _ in guards_of(f, s)}]
            if 'reversed(' not in ' '.join([unparse(s) for s in blk.body] + loops) and \
                    '[::-1]' not in ' '.join([unparse(s) for s in blk.body] + loops):
                rep.violation('PLUSHC-reverse', m, q, 'reverse-order',
                              'the h.c. of a product of operators reverses their order',
                              blk.lineno)
    return n


def halved_or(strength_param, halved):
    s = {strength_param}
    if halved:
        s.add(halved)
    s |= {'strength', 'strength_vals'}
    return s


def _inside_hc_expr(arg, nm):
    """is the raw name only used as input of get_hc_op_name(...) inside arg?"""
    for c in ast.walk(arg):
        if isinstance(c, ast.Call) and 'get_hc_op_name' in unparse(c.func) and \
                nm in names_in(c):
            return True
    return False


def _hc_added_under_flag(func, flag_text):
    """some statement adding a Hermitian conjugate (`X + X.conj()...`, `iconj`) executes exactly
    when the explicit_plus_hc flag holds (guards read off the block structure of the normal form,
    so `if flag:` blocks, `if not flag: return` guard clauses and named flags all count)"""
    nf = inline_temps(func)
    for st in ast.walk(nf):
        if not isinstance(st, ast.stmt) or isinstance(st, (ast.If, ast.For, ast.While, ast.Try,
                                                           ast.With, ast.FunctionDef)):
            continue
        u = unparse(st)
        if '.conj()' not in u and 'iconj' not in u:
            continue
        for t, pol, _ in guards_of(nf, st):
            if pol and (t == flag_text or (flag_text is None and t.endswith('explicit_plus_hc'))):
                return True
    return False


def check_hcflag_model(prog, rep):
    m = prog.module(MODEL)
    table = [
        ('CouplingModel.calc_H_bond', 'conj'),
        ('CouplingModel.calc_H_MPO', 'set'),
    ]
    for q, how in table:
        f = m.func(q)
        src = unparse(f)
        rep.instance('HCFLAG-model', {'function': q})
        if 'explicit_plus_hc' not in src:
            rep.violation('HCFLAG-model', m, q, 'flag-ignored',
                          '%s builds a representation of H from the stored terms but ignores '
                          'explicit_plus_hc: the h.c. half of the Hamiltonian is missing there' % q,
                          f.lineno)
            continue
        if how == 'conj':
            if not _hc_added_under_flag(f, 'self.explicit_plus_hc'):
                rep.violation('HCFLAG-model', m, q, 'no-hc-added',
                              'with explicit_plus_hc the bond Hamiltonians must get their '
                              'Hermitian conjugate added', f.lineno)
            # ... and it is added to the COMPLETE half: every contribution to the result (terms
            # converted into it, helper calls that fill it) precedes the conjugation
            hc_ifs = [st for st in ast.walk(f) if isinstance(st, ast.If) and
                      'explicit_plus_hc' in unparse(st.test) and '.conj()' in unparse(st)]
            res_names = {unparse(r.value) for r in ast.walk(f) if isinstance(r, ast.Return) and
                         isinstance(r.value, ast.Name)}
            for hi in hc_ifs:
                for st in ast.walk(f):
                    if not isinstance(st, (ast.Expr, ast.Assign, ast.AugAssign)) or \
                            st.lineno <= (hi.end_lineno or hi.lineno):
                        continue
                    contributes = False
                    for c in ast.walk(st):
                        if isinstance(c, ast.Call) and any(
                                isinstance(a, ast.Name) and a.id in res_names for a in c.args):
                            contributes = True
                    if isinstance(st, (ast.Assign, ast.AugAssign)):
                        tg = st.targets[0] if isinstance(st, ast.Assign) else st.target
                        base = tg.value if isinstance(tg, ast.Subscript) else tg
                        if isinstance(base, ast.Name) and base.id in res_names:
                            contributes = True
                    if contributes:
                        rep.violation('HCFLAG-model', m, q, 'contribution-after-hc',
                                      '`%s` adds to the result after the Hermitian conjugate was '
                                      'added under explicit_plus_hc: these terms (stored as one '
                                      'half as well) never get their h.c.' % key_text(st)[:70],
                                      st.lineno)
        if how == 'set':
            ok = any(isinstance(s, ast.Assign) and unparse(s.targets[0]).endswith(
                '.explicit_plus_hc') and unparse(s.value) == 'self.explicit_plus_hc'
                for s in stmts_of(f)) or 'explicit_plus_hc=self.explicit_plus_hc' in src
            if not ok:
                rep.violation('HCFLAG-model', m, q, 'flag-not-forwarded',
                              'the MPO built from the terms must carry the model\'s '
                              'explicit_plus_hc', f.lineno)
    ed = prog.module(ED)
    rep.unit(ed)
    f = ed.func('ExactDiag.build_full_H_from_mpo')
    rep.instance('HCFLAG-model', {'function': 'ExactDiag.build_full_H_from_mpo'})
    if not _hc_added_under_flag(f, None):
        rep.violation('HCFLAG-model', ed, 'ExactDiag.build_full_H_from_mpo', 'no-hc-added',
                      'the dense matrix of an MPO with explicit_plus_hc needs + h.c.', f.lineno)
    # conversions between MPO and bond form refuse / handle the flag
    for q in ('MPOModel.calc_H_bond_from_MPO', 'NearestNeighborModel.calc_H_MPO_from_bond'):
        if not m.has_func(q):
            continue
        f = m.func(q)
        rep.instance('HCFLAG-model', {'function': q})
        if q.endswith('calc_H_bond_from_MPO') and 'explicit_plus_hc' not in unparse(f):
            rep.violation('HCFLAG-model', m, q, 'flag-ignored',
                          'bond terms extracted from an MPO with explicit_plus_hc miss the h.c. '
                          'half', f.lineno)


def check_hcflag_consumers(prog, rep):
    """HCFLAG-model (exhaustive part): every function of the package outside the term containers
    that reads BOTH stored term collections of a model (all_onsite_terms() and
    all_coupling_terms()) builds a representation of the Hamiltonian from them; with
    explicit_plus_hc the stored terms are one half of the operator, so the function adds the
    hermitian conjugate under the flag, forwards the flag, or refuses."""
    n = 0
    for mod in prog.all_modules():
        if mod.relpath.endswith('networks/terms.py'):
            continue
        for q, f in mod.functions.items():
            calls = {c.func.attr for c in body_nodes(f) if isinstance(c, ast.Call) and
                     isinstance(c.func, ast.Attribute)}
            if not {'all_onsite_terms', 'all_coupling_terms'} <= calls:
                continue
            n += 1
            src = unparse(f)
            ok = _hc_added_under_flag(f, None) or bool(re.search(
                r'explicit_plus_hc\s*=\s*\w+(\.\w+)*\.explicit_plus_hc', src)) or any(
                    isinstance(s_, ast.Assign) and unparse(s_.targets[0]).endswith(
                        '.explicit_plus_hc') for s_ in stmts_of(f))
            rep.instance('HCFLAG-model', {'function': q, 'consumes_stored_terms': True,
                                          'handles_flag': ok})
            if not ok:
                rep.violation('HCFLAG-model', mod, q, 'consumer-ignores-flag',
                              '%s sums the stored on-site and coupling terms of a model but '
                              'neither adds the hermitian conjugate under explicit_plus_hc nor '
                              'forwards the flag: for a model built with explicit_plus_hc=True it '
                              'represents only half of the Hamiltonian' % q, f.lineno)
    return n


def check_perm_undo(prog, rep):
    """exact_diag.py exports operators / wave functions in the user's basis order: `site.perm`
    (position in the charge-sorted basis -> original index) is only ever used there through
    inverse_permutation (the three exporters are siblings and must agree)."""
    m = prog.module(ED)
    n = 0
    for q, f in m.functions.items():
        for x in body_nodes(f):
            if isinstance(x, ast.Attribute) and x.attr == 'perm' and isinstance(x.ctx, ast.Load):
                n += 1
                par = parent(x)
                while isinstance(par, ast.Call) and call_name(par) in ('asarray', 'array', 'list'):
                    par = parent(par)
                inv = isinstance(par, ast.Call) and call_name(par) == 'inverse_permutation'
                if not inv and isinstance(par, ast.Call) and call_name(par) == 'argsort':
                    inv = True
                rep.instance('PERM-undo', {'function': q, 'use': unparse(parent(x))[:60],
                                           'inverted': inv})
                if not inv:
                    rep.violation('PERM-undo', m, q, 'perm-not-inverted',
                                  '`%s`: undoing the charge sorting needs '
                                  'inverse_permutation(site.perm); the permutation itself sorts a '
                                  'second time (only wrong for sites whose permutation is not an '
                                  'involution, e.g. BosonSite with parity)' %
                                  unparse(parent(x))[:70], x.lineno)
    if n < 3:
        raise AnalysisError('PERM-undo: uses of site.perm in exact_diag.py not found')


def check_bond_convention(prog, rep):
    """H_bond[j] acts on the sites (j-1, j); MPS.expectation_value applies the k-th operator of a
    list on the sites (k, k+1). A list handed to expectation_value must therefore start with
    H_bond[1] (finite: H_bond[1:], infinite: H_bond[1:] + H_bond[:1], result rolled back)."""
    n = 0
    for rel in (MODEL, 'tenpy/algorithms/tebd.py', 'tenpy/algorithms/purification.py',
                'tenpy/simulations/measurement.py'):
        m = prog.module(rel)
        for q, f0 in m.functions.items():
            if 'H_bond' not in unparse(f0) or 'expectation_value' not in unparse(f0):
                continue
            f = inline_temps(f0)
            for c in body_nodes(f):
                if isinstance(c, ast.Call) and call_name(c) == 'expectation_value' and c.args and \
                        'H_bond' in unparse(c.args[0]):
                    n += 1
                    a = c.args[0]
                    ok = bool(pmatch('$$h.H_bond[1:]', a) or
                              pmatch('$$h.H_bond[1:] + $$h.H_bond[:1]', a))
                    rep.instance('BOND-convention', {'function': q, 'operators': unparse(a)[:60],
                                                     'starts_with_bond_1': ok})
                    if not ok:
                        rep.violation('BOND-convention', m, q, 'bond-shift',
                                      '`%s`: expectation_value applies the k-th operator on sites '
                                      '(k, k+1), but H_bond[k] belongs to the bond (k-1, k): the '
                                      'energies are evaluated one bond off (wrong unless the unit '
                                      'cell is translation invariant)' % unparse(c)[:80], c.lineno)
    if n < 2:
        raise AnalysisError('BOND-convention: uses of H_bond in expectation_value not found')


def check_sign_with_term(prog, rep):
    """order_combine_term returns the re-ordered term together with the fermionic sign of the
    re-ordering. Whoever adds something built from the re-ordered term (directly or as its h.c.)
    must use a strength that contains that sign."""
    m = prog.module(MODEL)
    n = 0
    for q, f in m.functions.items():
        un = [(st, e) for st in stmts_of(f)
              for e in [pmatch('$t, $sg = order_combine_term($$a, $$b)', st)] if e]
        if not un:
            continue
        t_, sg = un[0][1]['$t'], un[0][1]['$sg']
        defs = local_defs(f)
        for c in body_nodes(f):
            if not (isinstance(c, ast.Call) and call_name(c) in TERM_ADDERS | {
                    'coupling_term_handle_JW', 'multi_coupling_term_handle_JW'} and c.args):
                continue
            if c.lineno < un[0][0].lineno:
                continue
            others = list(c.args[1:]) + [k.value for k in c.keywords]
            uses_term = any(t_ in names_in(a) or depends_on(f, a, [t_], defs) for a in others)
            if not uses_term or isinstance(c.args[0], ast.Starred):
                continue
            n += 1
            dep = depends_on(f, c.args[0], [sg], defs)
            rep.instance('SIGN-with-term', {'function': q, 'call': unparse(c)[:70],
                                            'strength_contains_sign': dep})
            if not dep:
                rep.violation('SIGN-with-term', m, q, 'sign-dropped:' + unparse(c.args[0])[:30],
                              '`%s` adds a term built from the re-ordered `%s` with the strength '
                              '`%s`, which does not contain the re-ordering sign `%s`: odd '
                              'permutations of fermionic operators get the wrong sign' %
                              (unparse(c)[:80], t_, unparse(c.args[0]), sg), c.lineno)
    if n < 3:
        raise AnalysisError('SIGN-with-term: uses of order_combine_term in model.py not found')


def check_onsite_weights(prog, rep):
    """When on-site terms are folded into nearest-neighbour bond operators every site's term must
    enter with total weight 1: 1/2 on each of its two bonds, except the end sites of a FINITE
    chain, which belong to one bond only (weight 1). Decided as a table over (finite, position) on
    the weight expressions of both implementations."""
    m = prog.module(MODEL)
    f = m.func('MPOModel.calc_H_bond_from_MPO')
    ws = {}
    for st in ast.walk(f):
        if isinstance(st, ast.Assign) and len(st.targets) == 1 and isinstance(
                st.targets[0], ast.Name) and isinstance(st.value, ast.IfExp):
            consts = {c.value for c in ast.walk(st.value) if isinstance(c, ast.Constant) and
                      isinstance(c.value, float)}
            if consts == {1.0, 0.5}:
                t = unparse(st.value.test)
                side = 'i' if re.search(r'\bi == 0\b', t) else ('j' if re.search(
                    r'\bj == L - 1\b', t) else None)
                if side:
                    ws[side] = st.value
    rep.instance('WEIGHT-onsite', {'function': 'MPOModel.calc_H_bond_from_MPO',
                                   'weights': {k: unparse(v) for k, v in ws.items()}})
    if set(ws) != {'i', 'j'}:
        raise AnalysisError('calc_H_bond_from_MPO: the weights of the on-site terms were not found')

    def w(side, finite, at_end):
        atoms = {'finite': finite, 'i == 0': at_end, 'j == L - 1': at_end}
        v = dval(ws[side], atoms, {})
        return None if v is UNKNOWN else v

    cases = []
    for finite in (True, False):
        # first site: left site of bond 1; additionally right site of the wrap-around bond 0
        first = [w('i', finite, True)] + ([] if finite else [w('j', finite, False)])
        last = [w('j', finite, True)] + ([] if finite else [w('i', finite, False)])
        mid = [w('i', finite, False), w('j', finite, False)]
        cases += [(finite, 'first', first), (finite, 'last', last), (finite, 'inner', mid)]
    for finite, pos, parts in cases:
        rep.instance('WEIGHT-onsite', {'finite': finite, 'site': pos, 'weights': parts})
        if None in parts:
            continue
        if abs(sum(parts) - 1.0) > 1e-12:
            rep.violation('WEIGHT-onsite', m, 'MPOModel.calc_H_bond_from_MPO',
                          'weight:%s:%s' % ('finite' if finite else 'infinite', pos),
                          'the on-site term of the %s site of %s chain enters the bond operators '
                          'with total weight %s (parts %s) instead of 1: the sum of the bond '
                          'operators is no longer the Hamiltonian' %
                          (pos, 'a finite' if finite else 'an infinite', sum(parts), parts),
                          f.lineno)
    # sibling: OnsiteTerms.add_to_nn_bond_Arrays
    t = prog.module(TERMS)
    g = t.func('OnsiteTerms.add_to_nn_bond_Arrays')
    body = None
    for lp in ast.walk(g):
        if isinstance(lp, ast.For) and any(isinstance(x, ast.If) and 'finite' in unparse(x.test)
                                           for x in lp.body):
            body = [x for x in lp.body if isinstance(x, ast.If) and 'finite' in unparse(x.test)]
    if body is None:
        raise AnalysisError('add_to_nn_bond_Arrays: distribution table not found')
    jv = 'j'
    for finite in (True, False):
        for pos in ('first', 'last', 'inner'):
            atoms = {'finite': finite, '%s == 0' % jv: pos == 'first',
                     '%s == N_sites - 1' % jv: pos == 'last', '%s == self.L - 1' % jv: pos == 'last'}
            got = set()
            for p_ in run_paths(body, atoms, {'distribute': (0.5, 0.5)}):
                dl, dr = p_.env.get('dist_L'), p_.env.get('dist_R')
                if isinstance(dl, ast.AST) or isinstance(dr, ast.AST):
                    dl, dr = dval(dl, atoms, p_.env) if isinstance(dl, ast.AST) else dl, \
                        dval(dr, atoms, p_.env) if isinstance(dr, ast.AST) else dr
                got.add((dl, dr))
            want = (0.0, 1.0) if (finite and pos == 'first') else (
                (1.0, 0.0) if (finite and pos == 'last') else (0.5, 0.5))
            rep.instance('WEIGHT-onsite', {'function': 'add_to_nn_bond_Arrays', 'finite': finite,
                                           'site': pos, 'distribution': sorted(map(str, got))})
            if got != {want}:
                rep.violation('WEIGHT-onsite', t, 'OnsiteTerms.add_to_nn_bond_Arrays',
                              'dist:%s:%s' % (finite, pos),
                              'on-site term of the %s site (%s): (left bond, right bond) weights '
                              '%s, expected %s' % (pos, 'finite' if finite else 'infinite',
                                                   sorted(map(str, got)), want), g.lineno)


def check_term_classes(prog, rep):
    m = prog.module(TERMS)
    rep.unit(m)
    need = ['add_to_graph', 'to_TermList', 'remove_zeros', 'max_range']
    ct = prog.classtable()
    for cname in ('OnsiteTerms', 'CouplingTerms', 'MultiCouplingTerms',
                  'ExponentiallyDecayingTerms'):
        ci = ct.get(cname)
        for meth in need:
            if cname == 'ExponentiallyDecayingTerms' and meth == 'remove_zeros':
                continue  # never called on exp_decaying_terms (model.py / exact_diag.py)
            o, f = ct.resolve_method(ci, meth)
            rep.instance('TERMS-interface', {'class': cname, 'method': meth,
                                             'defined_in': o.name if o else None})
            if f is None:
                rep.violation('TERMS-interface', m, cname, 'missing:' + meth,
                              'term class %s lacks %s, which MPOGraph.from_terms / '
                              'CouplingModel.all_*_terms call on every term class' %
                              (cname, meth), ci.node.lineno)
    # merge-key completeness: what is overwritten on a merge is what was compared
    f = m.func('MultiCouplingTerms._insert_connection')
    rep.instance('TERMS-merge-key', {})
    # fields of the connection tuple (positions) that are compared / taken over from the new one
    newp = [p_ for p_ in params(f) if p_ != 'self'][-1]
    unpack = {}
    for s_ in stmts_of(f):
        if isinstance(s_, ast.Assign) and isinstance(s_.targets[0], ast.Tuple) and \
                unparse(s_.value) == newp:
            for k_, e_ in enumerate(s_.targets[0].elts):
                if isinstance(e_, ast.Name):
                    unpack[e_.id] = k_

    def fields(e):
        if isinstance(e, ast.Subscript) and isinstance(e.slice, ast.Slice) and \
                e.slice.lower is None and isinstance(e.slice.upper, ast.Constant):
            return set(range(int(e.slice.upper.value)))
        if isinstance(e, ast.Tuple):
            return set(range(len(e.elts)))
        return None
    cmp_bounds = set()
    for c in ast.walk(f):
        if isinstance(c, ast.Compare) and isinstance(c.ops[0], ast.Eq):
            for side in (c.left, c.comparators[0]):
                fs = fields(side)
                if fs is not None:
                    cmp_bounds |= {str(x) for x in fs}
    ow_bounds = set()
    conn_alias = {'self.connections'} | {
        s_.targets[0].id for s_ in stmts_of(f) if isinstance(s_, ast.Assign) and isinstance(
            s_.targets[0], ast.Name) and unparse(s_.value) == 'self.connections'}
    for s_ in stmts_of(f):
        if isinstance(s_, ast.Assign) and isinstance(s_.targets[0], ast.Subscript) and unparse(
                s_.targets[0].value) in conn_alias:
            v = s_.value
            parts = [v]
            if isinstance(v, ast.BinOp) and isinstance(v.op, ast.Add):
                parts = [v.left, v.right]
            pos = 0
            for part in parts:
                if isinstance(part, ast.Subscript) and unparse(part.value) == newp:
                    fs = fields(part) or set()
                    ow_bounds |= {str(x) for x in fs}
                    pos += len(fs)
                elif isinstance(part, ast.Tuple):
                    for e_ in part.elts:
                        if isinstance(e_, ast.Name) and unpack.get(e_.id) == pos:
                            ow_bounds.add(str(pos))
                        elif isinstance(e_, ast.Subscript) and unparse(e_.value) == newp and \
                                isinstance(e_.slice, ast.Constant) and e_.slice.value == pos:
                            ow_bounds.add(str(pos))
                        pos += 1
    if not cmp_bounds or not ow_bounds:
        raise AnalysisError('_insert_connection: merge comparison / overwrite not found')
    if cmp_bounds != ow_bounds:
        rep.violation('TERMS-merge-key', m, 'MultiCouplingTerms._insert_connection',
                      'merge-key-narrower',
                      'an existing connection is recognised by comparing the first %s fields but '
                      'on a match the first %s fields are overwritten by the new ones: terms that '
                      'differ in a field that is not compared are merged into one (one term gets '
                      'the summed strength, the other disappears)' %
                      (sorted(cmp_bounds), sorted(ow_bounds)), f.lineno)
    # the connection tuple has as many fields as add_to_graph unpacks
    g = m.func('MultiCouplingTerms.add_to_graph')
    a = m.func('MultiCouplingTerms.add_multi_coupling_term')
    rep.instance('TERMS-merge-key', {'tuple': 'connection arity'})
    mk = [s for s in stmts_of(a) if isinstance(s, ast.Assign) and
          unparse(s.targets[0]) == 'new_connection' and isinstance(s.value, ast.Tuple)]
    un = [s for s in stmts_of(g) if isinstance(s, ast.Assign) and
          unparse(s.value) == 'connection' and isinstance(s.targets[0], ast.Tuple)]
    if mk and un:
        made = [unparse(e) for e in mk[0].value.elts]
        got = [unparse(e) for e in un[0].targets[0].elts]
        if made != got:
            rep.violation('TERMS-merge-key', m, 'MultiCouplingTerms.add_to_graph',
                          'connection-fields',
                          'connections are stored as %s but unpacked as %s' % (made, got),
                          un[0].lineno)
    # CouplingTerms.add_coupling_term accumulates (same key -> strengths add up)
    f = inline_temps(m.func('CouplingTerms.add_coupling_term'))
    rep.instance('TERMS-accumulate', {})
    ok = False
    for st in ast.walk(f):
        # D[k] = D.get(k, 0) + strength   |   D[k] += strength (after setdefault)   on the leaf dict
        e = pmatch('$$d[$$k] = $$d.get($$k, $$z) + strength', st) if isinstance(
            st, ast.Assign) else None
        if e:
            ok = True
        if isinstance(st, ast.AugAssign) and isinstance(st.op, ast.Add) and \
                unparse(st.value) == 'strength' and isinstance(st.target, ast.Subscript):
            ok = True
    if not ok:
        rep.violation('TERMS-accumulate', m, 'CouplingTerms.add_coupling_term', 'overwrite',
                      'adding a term that already exists must add the strengths, not replace',
                      f.lineno)


def _sign_applied(f):
    """the sign returned by order_combine_term multiplies the strength that reaches the term
    adders (in either order, through temporaries)"""
    nf = inline_temps(f)
    signs = set()
    for st in stmts_of(f):
        if isinstance(st, ast.Assign) and isinstance(st.value, ast.Call) and \
                call_name(st.value) == 'order_combine_term' and isinstance(st.targets[0], ast.Tuple):
            signs |= {n.id for n in st.targets[0].elts[1:] if isinstance(n, ast.Name)}
    for b in ast.walk(nf):
        if isinstance(b, ast.BinOp) and isinstance(b.op, ast.Mult):
            names = {n.id for n in ast.walk(b) if isinstance(n, ast.Name)}
            via_call = any(isinstance(c, ast.Call) and call_name(c) == 'order_combine_term'
                           for c in ast.walk(b))
            if (names & signs or via_call) and any('strength' in x for x in names):
                return True
    for b in ast.walk(f):
        if isinstance(b, ast.AugAssign) and isinstance(b.op, ast.Mult) and isinstance(
                b.target, ast.Name) and 'strength' in b.target.id and \
                {n.id for n in ast.walk(b.value) if isinstance(n, ast.Name)} & signs:
            return True
    return False


def check_jw_in_model(prog, rep):
    m = prog.module(MODEL)
    for q, ops in (('CouplingModel.add_coupling', ('op1', 'op2')),
                   ('CouplingModel.add_exponentially_decaying_coupling', ('op_i', 'op_j')),
                   ('CouplingModel.add_exponentially_decaying_centered_terms', ('op_i', 'op_j'))):
        f = m.func(q)
        rep.instance('JW-model', {'function': q})
        calls = [c for c in body_nodes(f) if isinstance(c, ast.Call) and
                 call_name(c) == 'op_needs_JW']
        seen = {unparse(c.args[0]) for c in calls if c.args}
        for o in ops:
            if o not in seen:
                rep.violation('JW-model', m, q, 'jw-not-checked:' + o,
                              '%s never asks op_needs_JW(%s): a fermionic operator there gets no '
                              'Jordan-Wigner string and no error' % (q, o), f.lineno)
    for q in ('CouplingModel.add_onsite', ):
        f = m.func(q)
        rep.instance('JW-model', {'function': q})
        if 'op_needs_JW' not in unparse(f):
            rep.violation('JW-model', m, q, 'jw-not-checked',
                          'onsite operators that need a Jordan-Wigner string must be rejected',
                          f.lineno)
    f = m.func('CouplingModel.add_multi_coupling')
    rep.instance('JW-model', {'function': 'CouplingModel.add_multi_coupling'})
    src = unparse(f)
    if 'op_needs_JW' not in src or 'multi_coupling_term_handle_JW' not in src or \
            'order_combine_term' not in src:
        rep.violation('JW-model', m, 'CouplingModel.add_multi_coupling', 'jw-pipeline',
                      'multi-site terms must be ordered (order_combine_term: fermionic sign) and '
                      'passed through multi_coupling_term_handle_JW', f.lineno)
    f = m.func('CouplingModel.add_local_term')
    rep.instance('JW-model', {'function': 'CouplingModel.add_local_term'})
    src = unparse(f)
    if 'order_combine_term' not in src or 'coupling_term_handle_JW' not in src or \
            'multi_coupling_term_handle_JW' not in src or not _sign_applied(f):
        rep.violation('JW-model', m, 'CouplingModel.add_local_term', 'jw-pipeline',
                      'local terms must be ordered with the fermionic sign applied to the strength '
                      'and passed through the JW handlers', f.lineno)


def run(prog, rep, tier):
    rep.rule('PLUSHC-*', 'every CouplingModel.add_* with a plus_hc parameter follows the protocol: '
             'guard under explicit_plus_hc (drop explicit h.c. or halve the strength that is later '
             'used) before any term is added; trailing plus_hc block adds the conjugate with '
             'np.conj(strength) (and np.conj(lambda_)), hc operator names, reversed geometry, and '
             'plus_hc=False on recursion')
    rep.rule('HCFLAG-model', 'converters of the stored terms consult / forward explicit_plus_hc')
    rep.rule('TERMS-*', 'term classes implement the common interface; merge key = overwritten '
             'fields; equal terms accumulate')
    rep.rule('JW-model', 'operator placement APIs reach the Jordan-Wigner decision')
    n = check_plus_hc(prog, rep)
    check_hcflag_model(prog, rep)
    if check_hcflag_consumers(prog, rep) < 2:
        raise AnalysisError('HCFLAG-model: consumers of the stored terms not found')
    check_term_classes(prog, rep)
    check_jw_in_model(prog, rep)
    check_onsite_weights(prog, rep)
    check_sign_with_term(prog, rep)
    check_bond_convention(prog, rep)
    check_perm_undo(prog, rep)
    rep.floor('PLUSHC-guard', 9)
    rep.floor('PLUSHC-hc-block', 9)
    rep.floor('TERMS-interface', 15)
    rep.assumptions += ['equality of the dense matrices of the representations is NOT decided']
    from ..flow import check_dead_computations
    rep.rule('VALUE-dead', 'no result of a call is bound to a local that is never read (reaching '
             'definitions)')
    check_dead_computations(prog, rep, ['tenpy/models/model.py', 'tenpy/networks/terms.py'])
    from ..flow import check_undefined_attrs
    rep.rule('ATTR-defined', 'every self.X read names an attribute bound somewhere in the class family')
    import glob as _glob
    import os as _os
    predefined = sorted(_os.path.relpath(p_, prog.repo) for p_ in _glob.glob(
        _os.path.join(prog.repo, 'tenpy', 'models', '*.py')) if not p_.endswith('__init__.py'))
    check_undefined_attrs(prog, rep, sorted(set(['tenpy/models/model.py', 'tenpy/networks/terms.py'] +
                                                predefined)))
    from ..flow import check_carried_flags
    rep.rule('LOOP-carried-flag', 'a flag set under a test inside a loop body and read there is '
             're-initialised per iteration')
    check_carried_flags(prog, rep, ['tenpy/models/model.py', 'tenpy/networks/terms.py'])
    from ..flow import check_mixed_accumulation
    rep.rule('ACCUM-mixed', 'a container that accumulates contributions in a loop is not also '
             'overwritten there')
    check_mixed_accumulation(prog, rep, ['tenpy/models/model.py', 'tenpy/networks/terms.py', 'tenpy/algorithms/exact_diag.py'])
    rep.rule('INDEX-wrap', 'mps2lat_idx receives the un-reduced MPS index')
    if check_index_wrap(prog, rep) < 5:
        raise AnalysisError('INDEX-wrap: calls of mps2lat_idx not found')
    from ..flow import check_mod_compare
    rep.rule('INDEX-mod-compare', 'periodic equality of indices is tested as (a - b) % L == 0, never '
             'as a % L == b with an unreduced b')
    check_mod_compare(prog, rep, ['tenpy/networks/mpo.py', 'tenpy/networks/terms.py',
                                  'tenpy/models/model.py'])
    from ..flow import check_stale_loop_reads
    rep.rule('LOOP-stale-read', 'no per-item variable is read in a loop before the iteration assigns '
             'it when its only other bindings are inside other loops')
    check_stale_loop_reads(prog, rep, ['tenpy/models/model.py', 'tenpy/networks/terms.py'])
    from .c11 import check_hcflag_mpo
    from ..flow import check_group_stride
    rep.rule('GROUP-stride', 'loops over grouped sites advance by the size of the group, never by the '
             'nominal n')
    if check_group_stride(prog, rep, ['tenpy/models/model.py']) < 1:
        raise AnalysisError('GROUP-stride: loop over grouped_sites not found')
    rep.rule('HCFLAG-mpo', 'every MPO method that builds another MPO from the W tensors hands on '
             'explicit_plus_hc (a segment / copy without it is half of the Hamiltonian)')
    check_hcflag_mpo(prog, rep)
    rep.rule('PARAM-explicit-kept', 'an explicitly given op_string is never replaced (assignments '
             'only under `op_string is None`)')
    if check_explicit_op_string(prog, rep) < 3:
        raise AnalysisError('PARAM-explicit-kept: fewer than 3 assignments to op_string')
    rep.rule('RANGE-all-term-kinds', 'H_MPO.max_range accounts for every kind of term the MPO is built '
             'from (exponentially decaying terms: np.inf)')
    check_range_all_kinds(prog, rep)
    rep.rule('EXPORT-op-string', 'consumers of CouplingTerms.to_TermList() (operator strings dropped) '
             'do not put the identity between the operators')
    check_export_op_string(prog, rep)
    return rep.finish(
        level='other',
        explanation='plus_hc / explicit_plus_hc protocol decided for %d sibling add_* methods of '
        'CouplingModel, flag handling of the representation converters, term-class interface and '
        'merge-key completeness, on the current source.' % n)


def check_index_wrap(prog, rep):
    """INDEX-wrap: Lattice.mps2lat_idx derives the unit-cell shift x_0 from an MPS index outside
    [0, N_sites); a caller that reduces the index modulo the number of sites first (as is right
    for looking up the Site object) throws that shift away: a term crossing the unit-cell boundary
    lands inside the first cell."""
    n = 0
    for mod in prog.all_modules():
        for q, f in mod.functions.items():
            for c in body_nodes(f):
                if isinstance(c, ast.Call) and isinstance(c.func, ast.Attribute) and \
                        c.func.attr == 'mps2lat_idx' and c.args:
                    n += 1
                    a = c.args[0]
                    wrapped = isinstance(a, ast.BinOp) and isinstance(a.op, ast.Mod)
                    rep.instance('INDEX-wrap', {'function': q, 'call': unparse(c)[:60],
                                                'argument_reduced': wrapped})
                    if wrapped:
                        rep.violation('INDEX-wrap', mod, q, 'wrapped:' + unparse(a)[:30],
                                      '`%s`: the index is reduced modulo the unit cell before '
                                      'mps2lat_idx can turn its excess into the shift of x_0: '
                                      'operators in neighbouring unit cells are mapped into the '
                                      'first one' % unparse(c)[:60], c.lineno)
    return n


# ------------------------------------------------------------------ EXPORT-op-string
def check_export_op_string(prog, rep):
    """EXPORT-op-string: a two-site (multi-site) coupling is `op_i  S S .. S  op_j` with the operator
    string S ('JW' for fermions) on the sites in between. CouplingTerms.to_TermList() unpacks the
    key `(opname_i, op_str)` and DROPS `op_str` (fact read off its body: the name is bound and never
    read). A consumer that takes its terms from there and fills the sites between the operators with
    the identity therefore builds another operator than the MPO for every coupling with a
    non-trivial string and range >= 2."""
    mt = prog.module('tenpy/networks/terms.py')
    g = mt.func('CouplingTerms.to_TermList')
    bound = {x.id for lp in ast.walk(g) if isinstance(lp, ast.For) for x in ast.walk(lp.target)
             if isinstance(x, ast.Name)}
    # names that reach the output: arguments of `terms.append(..)` / the TermList constructor
    read = {x.id for c in ast.walk(g) if isinstance(c, ast.Call) and (
        (isinstance(c.func, ast.Attribute) and c.func.attr == 'append' and
         unparse(c.func.value) == 'terms') or unparse(c.func) == 'TermList')
            for a in c.args for x in ast.walk(a) if isinstance(x, ast.Name)}
    dropped = sorted(n_ for n_ in bound - read if 'str' in n_)
    rep.instance('EXPORT-op-string', {'fact': 'CouplingTerms.to_TermList drops the operator string',
                                      'unused_loop_names': dropped})
    n = 0
    if not dropped:
        return 1
    m = prog.module('tenpy/algorithms/exact_diag.py')
    for q, f in m.functions.items():
        uses = [c for c in ast.walk(f) if isinstance(c, ast.Call) and isinstance(
            c.func, ast.Attribute) and c.func.attr == 'to_TermList']
        fills = [c for c in ast.walk(f) if isinstance(c, ast.Call) and unparse(c.func) in (
            'np.eye', 'spsp.eye', 'np.identity')]
        coupling_src = any('coupling_terms' in unparse(a.value) for a in ast.walk(f)
                           if isinstance(a, ast.Assign))
        if uses and fills and coupling_src:
            n += 1
            rep.instance('EXPORT-op-string', {'function': q, 'identity_between_operators': True})
            rep.violation('EXPORT-op-string', m, q, 'identity-for-string',
                          '%s takes the coupling terms through to_TermList() (operator strings '
                          'dropped) and puts the identity on the sites between the operators: for '
                          'fermionic couplings of range >= 2 the Jordan-Wigner string is missing, '
                          'the exported matrix is not the operator of the MPO' % q, f.lineno)
    return max(n, 1)


# ------------------------------------------------------------------ PARAM-explicit-kept
def check_explicit_op_string(prog, rep):
    """PARAM-explicit-kept: `op_string=None` means "determine the string from the Jordan-Wigner
    needs of the operators"; any other value is the caller's choice. In the functions of terms.py /
    model.py that take `op_string`, every assignment to that parameter sits under the condition
    `op_string is None` (sibling agreement of the two-site and the multi-site handler)."""
    from ..pattern import guards_of
    n = 0
    for rel in ('tenpy/networks/terms.py', 'tenpy/models/model.py'):
        m = prog.module(rel)
        for q, f in m.functions.items():
            if 'op_string' not in params(f):
                continue
            for st in stmts_of(f):
                if not (isinstance(st, ast.Assign) and any(
                        isinstance(t, ast.Name) and t.id == 'op_string' for t in st.targets)):
                    continue
                if any(isinstance(x, ast.Name) and x.id == 'op_string' for x in ast.walk(st.value)):
                    continue      # re-packaging of the given value (`[op_string] * n`)
                n += 1
                gs = {(t, p) for t, p, _ in guards_of(f, st)}
                ok = ('op_string is None', True) in gs or ('op_string is not None', False) in gs \
                    or any(p and 'op_string is None' in t for t, p in gs)
                rep.instance('PARAM-explicit-kept', {'function': q, 'assign': key_text(st)[:50],
                                                     'only_for_default': ok})
                if not ok:
                    rep.violation('PARAM-explicit-kept', m, q, 'overrides-explicit:op_string',
                                  '`%s` replaces `op_string` also when the caller gave one '
                                  '(conditions here: %s): the explicit string of the coupling is '
                                  'silently dropped' % (key_text(st)[:50], sorted(gs)), st.lineno)
    return n


# ------------------------------------------------------------------ RANGE-all-term-kinds
def check_range_all_kinds(prog, rep):
    """RANGE-all-term-kinds: calc_H_MPO builds the MPO from three kinds of terms (onsite, coupling,
    exponentially decaying) and then states `H_MPO.max_range`. The stated range has to account for
    every kind it built from that has a range: if the exponentially decaying terms go into the graph
    (`edt` among the arguments of MPOGraph.from_terms), a store to `H_MPO.max_range` depends on them
    too (`edt.max_range()` under `not edt.is_empty`), not only on the coupling terms."""
    m = prog.module('tenpy/models/model.py')
    f = m.func('CouplingModel.calc_H_MPO')
    srcs = {}
    for st in stmts_of(f):
        if isinstance(st, ast.Assign) and isinstance(st.targets[0], ast.Name):
            srcs[st.targets[0].id] = unparse(st.value)
    edt = [k for k, v in srcs.items() if 'exp_decaying_terms' in v]
    used = [k for k in edt if any(isinstance(c, ast.Call) and unparse(c.func).endswith('from_terms')
                                  and k in unparse(c) for c in ast.walk(f))]
    stores = [st for st in stmts_of(f) if isinstance(st, ast.Assign) and
              unparse(st.targets[0]).endswith('.max_range')]
    if not stores:
        raise AnalysisError('calc_H_MPO: store to H_MPO.max_range not found')
    ok = not used or any(any(k in unparse(st.value) for k in used) for st in stores)
    rep.instance('RANGE-all-term-kinds', {'stores': [key_text(s)[:50] for s in stores],
                                          'exp_decaying_in_graph': bool(used), 'accounted': ok})
    if not ok:
        rep.violation('RANGE-all-term-kinds', m, 'CouplingModel.calc_H_MPO', 'range-ignores:' + used[0],
                      'the MPO is built from the exponentially decaying terms `%s` as well, but '
                      'H_MPO.max_range is stated from %s only: a model with such terms claims a '
                      'finite (even zero) range instead of np.inf' %
                      (used[0], [unparse(s.value) for s in stores]), stores[0].lineno)
    return 1
