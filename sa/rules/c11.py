"""C11 — MPO algebra: every MPO method that interprets the W tensors as an operator handles the
explicit_plus_hc flag (R-HCFLAG, exhaustiveness), derived MPOs carry it on, identity-index /
leg-label pairing, truncation-error flow of the apply methods. Values and the scaling of
propagator errors are not decided."""
import ast

from ..core import (AnalysisError, body_nodes, call_name, dotted, is_self_attr, key_text, kwarg,
                    names_in, params, parent, self_method_calls, stmts_of, unparse)
from ..dtable import UNKNOWN, run_paths
from ..dtable import _val as dval
from ..normal import inline_temps
from ..pattern import P, find, guards_of, pmatch
from ..flow import check_errflow

MPO = 'tenpy/networks/mpo.py'
MC = 'tenpy/algorithms/mps_common.py'

# methods that touch W only structurally (no operator semantics): reason each
STRUCTURE_ONLY = {
    '__init__': 'stores the tensors and the flag',
    '_make_graph': 'graph of non-zero blocks', '_order_graph': 'graph of non-zero blocks',
    'test_sanity': 'shape/charge checks', 'chi': 'bond dimensions', 'get_W': 'accessor',
    'set_W': 'accessor', 'enlarge_mps_unit_cell': 'in place on self: flag unchanged',
    'group_sites': 'in place on self: flag unchanged',
    'sort_legcharges': 'in place on self: flag unchanged',
    '_get_block_projections': 'helper of __add__ (which checks the flags)',
    'to_TermList': 'documented as a debugging aid listing the terms stored in W',
    'prefactor': 'documented as the prefactor of a stored term (debugging aid)',
    'copy': 'copy.copy keeps all attributes',
    'save_hdf5': 'writes the flag', 'from_hdf5': 'reads the flag',
}


def check_hcflag_mpo(prog, rep):
    m = prog.module(MPO)
    rep.unit(m)
    cls = m.cls('MPO')
    meths = {f.name: f for f in cls.body if isinstance(f, ast.FunctionDef)}

    def uses_W(f):
        s = unparse(f)
        return 'self._W' in s or 'self.get_W(' in s

    def direct(f):
        s = unparse(f)
        return 'explicit_plus_hc' in s or 'MPOEnvironment(' in s or 'MPOTransferMatrix(' in s

    handles = {n for n, f in meths.items() if direct(f)}
    changed = True
    while changed:
        changed = False
        for n, f in meths.items():
            if n in handles:
                continue
            for k, nm, c in self_method_calls(f):
                if nm in handles:
                    handles.add(n)
                    changed = True
                    break
    n_chk = 0
    for n, f in meths.items():
        if not uses_W(f):
            continue
        n_chk += 1
        rep.instance('HCFLAG-mpo', {'method': 'MPO.' + n, 'handles': n in handles,
                                    'structure_only': STRUCTURE_ONLY.get(n)})
        if n in handles or n in STRUCTURE_ONLY:
            continue
        if n.startswith('_') and not n.startswith('__'):
            # a private helper is a part of the methods that call it: decided with its callers
            callers = [c_ for c_, g in meths.items() if c_ != n and any(
                nm == n for _, nm, _c in self_method_calls(g))]
            if callers and all(c_ in handles or c_ in STRUCTURE_ONLY for c_ in callers):
                continue
        rep.violation('HCFLAG-mpo', m, 'MPO.' + n, 'flag-ignored:' + n,
                      'MPO.%s works with the W tensors as an operator but neither consults '
                      '`explicit_plus_hc` nor delegates to a method that does: for an MPO that '
                      'keeps the Hermitian conjugate implicit it silently works with half of the '
                      'operator' % n, f.lineno)
    # derived MPOs carry the flag
    for n in ('extract_segment', '__add__'):
        f = meths[n]
        rep.instance('HCFLAG-derived', {'method': 'MPO.' + n})
        mk = [c for c in body_nodes(f) if isinstance(c, ast.Call) and call_name(c) in (
            'MPO', 'from_grids', '__class__') or (isinstance(c, ast.Call) and
                                                  unparse(c.func) in ('self.__class__', 'cls'))]
        if not any('self.explicit_plus_hc' in unparse(c) for c in mk):
            rep.violation('HCFLAG-derived', m, 'MPO.' + n, 'flag-not-forwarded:' + n,
                          'the MPO built by %s does not inherit explicit_plus_hc' % n, f.lineno)
    f = meths['__add__']
    rep.instance('HCFLAG-derived', {'method': 'MPO.__add__', 'check': 'equal flags'})
    cmp_ok = False
    for r in ast.walk(f):
        if isinstance(r, ast.Raise):
            g_ = {(t, pol) for t, pol, _ in guards_of(f, r)}
            if ('self.explicit_plus_hc == other.explicit_plus_hc', False) in g_ or \
                    ('other.explicit_plus_hc == self.explicit_plus_hc', False) in g_:
                cmp_ok = True
    if not cmp_ok:
        rep.violation('HCFLAG-derived', m, 'MPO.__add__', 'flags-not-compared',
                      'adding an MPO with implicit h.c. to one without must be rejected', f.lineno)
    # dagger: with the flag H = W + W^dagger is its own adjoint
    f = meths['dagger']
    rep.instance('HCFLAG-derived', {'method': 'MPO.dagger'})
    ok = any(isinstance(s, ast.If) and 'explicit_plus_hc' in unparse(s.test) and any(
        isinstance(b, ast.Return) and 'copy' in unparse(b) for b in s.body) for s in ast.walk(f))
    if not ok:
        rep.violation('HCFLAG-derived', m, 'MPO.dagger', 'dagger-flag',
                      'with explicit_plus_hc the operator is Hermitian by construction: dagger() '
                      'returns a copy', f.lineno)
    # propagators refuse the flag
    for n in ('make_U_I', 'make_U_II'):
        f = meths[n]
        rep.instance('HCFLAG-derived', {'method': 'MPO.' + n})
        ok = any(isinstance(s, ast.If) and 'explicit_plus_hc' in unparse(s.test) and any(
            isinstance(b, ast.Raise) for b in s.body) for s in ast.walk(f))
        if not ok:
            rep.violation('HCFLAG-derived', m, 'MPO.' + n, 'propagator-flag',
                          'exp(tH) cannot be built from half of H: must raise for explicit_plus_hc',
                          f.lineno)
    return n_chk


def check_id_pairing(prog, rep):
    m = prog.module(MPO)
    n = 0
    for q, f in m.functions.items():
        if not q.startswith('MPO.'):
            continue
        defs = {}
        for st in stmts_of(f):
            if isinstance(st, ast.Assign) and isinstance(st.targets[0], ast.Name) and isinstance(
                    st.value, ast.Call) and is_self_attr(st.value.func) and \
                    st.value.func.attr in ('get_IdL', 'get_IdR'):
                defs[st.targets[0].id] = st.value.func.attr
        for c in body_nodes(f):
            if isinstance(c, ast.Call) and call_name(c) == 'take_slice' and len(c.args) == 2:
                idx, lab = c.args
                sides = set()
                for x in ast.walk(idx):
                    if isinstance(x, ast.Call) and is_self_attr(x.func) and x.func.attr in (
                            'get_IdL', 'get_IdR'):
                        sides.add(x.func.attr)
                    if isinstance(x, ast.Name) and x.id in defs:
                        sides.add(defs[x.id])
                labs = [e.value for e in ast.walk(lab) if isinstance(e, ast.Constant) and
                        isinstance(e.value, str)]
                if not sides or not labs:
                    continue
                n += 1
                rep.instance('ID-pairing', {'function': q, 'call': unparse(c)[:70]})
                for s in sides:
                    want = 'wL' if s == 'get_IdL' else 'wR'
                    if not all(l.startswith(want) for l in labs):
                        rep.violation('ID-pairing', m, q, 'id-label:' + unparse(c)[:40],
                                      '`%s` slices leg(s) %s with the index from %s: the left '
                                      'identity index belongs to leg wL, the right one to wR' %
                                      (unparse(c)[:70], labs, s), c.lineno)
    # accessors: IdL of site i is entry i, IdR of site i is entry i+1
    f = m.func('MPO.get_IdL')
    g = m.func('MPO.get_IdR')
    rep.instance('ID-pairing', {'function': 'get_IdL/get_IdR'})
    fi, gi = inline_temps(f), inline_temps(g)
    pl, pr = params(f)[1], params(g)[1]
    okl = any(isinstance(r, ast.Return) and pmatch(
        'self.IdL[self._to_valid_site_index(%s)]' % pl, r.value) for r in ast.walk(fi))
    okr = any(isinstance(r, ast.Return) and (pmatch(
        'self.IdR[self._to_valid_site_index(%s) + 1]' % pr, r.value)) for r in ast.walk(gi))
    if not (okl and okr):
        rep.violation('ID-pairing', m, 'MPO.get_IdR', 'accessor-offset',
                      'IdL[i] lives on the bond left of site i, IdR[i+1] on the bond right of it',
                      g.lineno)
    return n


def _bound_arg(call, pnames, name, env):
    """the actual argument bound to parameter `name` of a constructor call"""
    for k in call.keywords:
        if k.arg == name:
            return k.value
    pn = [x for x in pnames if x not in ('self', 'cls')]
    if name in pn and pn.index(name) < len(call.args):
        return call.args[pn.index(name)]
    return None


def check_derived_range(prog, rep):
    """max_range of a derived MPO: unknown (None) as soon as one of the summands has unknown
    range, else the larger one — decided as a table over (known / unknown) x (known / unknown).
    to_TermList / is_equal / is_hermitian truncate at max_range, so a too small value silently
    drops terms."""
    m = prog.module(MPO)
    f = m.func('MPO.__add__')
    init = params(m.func('MPO.__init__'))
    body = [s for s in f.body if not (isinstance(s, ast.Expr) and isinstance(s.value, ast.Constant))]
    for a in (None, 2):
        for b in (None, 5):
            want = None if (a is None or b is None) else max(a, b)
            got = set()
            for p in run_paths(body, {'self.max_range': a, 'other.max_range': b,
                                      'self.explicit_plus_hc != other.explicit_plus_hc': False}):
                if p.outcome != 'return' or not isinstance(p.value, ast.Call):
                    continue
                arg = _bound_arg(p.value, init, 'max_range', p.env)
                v = dval(arg, {'self.max_range': a, 'other.max_range': b}, p.env) \
                    if arg is not None else None
                got.add('?' if v is UNKNOWN else v)
            rep.instance('RANGE-derived', {'self.max_range': a, 'other.max_range': b,
                                           'sum.max_range': sorted(map(str, got))})
            if '?' in got:
                continue    # not decidable from the source: no verdict
            if got != {want}:
                rep.violation('RANGE-derived', m, 'MPO.__add__', 'sum-range:%s:%s' % (a, b),
                              'max_range of self+other for ranges (%s, %s) is %s, expected %s: an '
                              'unknown range of one summand makes the range of the sum unknown; '
                              'to_TermList/is_equal/is_hermitian cut terms beyond max_range' %
                              (a, b, sorted(map(str, got)), want), f.lineno)


def check_sanitised_range(prog, rep):
    """mpo.py: once a function has made a sanitised copy of `X.max_range` (a local assigned from
    it and re-assigned under a None / inf test), the raw attribute is not read again: the raw
    value may be None or inf, which is exactly what the copy exists to avoid."""
    m = prog.module(MPO)
    n = 0
    for q, f in m.functions.items():
        sts = list(stmts_of(f))
        for st in sts:
            e = pmatch('$v = $$x.max_range', st)
            if not e:
                continue
            v, raw = e['$v'], unparse(st.value)
            san = [s2 for s2 in sts if isinstance(s2, ast.If) and s2.lineno > st.lineno and
                   v in names_in(s2.test) and ('None' in unparse(s2.test) or
                                               'inf' in unparse(s2.test)) and
                   any(isinstance(b, ast.Assign) and unparse(b.targets[0]) == v for b in s2.body)]
            if not san:
                continue
            n += 1
            rep.instance('RANGE-sanitised', {'function': q, 'raw': raw, 'sanitised': v})
            for s2 in sts:
                if s2.lineno <= san[0].lineno or isinstance(s2, (ast.If, ast.For, ast.While,
                                                                 ast.With, ast.Try)):
                    continue
                for x in ast.walk(s2):
                    if isinstance(x, ast.Attribute) and isinstance(x.ctx, ast.Load) and \
                            unparse(x) == raw:
                        rep.violation('RANGE-sanitised', m, q, 'raw-range:%s' % raw,
                                      '`%s` reads the raw `%s` although `%s` holds its sanitised '
                                      'value (None / inf replaced): for an operand of unknown or '
                                      'infinite range the expression fails or is meaningless' %
                                      (key_text(s2)[:70], raw, v), x.lineno)
    return n


def check_loop_limits(prog, rep):
    """mpo.py: the bound of an inner `range(..)` loop is a per-iteration quantity of the outer
    loop: a name that bounds an inner range must not be narrowed self-referentially
    (`v = min(v, g(i))`) in the outer loop body, or the limit computed for one outer iteration is
    inherited by all later ones (to_TermList: terms of later start sites are cut short)."""
    m = prog.module(MPO)
    n = 0
    for q, f in m.functions.items():
        for outer in ast.walk(f):
            if not isinstance(outer, ast.For):
                continue
            otg = {x.id for x in ast.walk(outer.target) if isinstance(x, ast.Name)}
            for inner in ast.walk(outer):
                if inner is outer or not isinstance(inner, ast.For) or not (
                        isinstance(inner.iter, ast.Call) and call_name(inner.iter) == 'range'):
                    continue
                bounds = set()
                for a in inner.iter.args:
                    bounds |= names_in(a)
                for st in ast.walk(outer):
                    if isinstance(st, ast.Assign) and len(st.targets) == 1 and \
                            isinstance(st.targets[0], ast.Name) and st.targets[0].id in bounds \
                            and st.lineno < inner.lineno:
                        v = st.targets[0].id
                        n += 1
                        carried = v in names_in(st.value) and bool(names_in(st.value) & otg)
                        rep.instance('RANGE-loop-carried', {'function': q, 'bound': v,
                                                            'assignment': key_text(st)[:60],
                                                            'self_referential': carried})
                        if carried:
                            rep.violation('RANGE-loop-carried', m, q, 'carried:%s' % v,
                                          '`%s` inside `for %s in %s` narrows `%s` using its own '
                                          'previous value and the loop variable; `%s` bounds the '
                                          'inner loop `for %s in %s`, so the limit of one '
                                          'iteration is inherited by all later ones' %
                                          (key_text(st)[:60], unparse(outer.target),
                                           unparse(outer.iter)[:30], v, v,
                                           unparse(inner.target), unparse(inner.iter)[:40]),
                                          st.lineno)
    return n


def check_id_normalised(prog, rep):
    """mpo.py: the right identity index is stored as a (possibly negative) python index --
    MPO.__add__ stores -1. Wherever it is compared for equality with positions (np.nonzero
    results, permutation entries) or ordered against another index (`IdL > IdR`) it must first be
    reduced modulo the bond dimension."""
    from ..cfg import CFG
    m = prog.module(MPO)
    n = 0
    for q, f in m.functions.items():
        if not q.startswith('MPO.'):
            continue
        ids = {}
        for st in stmts_of(f):
            e = pmatch('$v = self.get_IdR($$j)', st) or pmatch('$v = self.IdR[$$j]', st)
            if e:
                ids[e['$v']] = st
        if not ids:
            continue
        cfg = None
        for c in body_nodes(f):
            if isinstance(c, ast.Compare) and len(c.ops) == 1 and isinstance(
                    c.ops[0], (ast.Eq, ast.Gt, ast.Lt, ast.GtE, ast.LtE)):
                for side in (c.left, c.comparators[0]):
                    if isinstance(side, ast.Name) and side.id in ids:
                        other = c.comparators[0] if side is c.left else c.left
                        if isinstance(other, ast.Constant):
                            continue
                        n += 1
                        st = c
                        while not isinstance(st, ast.stmt):
                            st = parent(st)
                        cfg = cfg or CFG(f)
                        v = side.id

                        def normalised(nd, v=v):
                            s2 = nd.stmt
                            return isinstance(s2, ast.Assign) and unparse(s2.targets[0]) == v and (
                                bool(pmatch('%s %% $$n' % v, s2.value)) or
                                bool(pmatch('$$n + %s' % v, s2.value)))

                        ok = cfg.dominators_like_before(st, lambda nd: normalised(nd) or (
                            isinstance(nd.stmt, ast.If) and any(
                                normalised(type('N', (), {'stmt': b})()) for b in
                                ast.walk(nd.stmt) if isinstance(b, ast.Assign))))
                        rep.instance('ID-normalised', {'function': q, 'compare': unparse(c),
                                                       'normalised': ok})
                        if not ok:
                            rep.violation('ID-normalised', m, q, 'raw-id-compare:' + v,
                                          '`%s` compares the stored right identity index with '
                                          'positions without reducing it modulo the bond '
                                          'dimension: for MPOs produced by `+` (IdR = -1) it '
                                          'never matches' % unparse(c), c.lineno)
    return n


def check_apply_errflow(prog, rep):
    m = prog.module(MPO)
    prod = {'svd_theta': 3, 'compress_svd': None, 'compress': None, 'run': None,
            'apply_naively': None, 'apply_zipup': None}
    for qn, p in (('MPO.apply', ['apply_zipup', 'run', 'compress_svd']),
                  ('MPO.apply_naively', ['compress_svd', 'compress']),
                  ('MPO.apply_zipup', ['svd_theta', 'compress_svd', 'compress'])):
        f = m.func(qn)
        check_errflow(f, {k: prod[k] for k in p}, qn, m, rep, 'MPO-errflow')
    # apply(): every documented compression method is dispatched
    f = m.func('MPO.apply')
    rep.instance('MPO-apply-dispatch', {})
    src = unparse(f)
    for meth, call in (("'SVD'", 'apply_naively'), ("'zip_up'", 'apply_zipup'),
                       ("'variational'", 'VariationalApplyMPO')):
        if meth not in src or call not in src:
            rep.violation('MPO-apply-dispatch', m, 'MPO.apply', 'dispatch:' + call,
                          'compression method %s must dispatch to %s' % (meth, call), f.lineno)


def run(prog, rep, tier):
    rep.rule('HCFLAG-mpo', 'exhaustiveness over the methods of MPO: a method using the W tensors '
             'mentions explicit_plus_hc, builds an MPOEnvironment/MPOTransferMatrix (which handle '
             'it), delegates to such a method, or is in the table of structure-only methods')
    rep.rule('HCFLAG-derived', 'derived MPOs inherit the flag; __add__ compares flags; dagger and '
             'the propagators treat it explicitly')
    rep.rule('ID-pairing', 'identity indices from get_IdL slice wL legs, from get_IdR wR legs')
    rep.rule('RANGE-loop-carried / ID-normalised', 'inner range bounds are not narrowed across '
             'outer iterations; stored identity indices are reduced modulo the bond dimension '
             'before equality tests with positions')
    rep.rule('RANGE-sanitised', 'no raw read of X.max_range after a sanitised local copy exists')
    rep.rule('RANGE-derived', 'decision table of max_range of a sum over known/unknown ranges')
    rep.rule('MPO-errflow', 'truncation errors of the apply methods reach the returned value')
    n1 = check_hcflag_mpo(prog, rep)
    n2 = check_id_pairing(prog, rep)
    check_apply_errflow(prog, rep)
    check_derived_range(prog, rep)
    if check_loop_limits(prog, rep) < 1 or check_id_normalised(prog, rep) < 2:
        raise AnalysisError('RANGE-loop-carried / ID-normalised: anchors in mpo.py not found')
    if check_sanitised_range(prog, rep) < 2:
        raise AnalysisError('RANGE-sanitised: the sanitised ranges of MPO.overlap were not found')
    rep.rule('WEIGHT-path', 'plus_identity: exponents of beta**(1/N) along every path through '
             'the blocks of W add up to N (polynomial identities); identity chains carry beta '
             'once')
    check_plus_identity(prog, rep)
    rep.floor('WEIGHT-path', 8)
    rep.floor('RANGE-derived', 4)
    rep.floor('HCFLAG-mpo', 20)
    rep.floor('HCFLAG-derived', 5)
    rep.assumptions += ['operator values and propagator error scaling are NOT decided']
    from ..flow import check_dead_computations
    rep.rule('VALUE-dead', 'no result of a call is bound to a local that is never read (reaching '
             'definitions)')
    check_dead_computations(prog, rep, ['tenpy/networks/mpo.py'])
    from ..flow import check_undefined_attrs
    rep.rule('ATTR-defined', 'every self.X read names an attribute bound somewhere in the class family')
    check_undefined_attrs(prog, rep, ['tenpy/networks/mpo.py'])
    from ..labels import check_labels
    rep.rule('LABEL-known', 'typestate of leg-label sets: literal labels used on a local tensor '
             'whose complete label set is known (literal transposition, contractions) exist on it')
    check_labels(prog, rep, ['tenpy/networks/mpo.py'])
    from ..flow import check_carried_flags
    rep.rule('LOOP-carried-flag', 'a flag set under a test inside a loop body and read there is '
             're-initialised per iteration')
    check_carried_flags(prog, rep, ['tenpy/networks/mpo.py'])
    from ..flow import check_mixed_accumulation
    rep.rule('ACCUM-mixed', 'a container that accumulates contributions in a loop is not also '
             'overwritten there')
    check_mixed_accumulation(prog, rep, ['tenpy/networks/mpo.py'])
    rep.rule('RANGE-period-mixed', 'loop index compared against one period symbol only')
    if check_period_mixed(prog, rep) < 1:
        raise AnalysisError('RANGE-period-mixed: the common-unit-cell loop of expectation_value_power not found')
    from ..flow import check_dict_forward
    rep.rule('CALL-dict-forward', 'a dict parameter is not expanded with ** into a method that '
             'declares that parameter itself (expectation_value -> expectation_value_finite/TM)')
    check_dict_forward(prog, rep, ['tenpy/networks/mpo.py', 'tenpy/networks/mps.py',
                                   'tenpy/networks/purification_mps.py',
                                   'tenpy/networks/uniform_mps.py'])
    from ..flow import check_alias_ends
    rep.rule('ALIAS-ends', 'a value read from one end of a sequence is not used after a store to '
             'the other end (same entry for a single site)')
    check_alias_ends(prog, rep, ['tenpy/networks/mpo.py', 'tenpy/networks/mps.py',
                                 'tenpy/networks/terms.py'])
    rep.rule('MPO-apply-form', 'site tensors that go straight into a contraction are fetched with an '
             'explicit canonical form')
    if check_apply_form(prog, rep) < 8:
        raise AnalysisError('MPO-apply-form: fewer than 8 contracted get_B results in mpo.py')
    rep.rule('HCFLAG-overlap-table', 'decision table of MPO.overlap over the two explicit_plus_hc '
             'flags: the one-sided cases differ by the conjugation of the hc term')
    check_overlap_table(prog, rep)
    from ..flow import check_stale_loop_reads
    rep.rule('LOOP-stale-read', 'no per-item variable is read in a loop before the iteration assigns '
             'it when its only other bindings are inside other loops')
    check_stale_loop_reads(prog, rep, ['tenpy/networks/mpo.py'])
    rep.rule('PERM-both-legs', 'from_Wflat permutes both physical legs of the W tensors')
    check_perm_both_legs(prog, rep)
    from ..flow import check_group_stride
    rep.rule('GROUP-stride', 'loops over grouped sites advance by the size of the group, never by the '
             'nominal n')
    if check_group_stride(prog, rep, ['tenpy/networks/mpo.py']) < 1:
        raise AnalysisError('GROUP-stride: loop over grouped_sites not found')
    return rep.finish(
        level='other',
        explanation='Flag exhaustiveness over %d W-using MPO methods, flag forwarding of derived '
        'MPOs, identity-index/leg pairing at %d slicing sites and error flow of the apply '
        'methods.' % (n1, n2))


# ------------------------------------------------------------------ plus_identity: path weights
def _partition_roles(m):
    """roles of the values returned by _partition_W, read from its projections:
    position in the returned tuple -> 'A' (middle,middle) 'B' (middle,end) 'C' (start,middle)
    'D' (start,end)"""
    f = m.functions.get('_partition_W')
    if f is None:
        raise AnalysisError('_partition_W not found in mpo.py')
    pn = [a.arg for a in f.args.args]
    startL, endR = pn[1], pn[4]
    role = {}
    for c in ast.walk(f):
        if isinstance(c, ast.Call) and isinstance(c.func, ast.Attribute) and \
                c.func.attr == 'iproject' and isinstance(c.func.value, ast.Name) and c.args and \
                isinstance(c.args[0], ast.List) and len(c.args[0].elts) == 2:
            r, cc = [unparse(e) for e in c.args[0].elts]
            role[c.func.value.id] = {(True, False): 'C', (False, True): 'B', (False, False): 'A',
                                     (True, True): 'D'}[(r == startL, cc == endR)]
    ret = [r for r in ast.walk(f) if isinstance(r, ast.Return) and isinstance(r.value, ast.Tuple)]
    if len(ret) != 1 or len(role) != 4:
        raise AnalysisError('_partition_W: cannot read the block roles')
    return [role.get(unparse(e)) for e in ret[0].value.elts]


def _factors(e):
    if isinstance(e, ast.BinOp) and isinstance(e.op, ast.Mult):
        return _factors(e.left) + _factors(e.right)
    return [e]


def _terms(e):
    if isinstance(e, ast.BinOp) and isinstance(e.op, ast.Add):
        return _terms(e.left) + _terms(e.right)
    return [e]


def check_plus_identity(prog, rep):
    """WEIGHT-path: alpha*1 + beta*H spreads beta as t_beta = beta**(1/N) over the N chosen sites.
    Every term of H runs through one start block (C), middle blocks (A) and one end block (B), or
    is on-site (D); the exponents of t_beta collected along every such path must add up to N, for
    every position of the term relative to the chosen sites (exact polynomial identities in the
    positions m < n), and the two identity chains carry the remaining beta exactly once."""
    from ..linform import NotPoly, Poly, eval_poly
    m = prog.module(MPO)
    f = m.functions.get('MPO.plus_identity')
    if f is None:
        raise AnalysisError('MPO.plus_identity not found')
    rep.unit(m)
    roles = _partition_roles(m)
    blocks = {}
    ident = None
    grid = None
    for st in stmts_of(f):
        if isinstance(st, ast.Assign) and isinstance(st.value, ast.Call):
            if call_name(st.value) == '_partition_W' and isinstance(st.targets[0], ast.Tuple):
                for t, r in zip(st.targets[0].elts, roles):
                    blocks[t.id] = r
            elif call_name(st.value) in ('eye_like', 'npc.eye_like') and \
                    isinstance(st.targets[0], ast.Name):
                ident = st.targets[0].id
            elif call_name(st.value) in ('np.empty', 'empty') and isinstance(st.targets[0],
                                                                             ast.Name):
                grid = st.targets[0].id
    # the branch `if k in sites:` names the per-site factors
    br = [s for s in ast.walk(f) if isinstance(s, ast.If) and isinstance(s.test, ast.Compare) and
          isinstance(s.test.ops[0], (ast.In, ast.NotIn)) and
          unparse(s.test.comparators[0]) == 'sites']
    if len(blocks) != 4 or ident is None or grid is None or len(br) != 1:
        raise AnalysisError('MPO.plus_identity: blocks / identity / grid / site branch not found')
    br = br[0]
    in_body, out_body = (br.body, br.orelse) if isinstance(br.test.ops[0], ast.In) else \
        (br.orelse, br.body)
    inside, outside = {}, {}
    incr = None
    for blk, dst in ((in_body, inside), (out_body, outside)):
        for st in blk:
            if isinstance(st, ast.Assign):
                for t in st.targets:
                    if isinstance(t, ast.Name):
                        dst[t.id] = st.value
                        if t.id == 'counter':
                            incr = st
            elif isinstance(st, ast.AugAssign) and isinstance(st.target, ast.Name) and \
                    st.target.id == 'counter':
                incr = st
    defs = {}
    for st in stmts_of(f):
        if isinstance(st, ast.Assign) and len(st.targets) == 1 and isinstance(st.targets[0],
                                                                                 ast.Name):
            defs.setdefault(st.targets[0].id, []).append(st.value)
    root = [n for n, v in defs.items() if len(v) == 1 and pmatch(P('beta ** (1 / N)'), v[0])]
    share = [n for n, v in defs.items() if len(v) == 1 and pmatch(P('alpha / N'), v[0])]
    base = [n for n, v in inside.items() if isinstance(v, ast.Name) and v.id in root]
    onsite = [n for n, v in inside.items() if isinstance(v, ast.Name) and v.id in share]
    rep.instance('WEIGHT-path', {'function': 'MPO.plus_identity', 'what': 'factors',
                                 'root': root, 'share': share, 'base': base, 'onsite': onsite})
    if len(root) != 1 or len(share) != 1 or len(base) != 1 or len(onsite) != 1 or incr is None:
        rep.violation('WEIGHT-path', m, 'MPO.plus_identity', 'factors',
                      'on the chosen sites the per-site factor must be beta**(1/N) and the '
                      'per-site share of the identity alpha/N (found %s / %s)' % (base, onsite),
                      br.lineno)
        return 1
    b, a = base[0], onsite[0]
    for n in (b, a):
        v = outside.get(n)
        want = 1 if n == b else 0
        if v is None or not isinstance(v, ast.Constant) or v.value != want:
            # chained assignment b = g = d = 1.0 is an Assign with several targets: handled above
            rep.violation('WEIGHT-path', m, 'MPO.plus_identity', 'outside:' + n,
                          'on sites outside `sites` the factor `%s` must be %d' % (n, want),
                          br.lineno)
    # ---- exponents of b in the stores of the grid
    expo = {}
    chain = {}
    for st in stmts_of(f):
        if not (isinstance(st, ast.Assign) and isinstance(st.targets[0], ast.Subscript) and
                isinstance(st.targets[0].value, ast.Name) and st.targets[0].value.id == grid):
            continue
        post = (incr.lineno < st.lineno)
        for term in _terms(st.value):
            fs = _factors(term)
            blk = [x for x in fs for n in ast.walk(x) if isinstance(n, ast.Name) and
                   (n.id in blocks or n.id == ident)]
            if len(blk) != 1:
                raise AnalysisError('MPO.plus_identity: cannot read `%s`' % key_text(st))
            name = [n.id for n in ast.walk(blk[0]) if isinstance(n, ast.Name) and
                    (n.id in blocks or n.id == ident)][0]
            e = Poly.const(0)
            others = []
            for x in fs:
                if x is blk[0]:
                    continue
                if isinstance(x, ast.Name) and x.id == b:
                    e = e + Poly.const(1)
                elif isinstance(x, ast.BinOp) and isinstance(x.op, ast.Pow) and isinstance(
                        x.left, ast.Name) and x.left.id == b:
                    try:
                        e = e + eval_poly(x.right, {})
                    except NotPoly:
                        raise AnalysisError('MPO.plus_identity: exponent `%s`' % unparse(x.right))
                else:
                    others.append(unparse(x))
            if name == ident:
                idx = unparse(st.targets[0].slice)
                chain[idx] = (others, e, st)
            else:
                expo.setdefault(blocks[name], []).append((e, others, st, post))
    for r in 'ABCD':
        if len(expo.get(r, [])) != 1:
            raise AnalysisError('MPO.plus_identity: expected one store of block %s' % r)
    N = Poly.sym('N')
    mm, nn = Poly.sym('m'), Poly.sym('n')

    def at(r, pos):
        e, _, _, post = expo[r][0]
        c = pos if post else pos - Poly.const(1)
        out = Poly.const(0)
        for mono, co in e.t.items():
            t = Poly({(): co})
            for s in mono:
                t = t * (c if s == 'counter' else Poly.sym(s))
            out = out + t
        return out
    one = Poly.const(1)
    eA = at('A', mm)
    cases = [
        ('on-site term on a chosen site', at('D', mm)),
        ('term from chosen site m to chosen site n', at('C', mm) + (nn - mm - one) * eA +
         at('B', nn)),
        ('term starting before and ending on chosen site n', (nn - one) * eA + at('B', nn)),
        ('term starting on chosen site m and ending after the chosen sites',
         at('C', mm) + (N - mm) * eA),
        ('term passing over all chosen sites', N * eA),
    ]
    for what, total in cases:
        rep.instance('WEIGHT-path', {'function': 'MPO.plus_identity', 'what': what,
                                     'exponent': repr(total)})
        if not (total - N).is_zero():
            rep.violation('WEIGHT-path', m, 'MPO.plus_identity', 'exponent:' + what,
                          '%s: the factors beta**(1/N) collected along the path give the '
                          'exponent %r instead of N (C: %r, A: %r per site, B: %r, D: %r): the '
                          'result is not alpha*1 + beta*H' %
                          (what, total, expo['C'][0][0], expo['A'][0][0], expo['B'][0][0],
                           expo['D'][0][0]), expo['A'][0][2].lineno)
    for r in 'ABC':
        if expo[r][0][1]:
            rep.violation('WEIGHT-path', m, 'MPO.plus_identity', 'extra-factor:' + r,
                          'block %s carries the additional factor %s' % (r, expo[r][0][1]),
                          expo[r][0][2].lineno)
    # ---- on-site share of alpha: the D entry adds `a * 1` exactly once
    dst = expo['D'][0][2]
    shares = [t for t in _terms(dst.value) if any(isinstance(n, ast.Name) and n.id == ident
                                                   for n in ast.walk(t))]
    ok = len(shares) == 1 and sorted(unparse(x) for x in _factors(shares[0])) == sorted([a, ident])
    rep.instance('WEIGHT-path', {'function': 'MPO.plus_identity', 'what': 'identity share',
                                 'ok': ok})
    if not ok:
        rep.violation('WEIGHT-path', m, 'MPO.plus_identity', 'identity-share',
                      'the on-site entry must add `%s * %s` (alpha/N on each of the N chosen '
                      'sites) exactly once' % (a, ident), dst.lineno)
    # ---- identity chains: beta once, at the first chosen site on the chain of finished terms
    # (lower right), at the last chosen site on the chain of not yet started terms (upper left)
    def when_beta(name):
        v = inside.get(name)
        if not isinstance(v, ast.IfExp) or not isinstance(v.test, ast.Compare) or \
                unparse(v.test.left) != 'counter':
            return None
        op = v.test.ops[0]
        k = unparse(v.test.comparators[0])
        yes, no = (v.body, v.orelse) if isinstance(op, ast.Eq) else (v.orelse, v.body)
        if not isinstance(op, (ast.Eq, ast.NotEq)):
            return None
        if unparse(yes) == 'beta' and isinstance(no, ast.Constant) and no.value == 1:
            st = [s for s in in_body if isinstance(s, ast.Assign) and s.value is v][0]
            try:
                kp = eval_poly(ast.parse(k, mode='eval').body, {})
            except NotPoly:
                return None
            return kp + one if st.lineno > incr.lineno else kp
        return None
    want = {'(0, 0)': ('upper left (terms not yet started)', N - one, 'last'),
            '(-1, -1)': ('lower right (terms already finished)', Poly.const(0), 'first')}
    for idx, (what, k, which) in want.items():
        if idx not in chain:
            raise AnalysisError('MPO.plus_identity: identity entry %s not found' % idx)
        others, e, st = chain[idx]
        got = when_beta(others[0]) if len(others) == 1 else None
        rep.instance('WEIGHT-path', {'function': 'MPO.plus_identity', 'what': 'chain ' + idx,
                                     'factor': others, 'beta_when_counter': repr(got)})
        if got is None or not (got - k).is_zero() or not e.is_zero():
            rep.violation('WEIGHT-path', m, 'MPO.plus_identity', 'chain:' + idx,
                          'the identity entry %s must carry beta exactly on the %s chosen site '
                          '(counter == %r before the increment) and 1 elsewhere: found factor '
                          '%s, beta when counter == %r' % (what, which, k, others, got),
                          st.lineno)
    return 1


def check_period_mixed(prog, rep):
    """RANGE-period-mixed: a function that defines a local period `L = lcm(self.L, psi.L)` (common
    unit cell) compares its running site index against THAT period; an ordering comparison of the
    same loop index against the raw `self.L` next to one against the local `L` stops / starts the
    evaluation after the MPO unit cell instead of the common one. (`i % self.L` to address a tensor
    of the unit cell is a different use and is fine.)"""
    m = prog.module(MPO)
    n = 0
    for q, f in m.functions.items():
        shadow = {}
        for st in stmts_of(f):
            if isinstance(st, ast.Assign) and len(st.targets) == 1 and isinstance(
                    st.targets[0], ast.Name):
                nm = st.targets[0].id
                if any(is_self_attr(x, nm) for x in ast.walk(st.value)) and not is_self_attr(
                        st.value, nm):
                    shadow[nm] = st
        if not shadow:
            continue
        for lp in ast.walk(f):
            if not (isinstance(lp, ast.For) and isinstance(lp.target, ast.Name)):
                continue
            v = lp.target.id
            uses = {}
            for c in ast.walk(lp):
                if isinstance(c, ast.Compare) and len(c.ops) == 1 and isinstance(
                        c.ops[0], (ast.Lt, ast.LtE, ast.Gt, ast.GtE)):
                    sides = [c.left, c.comparators[0]]
                    if not any(isinstance(s_, ast.Name) and s_.id == v for s_ in sides):
                        continue
                    other = sides[1] if isinstance(sides[0], ast.Name) and sides[0].id == v \
                        else sides[0]
                    for nm in shadow:
                        if any(is_self_attr(x, nm) for x in ast.walk(other)):
                            uses.setdefault(nm, {}).setdefault('raw', []).append(c)
                        if any(isinstance(x, ast.Name) and x.id == nm for x in ast.walk(other)):
                            uses.setdefault(nm, {}).setdefault('local', []).append(c)
            for nm, u in uses.items():
                n += 1
                rep.instance('RANGE-period-mixed', {'function': q, 'period': nm,
                                                    'local': [unparse(c) for c in u.get('local', [])],
                                                    'raw': [unparse(c) for c in u.get('raw', [])]})
                if u.get('raw') and u.get('local'):
                    c = u['raw'][0]
                    rep.violation('RANGE-period-mixed', m, q, 'raw-period:' + unparse(c)[:40],
                                  '`%s` compares the running index with the raw `self.%s`, while '
                                  '`%s` in the same loop uses the local `%s = %s`: the two '
                                  'periods differ when the MPS unit cell is longer than that of '
                                  'the MPO' % (unparse(c), nm, unparse(u['local'][0]), nm,
                                               unparse(shadow[nm].value)[:40]), c.lineno)
    return n


# ------------------------------------------------------------------ MPO-apply-form
def check_apply_form(prog, rep):
    """MPO-apply-form: the MPO application / environment code contracts site tensors of a state
    assuming a definite canonical form (the singular values sit where that form puts them). A
    tensor fetched with `get_B(i, form=None)` is whatever is stored ('A' on one site, 'B' on the
    next after a variational compression): contracting it drops the Schmidt values between the two
    parts. Every get_B call whose result goes straight into a contraction therefore requests an
    explicit form (argument resolved against the signature of MPS.get_B)."""
    from ..core import bound_args
    ct = prog.classtable()
    getB = ct.get('MPS').methods['get_B']
    m = prog.module('tenpy/networks/mpo.py')
    n = 0
    for q, f in m.functions.items():
        for c in ast.walk(f):
            if not (isinstance(c, ast.Call) and (call_name(c) or '').endswith('tensordot')):
                continue
            for a in c.args[:2]:
                inner = a
                while isinstance(inner, ast.Call) and isinstance(inner.func, ast.Attribute) and \
                        inner.func.attr in ('conj', 'astype', 'copy'):
                    inner = inner.func.value
                if not (isinstance(inner, ast.Call) and isinstance(inner.func, ast.Attribute) and
                        inner.func.attr == 'get_B'):
                    continue
                n += 1
                form = bound_args(inner, getB).get('form')
                bad = isinstance(form, ast.Constant) and form.value is None
                rep.instance('MPO-apply-form', {'function': q, 'call': unparse(inner)[:50],
                                                'explicit_form': not bad})
                if bad:
                    rep.violation('MPO-apply-form', m, q, 'contracts-stored-form',
                                  '`%s` is contracted as it is stored (form=None): for a state in '
                                  'mixed canonical form the singular values between the A and the B '
                                  'part are lost, the operator is applied to another state'
                                  % unparse(inner)[:50], inner.lineno)
    return n


# ------------------------------------------------------------------ HCFLAG-overlap-table
def check_overlap_table(prog, rep):
    """HCFLAG-overlap-table: decision table of MPO.overlap over (self.explicit_plus_hc,
    other.explicit_plus_hc). <A + hc(A)|B> = <A|B> + <hc(A)|B>, but <A|B + hc(B)> = <A|B> +
    conj(<hc(A)|B>) (the overlap is anti-linear in its first argument): the case "only `other`
    carries the flag" must conjugate the hc term, the case "only `self`" must not, so the two cases
    cannot share one expression."""
    m = prog.module('tenpy/networks/mpo.py')
    f = m.func('MPO.overlap')
    chain = None
    for st in f.body:
        if isinstance(st, ast.If) and 'explicit_plus_hc' in unparse(st.test):
            chain = st
    if chain is None:
        raise AnalysisError('MPO.overlap: if-chain over explicit_plus_hc not found')

    def ev(e, env):
        if isinstance(e, ast.BoolOp):
            vals = [ev(v, env) for v in e.values]
            return all(vals) if isinstance(e.op, ast.And) else any(vals)
        if isinstance(e, ast.UnaryOp) and isinstance(e.op, ast.Not):
            return not ev(e.operand, env)
        t = unparse(e)
        if t in env:
            return env[t]
        raise AnalysisError('MPO.overlap: condition `%s` not over the two flags' % t)

    def pick(env):
        st = chain
        while True:
            if ev(st.test, env):
                body = st.body
                break
            if len(st.orelse) == 1 and isinstance(st.orelse[0], ast.If):
                st = st.orelse[0]
                continue
            body = st.orelse
            break
        exprs = [unparse(a.value) for a in body if isinstance(a, ast.Assign) and
                 unparse(a.targets[0]) == 'ov']
        return exprs[-1] if exprs else None
    table = {}
    for s_ in (True, False):
        for o_ in (True, False):
            table[(s_, o_)] = pick({'self.explicit_plus_hc': s_, 'other.explicit_plus_hc': o_})
    rep.instance('HCFLAG-overlap-table', {'(self,other)->ov': {str(k): v for k, v in table.items()}})
    so, os_ = table[(True, False)], table[(False, True)]
    if so is None or os_ is None or so == os_ or ('conj' in (so or '')) or ('conj' not in (os_ or '')):
        rep.violation('HCFLAG-overlap-table', m, 'MPO.overlap', 'one-sided-cases',
                      'only self has explicit_plus_hc: ov = `%s`; only other: ov = `%s`. The '
                      'overlap is anti-linear in self: the hc term enters unconjugated in the first '
                      'case and conjugated in the second; <A|B> == conj(<B|A>) fails otherwise'
                      % (so, os_), chain.lineno)
    return 1


# ------------------------------------------------------------------ PERM-both-legs
def check_perm_both_legs(prog, rep):
    """PERM-both-legs: an operator tensor has TWO physical legs ('p' and 'p*'); bringing it from
    the standard local basis into the (charge-sorted) basis of the site permutes both with
    `site.perm`. In MPO.from_Wflat the positions of the leading array axes that are indexed with
    `site.perm` are {0, 1} (chained subscripts or np.ix_(perm, perm))."""
    m = prog.module('tenpy/networks/mpo.py')
    f = m.func('MPO.from_Wflat')
    axes = set()
    for st in stmts_of(f):
        if not (isinstance(st, ast.Assign) and 'site.perm' in unparse(st.value)):
            continue
        e = st.value
        # unwind chained subscripts from the outside
        while isinstance(e, ast.Subscript):
            idx = e.slice.elts if isinstance(e.slice, ast.Tuple) else [e.slice]
            if len(idx) == 1 and isinstance(idx[0], ast.Call) and unparse(idx[0].func) == 'np.ix_':
                idx = idx[0].args
            for k, x in enumerate(idx):
                if unparse(x) == 'site.perm':
                    axes.add(k)
            e = e.value
    rep.instance('PERM-both-legs', {'function': 'MPO.from_Wflat', 'axes_permuted': sorted(axes)})
    if axes and axes != {0, 1}:
        rep.violation('PERM-both-legs', m, 'MPO.from_Wflat', 'one-physical-leg',
                      'the W tensors are permuted with site.perm on the axes %s only; an operator '
                      'has the two physical legs p (axis 0) and p* (axis 1): with a re-ordered '
                      'local basis the operator is put into the wrong charge sectors' % sorted(axes),
                      f.lineno)
    if not axes:
        raise AnalysisError('PERM-both-legs: permutation of the W tensors in from_Wflat not found')
    return 1
