"""C04 — compiled and pure-Python kernels: agreement of the sibling pairs bound by @use_cython on
everything visible in the shape of the code (R-PAIR), plus the staleness guard for the generated
C++. Numerical equality of BLAS-batched and numpy results is not decided."""
import ast
import os
import re

from ..core import (AnalysisError, assigned_targets, body_nodes, call_name, decorators, dotted,
                    key_text, kwarg, params, param_defaults, parent, stmts_of, unparse)
from ..normal import inline_temps
from ..pattern import guards_of
from ..own import FuncInfo, Own
from ..pyx import load_pyx

NPC = 'tenpy/linalg/np_conserved.py'
CH = 'tenpy/linalg/charges.py'
PYX = 'tenpy/linalg/_npc_helper.pyx'

POINTER_WRITERS = {'_blas_inpl_add': 1, '_blas_inpl_scale': 1, '_sliced_strided_copy': 0,
                   '_make_valid_charges_1D': 1, '_make_valid_charges_2D': 1}
CALL_FLAGS = {'itranspose': False}
CALL_EFFECTS = {
    'itranspose': ['legs', 'shape', 'rank', '_labels', '_qdata', '_qdata_sorted', '_data'],
    'iset_leg_labels': ['_labels'],
    '_set_shape': ['shape', 'rank'],
    '_set_charges': ['charges', 'block_number'],
    '_set_slices': ['slices', 'ind_len'],
    '_set_block_sizes': ['slices', 'ind_len'],
    'isort_qdata': [],  # storage order only
    '_imake_contiguous': [],  # memory layout only
    'ibinary_blockwise': ['_data', '_qdata', 'dtype'],
    'iunary_blockwise': ['_data', 'dtype'],
}
# differences confirmed by reading, one reason each: (pair, side, (root, attr))
BENIGN = {
    ('Array_iadd_prefactor_other', 'pyx', ('self', '_qdata_sorted')):
        'pyx merges the block lists itself and re-states the flag; python delegates to '
        'ibinary_blockwise which keeps the flag of the sorted self',
    ('Array_iadd_prefactor_other', 'pyx', ('self', '_qdata')): 'same merge, explicit in pyx',
    ('Array_iadd_prefactor_other', 'py', ('self', '_qdata')): 'via ibinary_blockwise',
    ('Array_iscale_prefactor', 'py', ('self', 'dtype')): 'via iunary_blockwise',
    ('Array_iscale_prefactor', 'pyx', ('self', 'dtype')): 'explicit promotion in pyx',
    ('LegPipe__init_from_legs', 'pyx', ('self', 'block_number')): 'python sets it via _set_charges',
    ('LegPipe__init_from_legs', 'pyx', ('self', 'ind_len')): 'python sets it via _set_slices',
}


def derive_pairs(prog):
    pairs = []
    for rel in (CH, NPC):
        m = prog.module(rel)
        for q, f in m.functions.items():
            for name, call in decorators(f):
                if name != 'use_cython':
                    continue
                repl = f.name
                if call is not None:
                    r = kwarg(call, 'replacement')
                    if r is not None and isinstance(r, ast.Constant):
                        repl = r.value
                pairs.append((rel, q, f, repl))
    return pairs


def effects(mod, f, depth=0, rename=None):
    """attribute stores rooted at parameters, flag constants, raised exception classes"""
    rename = rename or {}
    pm = [a.arg for a in f.args.args]
    stores = set()
    flags = []
    raises = set()
    local_alias = {}
    for st in stmts_of(f):
        if isinstance(st, ast.Assign) and len(st.targets) == 1 and isinstance(
                st.targets[0], ast.Name) and isinstance(st.value, ast.Name) and \
                st.value.id in pm:
            local_alias[st.targets[0].id] = st.value.id
    returned = set()
    for r0 in body_nodes(f):
        if isinstance(r0, ast.Return) and r0.value is not None:
            for e0 in (r0.value.elts if isinstance(r0.value, ast.Tuple) else [r0.value]):
                if isinstance(e0, ast.Name):
                    returned.add(e0.id)

    def root_of(name):
        name = local_alias.get(name, name)
        if name in pm:
            return rename.get(name, name)
        if name in returned and depth == 0:
            return name  # the object built and returned by the twin
        return None
    for st in stmts_of(f):
        for t in assigned_targets(st):
            base = t
            while isinstance(base, ast.Subscript):
                base = base.value
            if isinstance(base, ast.Attribute) and isinstance(base.value, ast.Name):
                r = root_of(base.value.id)
                if r is not None:
                    stores.add((r, base.attr))
                    if base.attr == '_qdata_sorted' and isinstance(st, ast.Assign) and \
                            isinstance(st.value, ast.Constant):
                        flags.append((r, st.value.value))
        if isinstance(st, ast.Raise) and st.exc is not None:
            e = st.exc.func if isinstance(st.exc, ast.Call) else st.exc
            raises.add(dotted(e) or unparse(e))
    for c in body_nodes(f):
        if not isinstance(c, ast.Call):
            continue
        if isinstance(c.func, ast.Attribute) and isinstance(c.func.value, ast.Name):
            r = root_of(c.func.value.id)
            if r is not None and c.func.attr in CALL_EFFECTS:
                for a in CALL_EFFECTS[c.func.attr]:
                    stores.add((r, a))
                if c.func.attr in CALL_FLAGS:
                    flags.append((r, CALL_FLAGS[c.func.attr]))
        # one level of inlining of helpers of the same module that receive a parameter
        if isinstance(c.func, ast.Name) and depth < 2 and c.func.id in mod.functions and \
                c.func.id != f.name:
            g = mod.functions[c.func.id]
            gp = [a.arg for a in g.args.args]
            ren = {}
            for i, a in enumerate(c.args):
                if isinstance(a, ast.Name) and i < len(gp):
                    r = root_of(a.id)
                    if r is not None:
                        ren[gp[i]] = r
            if ren:
                s2, f2, r2 = effects(mod, g, depth + 1, ren)
                stores |= {(r, a) for r, a in s2 if r in ren.values()}
                flags += [(r, v) for r, v in f2 if r in ren.values()]
                raises |= r2
    return stores, flags, raises


def check_pairs(prog, rep):
    pairs = derive_pairs(prog)
    pyx = load_pyx(prog)
    rep.units[PYX] = pyx.digest
    if pyx.unknown_nodes and pyx.unknown_nodes != ['ImportNode']:
        rep.note('pyx lowering: node kinds without a lowering: %s' % pyx.unknown_nodes)
    rep.extra['pairs'] = [(q, r) for _, q, _, r in pairs]
    for rel, q, f, repl in pairs:
        m = prog.module(rel)
        rep.unit(m)
        rep.instance('PAIR-exists', {'python': q, 'pyx': repl, 'found': pyx.has_func(repl)})
        if not pyx.has_func(repl):
            rep.violation('PAIR-exists', m, q, 'no-replacement:' + repl,
                          '@use_cython binds %s to `%s`, which is not defined in the .pyx: the '
                          'compiled configuration silently keeps the python version or fails at '
                          'import' % (q, repl), f.lineno)
            continue
        g = pyx.func(repl)
        # ---- signature
        norm = {'1': 'True', '0': 'False'}
        pf = [a.arg.rstrip('_') for a in f.args.args]
        pg = [a.arg.rstrip('_') for a in g.args.args]
        df = {k.rstrip('_'): norm.get(unparse(v), unparse(v))
              for k, v in param_defaults(f).items()}
        dg = {k.rstrip('_'): norm.get(unparse(v), unparse(v))
              for k, v in param_defaults(g).items()}
        rep.instance('PAIR-signature', {'pair': repl, 'python': pf, 'pyx': pg})
        if pf != pg:
            rep.violation('PAIR-signature', m, q, 'params:' + repl,
                          'parameter lists differ: python %s vs compiled %s: calls by keyword / '
                          'position behave differently in the two configurations' % (pf, pg),
                          f.lineno)
        elif df != dg:
            rep.violation('PAIR-signature', m, q, 'defaults:' + repl,
                          'default values differ: python %s vs compiled %s' % (df, dg), f.lineno)
        # ---- effects
        sf, ff, rf = effects(m, f)
        sg, fg, rg = effects(pyx, g)
        only_py = {s for s in sf - sg if (repl, 'py', s) not in BENIGN}
        only_pyx = {s for s in sg - sf if (repl, 'pyx', s) not in BENIGN}
        rep.instance('PAIR-effects', {'pair': repl, 'python': sorted(sf), 'pyx': sorted(sg)})
        for s in sorted(only_py):
            rep.violation('PAIR-effects', m, q, 'effect-only-python:%s.%s' % s,
                          'the python version of %s updates `%s.%s`, the compiled twin does not: '
                          'the two configurations leave the object in different states' %
                          (repl, s[0], s[1]), f.lineno)
        for s in sorted(only_pyx):
            rep.violation('PAIR-effects', pyx, repl, 'effect-only-pyx:%s.%s' % s,
                          'the compiled version %s updates `%s.%s`, the python twin %s does not' %
                          (repl, s[0], s[1], q), g.lineno)
        # ---- flag constants
        cf = sorted(set(ff), key=str)
        cg = sorted(set(fg), key=str)
        rep.instance('PAIR-flags', {'pair': repl, 'python': cf, 'pyx': cg})
        if (repl, 'pyx', ('self', '_qdata_sorted')) not in BENIGN and cf != cg:
            rep.violation('PAIR-flags', m, q, 'flag-constants:' + repl,
                          'the twins state different sortedness claims: python %s vs compiled %s' %
                          (cf, cg), f.lineno)
        # ---- which operand's sortedness claim is consulted (reads of P._qdata_sorted)
        def flag_reads(fn):
            out = {}
            for n in ast.walk(fn):
                if isinstance(n, ast.Attribute) and n.attr == '_qdata_sorted' and isinstance(
                        n.ctx, ast.Load) and isinstance(n.value, ast.Name):
                    out[n.value.id] = out.get(n.value.id, 0) + 1
            return out
        rf_, rg_ = flag_reads(f), flag_reads(g)
        rep.instance('PAIR-flag-reads', {'pair': repl, 'python': rf_, 'pyx': rg_})
        if set(rf_) != set(rg_):
            rep.violation('PAIR-flag-reads', m, q, 'flag-reads:' + repl,
                          'the twins consult the sortedness claim of different operands: python '
                          'reads %s, compiled reads %s: one of them sorts (or skips sorting) the '
                          'wrong block list' % (rf_, rg_), f.lineno)
        # ---- a sided block `if not P._qdata_sorted:` only re-orders P's own block list
        for fn, mod_ in ((f, m), (g, pyx)):
            for s0 in ast.walk(fn):
                if isinstance(s0, ast.If):
                    t = unparse(s0.test)
                    mm = re.fullmatch(r'not (\w+)\._qdata_sorted', t)
                    if not mm:
                        continue
                    P = mm.group(1)
                    sided = set()
                    for b0 in ast.walk(s0):
                        if isinstance(b0, ast.Name) and isinstance(b0.ctx, ast.Store):
                            m2 = re.match(r'^([ab])_', b0.id)
                            if m2:
                                sided.add(m2.group(1))
                    rep.instance('PAIR-sided-block', {'function': fn.name, 'test': t,
                                                      'writes': sorted(sided)})
                    if sided and sided != {P}:
                        rep.violation('PAIR-sided-block', mod_, fn.name,
                                      'sided-block:%s:%s' % (P, ''.join(sorted(sided))),
                                      'under `%s` the block list of `%s` is re-sorted: the test '
                                      'consults the wrong operand' %
                                      (t, '/'.join(sorted(sided))), s0.lineno)
        # ---- raised classes
        rep.instance('PAIR-raises', {'pair': repl, 'python': sorted(rf), 'pyx': sorted(rg)})
        if rf != rg and not _raise_benign(repl, rf, rg):
            rep.violation('PAIR-raises', m, q, 'raise-classes:' + repl,
                          'the twins raise different exception classes on argument errors: python '
                          '%s vs compiled %s ("the same class of error" is part of the property)' %
                          (sorted(rf), sorted(rg)), f.lineno)
        # ---- parameters written in place (ownership): same set
        own = Own(m, set())
        wf = _written_params(own, f)
        wg = _written_params(own, g)
        rep.instance('PAIR-mutation', {'pair': repl, 'python': sorted(wf), 'pyx': sorted(wg)})
        extra_py = wf - wg - {'self', 'res'}
        extra_pyx = wg - wf - {'self', 'res'}
        if extra_py or extra_pyx:
            rep.violation('PAIR-mutation', m, q, 'param-mutation:' + repl,
                          'the twins differ in which arguments they may write in place: python '
                          '%s vs compiled %s' % (sorted(wf), sorted(wg)), f.lineno)
    return pairs


def _raise_benign(repl, rf, rg):
    # the compiled tensordot worker delegates the 0/1-block cases to the caller and asserts
    table = {
        'ChargeInfo_make_valid': 'compiled twin validates ndim of the argument (1D/2D only)',
        '_tensordot_worker': 'compiled worker has no early-return branch; tensordot() handles '
                             'the trivial cases before calling it',
    }
    return repl in table and not (rf - rg - {'ValueError'}) and not (rg - rf - {'ValueError'})


def _written_params(own, f):
    fi = FuncInfo(f, f.name, False)
    out = set()
    for st, kind, root, attr, desc in own.write_sites(fi):
        base = root
        while isinstance(base, (ast.Attribute, ast.Subscript)):
            base = base.value
        if not isinstance(base, ast.Name) or base.id not in fi.params:
            continue
        if kind == 'deep' and attr is None:
            if own.origin_at(fi, st, root) == 'P' and not own.name_rebound_fresh_before(
                    fi, st, base.id):
                out.add(base.id)
    # C helpers that write through a pointer / memoryview argument (frozen table)
    from ..core import names_in
    plain_defs = {}
    for s0 in stmts_of(f):
        if isinstance(s0, ast.Assign) and len(s0.targets) == 1 and isinstance(
                s0.targets[0], ast.Name):
            plain_defs.setdefault(s0.targets[0].id, []).append(s0.value)
    for c in body_nodes(f):
        if isinstance(c, ast.Call) and isinstance(c.func, ast.Name) and \
                c.func.id in POINTER_WRITERS:
            k = POINTER_WRITERS[c.func.id]
            if k < len(c.args) and own.origin(fi, c.args[k]) == 'P':
                for nm in names_in(c.args[k]):
                    if nm in fi.params:
                        out.add(nm)
                    else:
                        # follow local definitions that alias (part of) a parameter:
                        # `adata = self._data`, `ta = adata[i]`
                        todo, seen = [nm], set()
                        while todo:
                            x = todo.pop()
                            if x in seen:
                                continue
                            seen.add(x)
                            for v in plain_defs.get(x, []):
                                while isinstance(v, ast.Call) and v.args and (
                                        call_name(v) in ('__addr__', 'PyArray_BYTES',
                                                         'PyArray_DATA', 'asarray',
                                                         'ascontiguousarray')):
                                    v = v.args[0]
                                if isinstance(v, ast.Name):
                                    if v.id in fi.params:
                                        out.add(v.id)
                                    else:
                                        todo.append(v.id)
                                if isinstance(v, (ast.Attribute, ast.Subscript)):
                                    b = v
                                    while isinstance(b, (ast.Attribute, ast.Subscript)):
                                        b = b.value
                                    if isinstance(b, ast.Name):
                                        if b.id in fi.params:
                                            out.add(b.id)
                                        else:
                                            todo.append(b.id)
    return out


def check_normalised_qtotal(prog, rep):
    """a local bound to raw arithmetic on total charges is reduced (make_valid) before it is
    used as a charge (lookup key, argument, comparison)"""
    pyx = load_pyx(prog)
    for mod_, names in ((prog.module(NPC), ['_tensordot_worker', '_inner_worker', 'tensordot',
                                            'outer']),
                        (pyx, ['_tensordot_worker', '_inner_worker'])):
        for qn in names:
            if not mod_.has_func(qn):
                continue
            fn = mod_.func(qn)
            for st in stmts_of(fn):
                if not (isinstance(st, ast.Assign) and isinstance(st.targets[0], ast.Name)):
                    continue
                v = st.value
                raw = isinstance(v, (ast.BinOp, ast.IfExp)) and '.qtotal' in unparse(v) and \
                    'make_valid' not in unparse(v)
                if not raw:
                    continue
                name = st.targets[0].id
                rep.instance('PAIR-normalised', {'function': qn, 'module': mod_.relpath,
                                                 'raw': key_text(st)})
                bad = None
                for u in body_nodes(fn):
                    if isinstance(u, ast.Name) and u.id == name and isinstance(u.ctx, ast.Load) \
                            and u.lineno > st.lineno:
                        p = parent(u)
                        okuse = False
                        while p is not None and not isinstance(p, ast.stmt):
                            if isinstance(p, ast.Call) and call_name(p) in (
                                    'make_valid', '_make_valid_charges_1D',
                                    '_make_valid_charges_2D', 'Array', 'zeros'):
                                okuse = True
                            p = parent(p)
                        if okuse:
                            # normalised (in place for the C helper) at/before first use
                            break
                        bad = u
                        break
                if bad is not None:
                    rep.violation('PAIR-normalised', mod_, qn, 'raw-qtotal:' + name,
                                  '`%s` is arithmetic on total charges that is used (`%s`) before '
                                  'being reduced with make_valid: for Z_N charges whose sum wraps '
                                  'around, charge lookups miss and blocks are silently dropped' %
                                  (key_text(st), key_text(parent_stmt(bad))[:60]), st.lineno)


def parent_stmt(n):
    while n is not None and not isinstance(n, ast.stmt):
        n = parent(n)
    return n


def check_precondition_delegation(prog, rep):
    """cases the compiled worker does not handle must be handled by the python caller first"""
    m = prog.module(NPC)
    f = m.func('tensordot')
    rep.instance('PAIR-precondition', {'function': 'tensordot'})
    nf = inline_temps(f)
    calls = [c for c in body_nodes(nf) if isinstance(c, ast.Call) and
             call_name(c) == '_tensordot_worker']
    if not calls:
        raise AnalysisError('tensordot: call of _tensordot_worker not found')
    for c in calls:
        g = {(t, pol) for t, pol, _ in guards_of(nf, parent_stmt(c))}
        need = [('a.stored_blocks == 0', False), ('b.stored_blocks == 0', False)]
        missing = [t for t, pol in need if (t, pol) not in g]
        rep.instance('PAIR-precondition', {'call': unparse(c), 'guards': sorted(
            '%s%s' % ('' if pol else 'not ', t) for t, pol in g)})
        if missing:
            rep.violation('PAIR-precondition', m, 'tensordot', 'trivial-cases',
                          'tensordot() must handle the 0-block case itself: the call `%s` is '
                          'reachable without `%s` being excluded (the compiled worker assumes '
                          'both operands have blocks)' % (unparse(c), ' / '.join(missing)),
                          f.lineno)


def check_stale_extension(prog, rep):
    cpp = os.path.join(prog.repo, 'tenpy/linalg/_npc_helper.cpp')
    pyxp = os.path.join(prog.repo, PYX)
    if not os.path.exists(cpp):
        rep.note('no generated _npc_helper.cpp in the tree: staleness of the compiled extension '
                 'cannot be judged (a rebuild from the current tree is assumed)')
        rep.instance('PAIR-stale', {'cpp': 'absent'}, nontrivial=False)
        return
    with open(pyxp, encoding='utf-8') as f:
        lines = f.read().split('\n')
    with open(cpp, encoding='utf-8', errors='replace') as f:
        src = f.read()
    n = 0
    bad = []
    for mobj in re.finditer(r'/\* "tenpy/linalg/_npc_helper\.pyx":(\d+)\n(.*?)\*/', src, re.S):
        ln = int(mobj.group(1))
        marked = [l for l in mobj.group(2).split('\n') if l.rstrip().endswith('# <<<<<<<<<<<<<<')]
        if not marked:
            continue
        text = marked[0]
        text = text[3:] if text.startswith(' * ') else text.lstrip(' *')
        text = text.rstrip()[:-len('# <<<<<<<<<<<<<<')].rstrip()
        n += 1
        cur = lines[ln - 1].rstrip() if 0 < ln <= len(lines) else None
        if cur is None or cur.strip() != text.strip():
            bad.append((ln, text.strip(), (cur or '<missing>').strip()))
    rep.instance('PAIR-stale', {'cited_lines_checked': n, 'mismatches': len(bad)})
    if n < 500:
        raise AnalysisError('generated C++ cites only %d pyx lines: not the expected file' % n)
    if bad:
        ln, was, now = bad[0]
        rep.violation('PAIR-stale', prog.module(NPC), '_npc_helper (compiled extension)',
                      'stale-extension',
                      'the generated C++ (and the extension built from it) was produced from a '
                      'different .pyx: %d cited source lines differ, first at line %d: built from '
                      '`%s`, tree has `%s`. The compiled configuration runs code that is not in '
                      'the tree until it is rebuilt' % (len(bad), ln, was[:60], now[:60]), ln)


def check_decorator(prog, rep):
    """use_cython falls back to the python function unless the compiled module imports, and can
    be switched off by TENPY_NO_CYTHON"""
    m = prog.module('tenpy/tools/optimization.py')
    rep.unit(m)
    f = m.func('use_cython')
    src = unparse(f)
    rep.instance('PAIR-decorator', {})
    if 'TENPY_NO_CYTHON' not in src or 'getattr(' not in src and '_npc_helper' not in src:
        rep.violation('PAIR-decorator', m, 'use_cython', 'selection',
                      'use_cython must honour TENPY_NO_CYTHON and pick the replacement from the '
                      'compiled module', f.lineno)
    if 'return func' not in src:
        rep.violation('PAIR-decorator', m, 'use_cython', 'fallback',
                      'without the compiled module the decorated python function must be returned '
                      'unchanged', f.lineno)


def run(prog, rep, tier):
    rep.rule('PAIR-*', 'for every @use_cython pair (derived from the decorators): the replacement '
             'exists, parameter lists and defaults agree, the sets of attributes updated on each '
             'parameter agree (helpers inlined, setter calls normalised), stated sortedness '
             'constants agree, raised exception classes agree, the sets of arguments written in '
             'place agree; trivial cases are handled before the compiled worker; the generated '
             'C++ cites the lines of the current .pyx')
    pairs = check_pairs(prog, rep)
    from .c02 import check_flag_q
    check_flag_q(prog, rep, mods=[load_pyx(prog)])
    check_precondition_delegation(prog, rep)
    check_normalised_qtotal(prog, rep)
    check_stale_extension(prog, rep)
    check_decorator(prog, rep)
    from ..twins import (check_accumulate_options, check_raise_guards, check_regions,
                         check_skip_transpose)
    pyx = load_pyx(prog)
    check_regions(prog, rep, pairs, pyx)
    units = []
    for rel, q, f, repl in pairs:
        units.append((prog.module(rel), q, f))
        if pyx.has_func(repl):
            units.append((pyx, repl, pyx.func(repl)))
    check_skip_transpose(rep, units)
    if check_accumulate_options(prog, rep) < 2:
        raise AnalysisError('PAIR-accumulate-options: the fast_dot_sum closures were not found')
    from ..twins import check_sort_after_reorder
    rep.rule('PAIR-sort-after-reorder', 'in every kernel that transposes and sorts one operand, the '
             'transposition precedes the sort of its block list and the leg comparison')
    so_units = [(prog.module(NPC), q, f) for q, f in prog.module(NPC).functions.items()] + \
               [(pyx, q, f) for q, f in pyx.functions.items()]
    if check_sort_after_reorder(prog, rep, so_units) < 2:
        raise AnalysisError('PAIR-sort-after-reorder: the twins of iadd_prefactor_other / '
                            'ibinary_blockwise were not found')
    from ..twins import check_augassign_guards
    rep.rule('PAIR-augassign-guards', 'in-place updates of a local array that both twins perform are '
             'performed under the same branch conditions')
    if check_augassign_guards(prog, rep, pairs, pyx) < 1:
        raise AnalysisError('PAIR-augassign-guards: no common in-place update found in the twins')
    from ..flow import check_state_derived_agree
    rep.rule('STATE-derived-agree', '__setstate__ derives python-only cached fields (_mask, '
             '_mod_masked) by the same expressions as __init__')
    if check_state_derived_agree(prog, rep, ['tenpy/linalg/charges.py']) < 4:
        raise AnalysisError('STATE-derived-agree: ChargeInfo.__init__/__setstate__ not found')
    if check_raise_guards(prog, rep, pairs, pyx) < 3:
        raise AnalysisError('PAIR-raise-guards: fewer than 3 common raises in the twins')
    rep.floor('PAIR-regions', 15)
    rep.floor('PAIR-skip-transpose', 2)
    rep.floor('PAIR-exists', 16)
    rep.floor('PAIR-effects', 16)
    rep.assumptions += ['numerical equality of the two implementations is NOT decided',
                        'pointer-level helpers (_sliced_strided_copy, BLAS wrappers) are opaque',
                        'the .so is assumed to be built from the _npc_helper.cpp next to it']
    return rep.finish(
        level='other',
        explanation='Structural agreement of the %d python/Cython sibling pairs (Cython parse tree '
        'lowered to python ast) and staleness of the generated C++ against the current .pyx.' %
        len(pairs))
