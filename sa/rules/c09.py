"""C09 — MPS transformations: coupled updates of the four per-site lists and their read/write
order, canonical-form flows, bond-list re-indexing, sided (L/R) family coherence, truncation error
flow. That the transformed state equals the dense image is not decided."""
import ast
import re

from ..core import (AnalysisError, bound_args, split_assign, body_nodes, call_name, dotted, in_loop, is_self_attr, key_text,
                    kwarg, local_defs, names_in, params, parent, stmts_of, unparse)
from ..normal import inline_temps
from ..pattern import P, find, guards_of, iteration_source, pmatch
from ..flow import check_errflow

MPS = 'tenpy/networks/mps.py'

# which of the per-site lists an accessor reads
ACCESSOR_READS = {
    'get_B': {'_B', 'form', '_S'}, 'get_theta': {'_B', 'form', '_S', 'sites'},
    'get_SL': {'_S'}, 'get_SR': {'_S'}, 'get_site': {'sites'}, 'get_op': {'sites'},
    'entanglement_entropy': {'_S'}, 'get_rho_segment': {'_B', 'form', '_S'},
}
CORE = ('sites', 'form', '_B', '_S')


def _reads(node):
    """per-site lists read by evaluating `node`"""
    out = set()
    for n in ast.walk(node):
        if isinstance(n, ast.Call) and isinstance(n.func, ast.Attribute) and is_self_attr(n.func):
            out |= ACCESSOR_READS.get(n.func.attr, set())
        if isinstance(n, ast.Attribute) and is_self_attr(n) and n.attr in CORE and isinstance(
                n.ctx, ast.Load):
            out.add(n.attr)
    return out


def check_coupled_order(prog, rep):
    m = prog.module(MPS)
    rep.unit(m)
    cls = m.cls('MPS')
    n = 0
    for f in cls.body:
        if not isinstance(f, ast.FunctionDef) or f.name in ('__init__', 'from_hdf5', 'copy'):
            continue
        q = 'MPS.' + f.name
        stores = []
        for st in f.body:  # top-level straight-line stores only
            for e, v in split_assign(st):
                if is_self_attr(e) and e.attr in CORE:
                    stores.append((st, e.attr, v))
        if len({a for _, a, _ in stores}) < 2:
            continue
        n += 1
        written = []
        for st, attr, val in stores:
            rd = _reads(val)
            rep.instance('MPS-coupled-order', {'function': q, 'store': key_text(st)[:70],
                                               'reads': sorted(rd), 'already_replaced': list(written)})
            stale = [w for w in written if w in rd and w != attr]
            # reading a list that was already replaced by a re-ordered / re-sized version
            for w in stale:
                wst, wval = [(s, v) for s, a, v in stores if a == w][0]
                if _is_reindexing(wval, w):
                    rep.violation('MPS-coupled-order', m, q,
                                  'reads-replaced:%s-after-%s' % (attr, w),
                                  '`%s` is evaluated after `self.%s` was already replaced by its '
                                  're-indexed version (`%s`): the accessor combines old tensors '
                                  'with the new %s list' %
                                  (key_text(st)[:70], w, key_text(wst)[:60], w), st.lineno)
            written.append(attr)
        # all four lists are replaced together when one is re-indexed
        reidx = {a for s, a, v in stores if _is_reindexing(v, a)}
        if reidx and f.name not in ('set_B', ):
            everywhere = set()
            for st2 in stmts_of(f):
                if isinstance(st2, ast.Assign):
                    for t in st2.targets:
                        for e in (t.elts if isinstance(t, ast.Tuple) else [t]):
                            if is_self_attr(e) and e.attr in CORE:
                                everywhere.add(e.attr)
            missing = [a for a in CORE if a not in everywhere]
            rep.instance('MPS-coupled-all', {'function': q, 'replaced': sorted({a for _, a, _ in stores})})
            if missing:
                rep.violation('MPS-coupled-all', m, q, 'not-replaced:' + ','.join(missing),
                              '%s re-indexes %s but leaves %s in the old order: tensors, forms, '
                              'sites and singular values no longer belong together' %
                              (q, sorted(reidx), missing), f.lineno)
    return n


def _is_reindexing(value, attr):
    """list comprehension / slice / repetition building a re-ordered or re-sized list"""
    if isinstance(value, ast.ListComp):
        return True
    if isinstance(value, ast.Subscript) and isinstance(value.slice, ast.Slice):
        return True
    if isinstance(value, ast.BinOp) and isinstance(value.op, ast.Mult):
        return True
    return False


def check_form_flow(prog, rep):
    m = prog.module(MPS)
    cls = m.cls('MPS')
    for f in cls.body:
        if not isinstance(f, ast.FunctionDef):
            continue
        q = 'MPS.' + f.name
        for st, val in [(s0, v) for s0 in stmts_of(f) for t, v in split_assign(s0)
                        if is_self_attr(t, '_B')]:
            val0 = val
            if isinstance(val, ast.Name):
                # resolve a local that holds the new list
                nm = val.id
                for s0 in stmts_of(f):
                    if isinstance(s0, ast.Assign) and unparse(s0.targets[0]) == nm:
                        val = s0.value
            vals = [val]
            if isinstance(val0, ast.Name):
                # ... or a list that is filled by append / extend
                for c0 in body_nodes(f):
                    if isinstance(c0, ast.Call) and isinstance(c0.func, ast.Attribute) and \
                            c0.func.attr in ('append', 'extend') and isinstance(
                                c0.func.value, ast.Name) and c0.func.value.id == val0.id:
                        vals.extend(c0.args)
            calls = [c for v_ in vals for c in ast.walk(v_) if isinstance(c, ast.Call) and
                     dotted(c.func) == 'self.get_B']
            if not calls:
                continue
            for c in calls:
                form = kwarg(c, 'form')
                if form is None and len(c.args) > 1:
                    form = c.args[1]
                ftxt = unparse(form) if form is not None else "'B' (default)"
                rep.instance('MPS-form-flow', {'function': q, 'rebuild': key_text(st)[:70],
                                               'requested_form': ftxt})
                if form is not None and isinstance(form, ast.Constant) and form.value is None:
                    continue
                # tensors are converted to a fixed form: self.form must be set to that form
                fs = [s for s in stmts_of(f) if isinstance(s, ast.Assign) and any(
                    is_self_attr(t, 'form') for t in s.targets)]
                want = 'B' if form is None else (form.value if isinstance(form, ast.Constant)
                                                 else None)
                ok = False
                for s in fs:
                    v = unparse(s.value)
                    if want is not None and ("_valid_forms[%r]" % want in v or
                                             "_parse_form(%r)" % want in v):
                        ok = True
                if not ok:
                    rep.violation('MPS-form-flow', m, q, 'form-mismatch',
                                  '`%s` stores tensors converted to form %s, but self.form is %s: '
                                  'the recorded canonical form no longer describes the stored '
                                  'tensors (singular values are multiplied in twice / not at all)' %
                                  (key_text(st)[:70], ftxt,
                                   'kept / re-indexed from the old forms' if fs else 'unchanged'),
                                  st.lineno)
    # set_svd_theta: U -> site i form A, VH -> site i+1 form B, S -> right bond of i
    f = m.func('MPS.set_svd_theta')
    rep.instance('MPS-form-flow', {'function': 'MPS.set_svd_theta'})
    pi = params(f)[1]

    def svd_pos(name, seen=()):
        """position of `name` in the tuple returned by npc.svd / svd_theta (through re-bindings
        like U = U.split_legs()...)"""
        out = set()
        for st in stmts_of(f):
            if not isinstance(st, ast.Assign):
                continue
            t0 = st.targets[0]
            if isinstance(t0, ast.Tuple) and isinstance(st.value, ast.Call) and \
                    call_name(st.value) in ('svd', 'svd_theta'):
                for k, e in enumerate(t0.elts):
                    if isinstance(e, ast.Name) and e.id == name:
                        out.add(k)
            elif isinstance(t0, ast.Name) and t0.id == name and name not in seen:
                for nm2 in names_in(st.value) - {name, 'self'}:
                    out |= svd_pos(nm2, seen + (name, ))
        return out

    setb = {}
    for c in body_nodes(f):
        if isinstance(c, ast.Call) and dotted(c.func) == 'self.set_B' and len(c.args) >= 2:
            fm = kwarg(c, 'form') or (c.args[2] if len(c.args) > 2 else None)
            roots = names_in(c.args[1]) - {'self'}
            pos = set()
            for r_ in roots:
                pos |= svd_pos(r_)
            setb[unparse(c.args[0])] = (pos, unparse(fm) if fm is not None else None)
    sr = [c for c in body_nodes(f) if isinstance(c, ast.Call) and dotted(c.func) == 'self.set_SR'
          and len(c.args) == 2 and unparse(c.args[0]) == pi and svd_pos(unparse(c.args[1])) == {1}]
    ok = setb.get(pi) == ({0}, "'A'") and setb.get('%s + 1' % pi) == ({2}, "'B'") and bool(sr)
    if not ok:
        rep.violation('MPS-form-flow', m, 'MPS.set_svd_theta', 'svd-forms',
                      'after theta = U S VH the left-isometry U goes to site i in form A, VH to '
                      'site i+1 in form B and S to the bond between them (found %s)' % setb,
                      f.lineno)
    # get_B: left scaling with SL/nu[0], right scaling with SR/nu[1]
    f = inline_temps(m.func('MPS.get_B'))
    rep.instance('MPS-form-flow', {'function': 'MPS.get_B'})
    pairs = []
    for c in body_nodes(f):
        if isinstance(c, ast.Call) and dotted(c.func) == 'self._scale_axis_B' and len(c.args) >= 4:
            e = pmatch('$$new[$$k] - $$old[$$k]', c.args[2])
            if e and isinstance(e['$$k'], ast.Constant) and \
                    pmatch('self._to_valid_form(form)', e['$$new']) and \
                    pmatch('self.form[$$i]', e['$$old']):
                pairs.append((unparse(c.args[1]), e['$$k'].value, unparse(c.args[3])))
            else:
                pairs.append((unparse(c.args[1]), unparse(c.args[2])[:60], unparse(c.args[3])))
    want = {('self.get_SL(i)', 0, "'vL'"), ('self.get_SR(i)', 1, "'vR'")}
    if set(pairs) != want:
        rep.violation('MPS-form-flow', m, 'MPS.get_B', 'side-pairing',
                      'form conversion must scale leg vL with the LEFT singular values by the '
                      'change of nuL (= new_form[0] - old_form[0]) and vR with the RIGHT ones by '
                      'the change of nuR (got %s)' % sorted(pairs, key=str), f.lineno)
    # _valid_forms table
    rep.instance('MPS-form-table', {})
    cls = m.cls('MPS')
    tab = None
    for st in cls.body:
        if isinstance(st, ast.Assign) and unparse(st.targets[0]) == '_valid_forms':
            tab = st.value
    if tab is None or not isinstance(tab, ast.Dict):
        raise AnalysisError('MPS._valid_forms table not found')
    vals = {}
    for k, v in zip(tab.keys, tab.values):
        if isinstance(k, ast.Constant) and isinstance(v, ast.Tuple):
            vals[k.value] = tuple(e.value for e in v.elts if isinstance(e, ast.Constant))
    expect = {'A': (1.0, 0.0), 'B': (0.0, 1.0), 'C': (0.5, 0.5), 'G': (0.0, 0.0),
              'Th': (1.0, 1.0)}
    for k, v in expect.items():
        if vals.get(k) != v:
            rep.violation('MPS-form-table', m, 'MPS', 'valid-forms:' + k,
                          'canonical form %r means exponents %s of the singular values on '
                          '(left, right); the table says %s' % (k, v, vals.get(k)), tab.lineno)


def check_bond_lists(prog, rep):
    """the bond list has L+1 entries for finite and L for infinite states: re-indexing it
    directly (not through get_SL/get_SR) must depend on the boundary conditions"""
    m = prog.module(MPS)
    cls = m.cls('MPS')
    for f in cls.body:
        if not isinstance(f, ast.FunctionDef) or f.name in ('__init__', 'from_hdf5'):
            continue
        q = 'MPS.' + f.name
        for st in stmts_of(f):
            for v in [vv for t, vv in split_assign(st) if is_self_attr(t, '_S')]:
                raw = any(isinstance(n, ast.Attribute) and is_self_attr(n, '_S')
                          for n in ast.walk(v))
                if not raw or not _is_reindexing(v, '_S'):
                    continue
                rep.instance('MPS-bond-reindex', {'function': q, 'store': key_text(st)})
                src = unparse(f)
                if not any(isinstance(s, ast.If) and ('self.finite' in unparse(s.test) or
                                                      'self.bc' in unparse(s.test))
                           for s in ast.walk(f)):
                    rep.violation('MPS-bond-reindex', m, q, 'bond-reindex-ignores-bc',
                                  '`%s` re-indexes the bond list directly without distinguishing '
                                  'finite (L+1 bonds) from infinite (L bonds, S[i] left of site i) '
                                  'states: for an infinite MPS the singular values end up on the '
                                  'wrong bonds (off by one)' % key_text(st), st.lineno)


def check_swap_sites(prog, rep):
    m = prog.module(MPS)
    f = inline_temps(m.func('MPS.swap_sites'), keep=('siteL', 'siteR'))
    pi = params(f)[1]
    defs = local_defs(f)

    def sides(expr, seen=None):
        """{'L','R'}: which of the two sites (i -> L, i+1 -> R) the expression is built from"""
        seen = seen if seen is not None else set()
        out = set()
        for x in ast.walk(expr):
            e = pmatch('self.get_site($$k)', x) or pmatch('self.sites[$$k]', x) or \
                pmatch('self.sites[self._to_valid_site_index($$k)]', x)
            if e:
                k = unparse(e['$$k'])
                if k == pi:
                    out.add('L')
                elif k in ('%s + 1' % pi, '1 + %s' % pi):
                    out.add('R')
            if isinstance(x, ast.Name) and x.id in defs and x.id not in seen:
                seen.add(x.id)
                for v in defs[x.id]:
                    if isinstance(v, ast.Tuple):
                        continue
                    out |= sides(v, seen)
        # tuple unpacking `siteL, siteR = (get_site(i), get_site(i+1))`
        for st in stmts_of(f):
            if isinstance(st, ast.Assign) and isinstance(st.targets[0], ast.Tuple) and \
                    isinstance(st.value, ast.Tuple):
                for t, v in zip(st.targets[0].elts, st.value.elts):
                    if isinstance(t, ast.Name) and t.id in names_in(expr) and t.id not in seen:
                        seen.add(t.id)
                        out |= sides(v, seen)
        return out

    n = 0
    for c in body_nodes(f):
        if isinstance(c, ast.Call) and dotted(c.func) == 'np.outer' and len(c.args) == 2:
            n += 1
            a, b = c.args
            rep.instance('MPS-sided', {'function': 'MPS.swap_sites', 'outer': unparse(c)[:80]})
            na, nb = sides(a), sides(b)
            if (na and na != {'L'}) or (nb and nb != {'R'}):
                rep.violation('MPS-sided', m, 'MPS.swap_sites', 'outer-order:' + unparse(c)[:40],
                              '`%s`: the two-site basis is ordered (left site slow, right site '
                              'fast) — the diagonal is reshaped to [dL, dR, dL, dR] — so the '
                              'first factor must belong to the left site and the second to the '
                              'right one: fermionic signs of unequal site types are scrambled' %
                              unparse(c)[:120], c.lineno)
    if n < 2:
        raise AnalysisError('MPS.swap_sites: parity outer products not found')
    rep.instance('MPS-sided', {'function': 'MPS.swap_sites', 'check': 'layout'})
    ok = False
    for c in body_nodes(f):
        e = pmatch('$$x.reshape([$$a, $$b, $$c, $$d])', c)
        if e and [sides(e[k]) for k in ('$$a', '$$b', '$$c', '$$d')] == [{'L'}, {'R'}, {'L'}, {'R'}]:
            for l in body_nodes(f):
                if isinstance(l, ast.List) and len(l.elts) == 4 and all(
                        '.leg' in unparse(x) for x in l.elts):
                    sd = [sides(x) for x in l.elts]
                    cj = ['.conj()' in unparse(x) for x in l.elts]
                    if sd == [{'L'}, {'R'}, {'L'}, {'R'}] and cj == [False, False, True, True]:
                        ok = True
    if not ok:
        rep.violation('MPS-sided', m, 'MPS.swap_sites', 'layout',
                      'the swap operator must be built as diag.reshape([dL, dR, dL, dR]) with legs '
                      '[L, R, L*, R*]', f.lineno)
    rep.instance('MPS-sided', {'function': 'MPS.swap_sites', 'check': 'sites exchanged'})
    got = {}
    for st in stmts_of(f):
        e = pmatch('self.sites[self._to_valid_site_index($$k)] = $$v', st) or \
            pmatch('self.sites[$$k] = $$v', st)
        if e:
            got[unparse(e['$$k'])] = sides(e['$$v'])
    tup = find('self.sites[$$a], self.sites[$$b] = $$x, $$y', f)
    for n2, e in tup:
        for kk, vv in (('$$a', '$$x'), ('$$b', '$$y')):
            k = pmatch('self._to_valid_site_index($$k)', e[kk])
            got[unparse(k['$$k']) if k else unparse(e[kk])] = sides(e[vv])
    if got.get(pi) != {'R'} or got.get('%s + 1' % pi) != {'L'}:
        rep.violation('MPS-sided', m, 'MPS.swap_sites', 'sites-not-exchanged',
                      'after the swap site i must hold siteR and site i+1 siteL (found %s)' % got,
                      f.lineno)
    # spatial_inversion: form pairs swapped, labels swapped, all lists reversed
    g = m.func('MPS.spatial_inversion')
    rep.instance('MPS-sided', {'function': 'MPS.spatial_inversion'})
    why = None
    stores = {}
    for st in stmts_of(g):
        for t, v in split_assign(st):
            if is_self_attr(t) and t.attr in ('sites', 'form', '_B', '_S'):
                if isinstance(v, ast.Name):
                    d = [x for x in local_defs(g).get(v.id, [])]
                    v = d[0] if d else v
                stores.setdefault(t.attr, []).append(v)

    def reversed_over(v, attr):
        """the value iterates / slices self.<attr> back to front"""
        txt = unparse(v)
        loops = [unparse(lp.iter) for lp in ast.walk(g) if isinstance(lp, ast.For)]
        return ('self.%s[::-1]' % attr) in txt or ('reversed(self.%s)' % attr) in txt or any(
            ('self.%s[::-1]' % attr) in t or ('reversed(self.%s)' % attr) in t for t in loops)

    for attr in ('sites', 'form', '_B'):
        if attr not in stores or not any(reversed_over(v, attr) for v in stores[attr]):
            why = 'self.%s must be reversed' % attr
    src_all = unparse(g)
    if why is None and not (find('($f[1], $f[0])', g)):
        why = 'the exponents (nuL, nuR) of every form must be swapped'
    if why is None and not (find("$$b.replace_labels(['vL', 'vR'], ['vR', 'vL'])", g) or
                            find("$$b.ireplace_labels(['vL', 'vR'], ['vR', 'vL'])", g) or
                            find("$$b.replace_labels(['vR', 'vL'], ['vL', 'vR'])", g)):
        why = 'the virtual legs vL and vR of every tensor must be exchanged'
    if why:
        rep.violation('MPS-sided', m, 'MPS.spatial_inversion', 'inversion',
                      'inversion reverses sites, tensors and forms, swaps (nuL, nuR) and vL<->vR: '
                      + why, g.lineno)


FORMS = {'A': (1, 0), 'B': (0, 1), 'C': (0.5, 0.5), 'G': (0, 0), 'Th': (1, 1)}


def check_bond_coverage(prog, rep):
    """A function that collects site tensors with get_B and hands them over as a complete state
    with trivial singular values (`form=None`) must include every bond's singular values exactly
    once: exponent 1 on the left of the first site, nuR(i) + nuL(i+1) = 1 in between, 1 on the
    right of the last site. With all later sites in form B (0, 1) this means: the first site is
    requested as 'Th' and no other site carries a left exponent."""
    m = prog.module(MPS)
    n = nf_ = 0
    for q, f in m.functions.items():
        cons = [c for c in body_nodes(f) if isinstance(c, ast.Call) and
                unparse(c.func) in ('self.__class__', 'cls', 'MPS') and
                isinstance(kwarg(c, 'form'), ast.Constant) and kwarg(c, 'form').value is None]
        gbs = [c for c in body_nodes(f) if isinstance(c, ast.Call) and
               isinstance(c.func, ast.Attribute) and c.func.attr == 'get_B' and c.args]
        if not cons or not gbs:
            continue
        nf_ += 1
        getb = m.func('MPS.get_B')
        for c in gbs:
            b = bound_args(c, getb)
            fm = b.get('form')
            if fm is None:
                form = 'B'
            elif isinstance(fm, ast.Constant) and fm.value in FORMS:
                form = fm.value
            else:
                continue
            idx = b.get('i')
            may_be_first = only_first = False
            if isinstance(idx, ast.Constant):
                may_be_first = only_first = idx.value == 0
            elif isinstance(idx, ast.Name):
                src = iteration_source(f, idx.id, at=c)
                r = pmatch('range($$a, $$b)', src) if src is not None else None
                r1 = pmatch('range($$b)', src) if src is not None else None
                if r1:
                    may_be_first = True
                elif r:
                    may_be_first = unparse(r['$$a']) == '0'
                else:
                    continue
            else:
                continue        # L - 1 etc.: an inner / last site
            nuL, nuR = FORMS[form]
            n += 1
            rep.instance('MPS-bond-coverage', {'function': q, 'call': unparse(c),
                                               'may_be_first_site': may_be_first, 'form': form})
            bad = None
            if may_be_first and nuL != 1:
                bad = 'the first site is taken in form %r: the singular values on its left bond ' \
                    'are dropped (non-trivial for segment states)' % form
            elif not may_be_first and nuL != 0:
                bad = 'an inner site is taken in form %r: its left bond is counted twice' % form
            elif nuR != 1 and not only_first and form != 'Th':
                bad = 'form %r leaves out the singular values on the right bond' % form
            if bad:
                rep.violation('MPS-bond-coverage', m, q, 'coverage:' + unparse(c)[:40],
                              '`%s` feeds a state built with form=None (singular values all 1): '
                              '%s' % (unparse(c), bad), c.lineno)
    return nf_


def _stmt_of(n):
    while not isinstance(n, ast.stmt):
        n = parent(n)
    return n


def check_sticky_flags(prog, rep):
    """a decision taken inside `if X is None:` in a loop from the loop element is taken for the
    first element only"""
    m = prog.module(MPS)
    for qn in ('MPS.apply_product_op', ):
        f = m.func(qn)
        for lp in ast.walk(f):
            if not isinstance(lp, (ast.For, ast.While)):
                continue
            for g in ast.walk(lp):
                if isinstance(g, ast.If) and isinstance(g.test, ast.Compare) and isinstance(
                        g.test.ops[0], ast.Is) and unparse(g.test.comparators[0]) == 'None' and \
                        isinstance(g.test.left, ast.Name):
                    x = g.test.left.id
                    for s in ast.walk(g):
                        if isinstance(s, ast.Assign) and any(
                                isinstance(t, ast.Name) and t.id == x for t in s.targets):
                            rep.instance('MPS-sticky-flag', {'function': qn, 'flag': x,
                                                             'assign': key_text(s)})
                            if not isinstance(s.value, ast.Constant):
                                rep.violation(
                                    'MPS-sticky-flag', m, qn, 'first-element-decides:' + x,
                                    '`%s` inside `if %s is None:` in a loop: once set by the first '
                                    'element the guard is false, so later elements (e.g. a '
                                    'non-unitary operator after a unitary one) are never '
                                    'examined; only a constant may be assigned there' %
                                    (key_text(s), x), s.lineno)
        # the state is re-canonicalised iff some operator was not unitary
        rep.instance('MPS-sticky-flag', {'function': qn, 'check': 'canonical_form'})
        last = f.body[-1]
        if not (isinstance(last, ast.If) and unparse(last.test) == 'not unitary' and
                'canonical_form' in unparse(last)):
            rep.violation('MPS-sticky-flag', m, qn, 'no-recanonicalise',
                          'after a non-unitary operator the state must be brought back to '
                          'canonical form (norm tracking)', f.lineno)


def check_errflow_c09(prog, rep):
    m = prog.module(MPS)
    prod = {'swap_sites': None, 'svd_theta': 3, 'compress_svd': None, 'compress': None, 'set_svd_theta': None,
            'group_split': None, 'apply_naively': None, 'run': None}
    for qn in ('MPS.swap_sites', 'MPS.permute_sites', 'MPS.compress_svd', 'MPS.group_split'):
        if m.has_func(qn):
            p = dict(prod)
            p.pop('run')
            check_errflow(m.func(qn), p, qn, m, rep, 'MPS-errflow',
                          allow_discard=("'chi_max': None", 'machine'))
    # norm tracking in apply_local_op (multi-site): norm multiplied unless renormalize
    f = m.func('MPS.apply_local_op')
    rep.instance('MPS-norm', {'function': 'MPS.apply_local_op'})
    ok = any(isinstance(s, ast.If) and unparse(s.test) == 'not renormalize' and
             'self.norm *= split_th.norm' in unparse(s) for s in ast.walk(f))
    if not ok:
        rep.violation('MPS-norm', m, 'MPS.apply_local_op', 'norm-tracking',
                      'the norm of the re-split tensors must be multiplied into psi.norm unless '
                      'renormalize is requested', f.lineno)
    rep.instance('MPS-norm', {'function': 'MPS.apply_local_op', 'check': 'JW'})
    jw = [c for c in body_nodes(f) if isinstance(c, ast.Call) and
          call_name(c) == 'apply_JW_string_left_of_virt_leg']
    okjw = False
    for c in jw:
        a = [unparse(x) for x in c.args]
        g_ = {(t, pol) for t, pol, _ in guards_of(f, _stmt_of(c))}
        raises_inf = any(isinstance(r, ast.Raise) and ("self.bc == 'infinite'", True) in {
            (t, pol) for t, pol, _ in guards_of(f, r)} for r in ast.walk(f))
        if len(a) == 3 and a[1] == "'vL'" and a[2] == a[0].replace('self._B[', '').rstrip(']') \
                and a[0].startswith('self._B[') and raises_inf and \
                any(pol and 'need_JW' in t for t, pol in g_):
            okjw = True
    if not okjw:
        rep.violation('MPS-norm', m, 'MPS.apply_local_op', 'jw-string',
                      'a fermionic operator needs the JW string on everything left of site i '
                      '(virtual leg vL of site i) and is impossible for infinite bc', f.lineno)


def run(prog, rep, tier):
    rep.rule('MPS-coupled-*', 'functions replacing the per-site lists (sites, form, _B, _S) replace '
             'all of them and never evaluate an accessor that reads a list already replaced by its '
             're-indexed version')
    rep.rule('MPS-bond-coverage', 'tensors collected for a form=None state cover every bond once')
    rep.rule('MPS-form-*', 'tensors rebuilt through get_B(form=F) need self.form = F (or '
             'form=None); side pairing SL/vL/nuL, SR/vR/nuR; table of canonical forms')
    rep.rule('MPS-bond-reindex', 'direct re-indexing of the bond list depends on finite/infinite')
    rep.rule('MPS-sided', 'left/right families are not mixed: Kronecker order of the swap operator, '
             'sites exchanged, inversion swaps the sided quantities')
    rep.rule('MPS-sticky-flag', 'a per-element decision inside `if flag is None` in a loop')
    rep.rule('MPS-errflow / MPS-norm', 'truncation errors reach the returned value; norm tracking')
    n = check_coupled_order(prog, rep)
    check_form_flow(prog, rep)
    check_bond_lists(prog, rep)
    check_swap_sites(prog, rep)
    if check_bond_coverage(prog, rep) < 1:
        raise AnalysisError('MPS-bond-coverage: MPS.add not found')
    check_sticky_flags(prog, rep)
    check_errflow_c09(prog, rep)
    rep.rule('MPS-permute-direction', 'permute_sites moves site i to perm[i] (read off the '
             'sorting loop); docstring and callers that gather a companion list agree with it')
    if check_permute_direction(prog, rep) < 2:
        raise AnalysisError('MPS-permute-direction: the call in from_product_mps_covering was not found')
    from .c07 import check_leg_side_direction
    rep.rule('LEG-side-direction', 'see C07')
    check_leg_side_direction(prog, rep)
    rep.rule('OFFSET-once', 'an index offset handed on to a helper is not added again to its results')
    if check_offset_once(prog, rep) < 1:
        raise AnalysisError('OFFSET-once: functions forwarding an index offset not found')
    rep.floor('MPS-coupled-order', 8)
    rep.floor('MPS-form-flow', 4)
    rep.assumptions += ['that the transformed state equals the dense image is NOT decided']
    from ..flow import check_carried_flags
    rep.rule('LOOP-carried-flag', 'a flag set under a test inside a loop body and read there is '
             're-initialised per iteration')
    check_carried_flags(prog, rep, ['tenpy/networks/mps.py'])
    from ..flow import check_mixed_accumulation
    rep.rule('ACCUM-mixed', 'a container that accumulates contributions in a loop is not also '
             'overwritten there')
    check_mixed_accumulation(prog, rep, ['tenpy/networks/mps.py'])
    from ..flow import check_site_index_offset
    rep.rule('SITE-index-offset', 'in functions with an `i_offset`, every site lookup includes it')
    if check_site_index_offset(prog, rep, ['tenpy/networks/mps.py']) < 2:
        raise AnalysisError('SITE-index-offset: site lookups of _term_to_ops_list not found')
    from ..flow import check_group_stride
    rep.rule('GROUP-stride', 'loops over grouped sites advance by the size of the group, never by the '
             'nominal n')
    if check_group_stride(prog, rep, ['tenpy/networks/mps.py']) < 1:
        raise AnalysisError('GROUP-stride: loop over grouped_sites not found')
    from ..flow import check_reindex_congruent
    rep.rule('REINDEX-congruent', 'parallel per-site containers of an MPS are re-ordered with index '
             'arrays that agree modulo L')
    if check_reindex_congruent(prog, rep, ['tenpy/networks/mps.py']) < 1:
        raise AnalysisError('REINDEX-congruent: roll_mps_unit_cell not recognised')
    from ..flow import check_stale_loop_reads
    rep.rule('LOOP-stale-read', 'no per-item variable is read in a loop before the iteration assigns '
             'it when its only other bindings are inside other loops')
    check_stale_loop_reads(prog, rep, ['tenpy/networks/mps.py'])
    from .c07 import check_scale_exponent
    rep.rule('FORM-zero-sv / FORM-scale-exponent', 'form conversions multiply S**form_diff and keep '
             'exactly vanishing singular values (enlarge_chi) zero under negative powers')
    check_scale_exponent(prog, rep)
    return rep.finish(
        level='other',
        explanation='Coupled-update order of the per-site lists (%d transformation functions), '
        'canonical-form flows, bond-list re-indexing, sided-family coherence and error flow of the '
        'MPS transformations decided on the current source of mps.py.' % n)


# ------------------------------------------------------------------ MPS-permute-direction
def check_permute_direction(prog, rep):
    """MPS-permute-direction. (1) permute_sites sorts its permutation ascending by adjacent swaps
    and swaps the sites along: site i ends at perm[i] ("scatter"); the docstring must state that
    map. (2) a caller that re-orders a companion list by GATHERING with a permutation A
    (`[L[i] for i in A]`, `L[A]`) must hand permute_sites the inverse of A."""
    m = prog.module(MPS)
    f = m.functions.get('MPS.permute_sites')
    if f is None:
        raise AnalysisError('MPS.permute_sites not found')
    pname = params(f)[1]
    nf = inline_temps(f)
    # (1) direction from the algorithm
    swaps = [c for c in body_nodes(nf) if isinstance(c, ast.Call) and isinstance(
        c.func, ast.Attribute) and c.func.attr == 'swap_sites' and unparse(c.func.value) == 'self']
    scatter = False
    for c in swaps:
        i = unparse(c.args[0]) if c.args else None
        for text, pol, e in guards_of(nf, c):
            if pol and pmatch(P('%s[%s] > %s[%s + 1]' % (pname, i, pname, i)), e):
                scatter = True
    doc = ast.get_docstring(f) or ''
    says_scatter = re.search(r'permute_sites\(%s\)\[%s\[i\]\]\s*=\s*psi\[i\]' % (pname, pname), doc)
    says_gather = re.search(r'permute_sites\(%s\)\[i\]\s*=\s*psi\[%s\[i\]\]' % (pname, pname), doc)
    rep.instance('MPS-permute-direction', {'function': 'MPS.permute_sites',
                                           'algorithm_moves_site_i_to_perm_i': scatter,
                                           'docstring': 'scatter' if says_scatter else
                                           'gather' if says_gather else 'none'})
    if not scatter:
        raise AnalysisError('MPS.permute_sites: the sorting loop (swap when perm[i] > perm[i+1]) '
                            'was not recognised')
    if says_gather and not says_scatter:
        rep.violation('MPS-permute-direction', m, 'MPS.permute_sites', 'doc-inverse',
                      'the loop sorts `%s` ascending and swaps the sites along, so site i ends '
                      'at %s[i]; the docstring states the inverse map (new[i] = old[%s[i]]): '
                      'callers written against the documentation place sites wrongly for every '
                      'permutation that is not an involution' % (pname, pname, pname), f.lineno)
    # (2) call sites in mps.py
    n = 1
    for q, g0 in m.functions.items():
        if 'permute_sites' not in unparse(g0):
            continue
        g = inline_temps(g0)
        for c in body_nodes(g):
            if not (isinstance(c, ast.Call) and isinstance(c.func, ast.Attribute) and
                    c.func.attr == 'permute_sites' and c.args):
                continue
            arg = c.args[0]
            if isinstance(arg, ast.Name):
                # a temporary the normal form left in place: the closest earlier binding among
                # the preceding statements of the same block
                st0 = c
                while not isinstance(st0, ast.stmt):
                    st0 = parent(st0)
                blk = None
                par = parent(st0)
                for fld in ('body', 'orelse', 'finalbody'):
                    b_ = getattr(par, fld, None)
                    if isinstance(b_, list) and any(x is st0 for x in b_):
                        blk = b_
                if blk is not None:
                    for prev in reversed(blk[:[i_ for i_, x in enumerate(blk) if x is st0][0]]):
                        if isinstance(prev, ast.Assign) and len(prev.targets) == 1 and \
                                isinstance(prev.targets[0], ast.Name) and \
                                prev.targets[0].id == arg.id:
                            arg = prev.value
                            break
            inv = isinstance(arg, ast.Call) and call_name(arg) == 'inverse_permutation'
            base = arg.args[0] if inv and arg.args else arg
            A = unparse(base)
            if isinstance(base, ast.Constant):
                continue
            gathers = []
            for x in ast.walk(g):
                if isinstance(x, ast.ListComp) and len(x.generators) == 1 and \
                        unparse(x.generators[0].iter) == A and \
                        isinstance(x.elt, ast.Subscript) and isinstance(
                            x.generators[0].target, ast.Name) and \
                        unparse(x.elt.slice) == x.generators[0].target.id:
                    gathers.append(x)
                if isinstance(x, ast.Subscript) and unparse(x.slice) == A and \
                        isinstance(x.ctx, ast.Load) and not isinstance(x.slice, ast.Constant):
                    gathers.append(x)
                if isinstance(x, ast.For) and unparse(x.iter) == A and \
                        isinstance(x.target, ast.Name):
                    # `for j in A: out.append(L[j])`
                    for y in ast.walk(x):
                        if isinstance(y, ast.Call) and isinstance(y.func, ast.Attribute) and \
                                y.func.attr == 'append' and y.args and isinstance(
                                    y.args[0], ast.Subscript) and \
                                unparse(y.args[0].slice) == x.target.id:
                            gathers.append(y.args[0])
            if not gathers:
                continue
            n += 1
            rep.instance('MPS-permute-direction', {'function': q, 'call': unparse(c)[:70],
                                                   'companion': unparse(gathers[0])[:60],
                                                   'inverse_passed': inv})
            if not inv:
                rep.violation('MPS-permute-direction', m, q, 'gather-vs-scatter:' + A,
                              '`%s` re-orders the companion list by gathering with `%s` (new[j] '
                              '= old[%s[j]]) but `%s` moves site j to %s[j]: the tensors and the '
                              'companion list disagree unless the permutation is an involution; '
                              'pass inverse_permutation(%s)' %
                              (unparse(gathers[0])[:60], A, A, unparse(c)[:50], A, A), c.lineno)
    return n


# ------------------------------------------------------------------ OFFSET-once
def check_offset_once(prog, rep):
    """OFFSET-once: a function that hands its index offset on to a helper (`_term_to_ops_list(..,
    i_offset, ..)`) gets results that already include the offset; adding the offset again to a
    value that comes out of that call counts it twice (sites beyond the term get the
    Jordan-Wigner string, or the index leaves the chain)."""
    m = prog.module(MPS)
    n = 0
    for q, f in m.functions.items():
        pm = params(f)
        offs = [p for p in pm if p.endswith('offset')]
        if not offs:
            continue
        off = offs[0]
        derived = set()
        for st in stmts_of(f):
            if isinstance(st, ast.Assign) and isinstance(st.value, ast.Call) and any(
                    isinstance(a, ast.Name) and a.id == off
                    for a in list(st.value.args) + [k.value for k in st.value.keywords]):
                for t in st.targets:
                    derived |= {x.id for x in ast.walk(t) if isinstance(x, ast.Name)}
        if not derived:
            continue
        # one level of propagation through plain arithmetic on derived names
        changed = True
        while changed:
            changed = False
            for st in stmts_of(f):
                if isinstance(st, ast.Assign) and len(st.targets) == 1 and isinstance(
                        st.targets[0], ast.Name) and st.targets[0].id not in derived and \
                        isinstance(st.value, (ast.BinOp, ast.Name)) and \
                        names_in(st.value) & derived:
                    derived.add(st.targets[0].id)
                    changed = True
        n += 1
        hits = [b for b in body_nodes(f) if isinstance(b, ast.BinOp) and isinstance(
            b.op, (ast.Add, ast.Sub)) and off in names_in(b) and names_in(b) & derived]
        rep.instance('OFFSET-once', {'function': q, 'offset': off, 'includes_offset': sorted(derived),
                                     'offset_added_again': [unparse(b) for b in hits]})
        for b in hits:
            rep.violation('OFFSET-once', m, q, 'offset-twice:' + unparse(b)[:40],
                          '`%s`: %s comes out of a call that was given `%s` and already includes '
                          'it; the offset is applied a second time' %
                          (unparse(b), sorted(names_in(b) & derived), off), b.lineno)
    return n
