"""C17 — save/load round trip: writer/reader table agreement (R-HDF5) and call arity (R-ARITY).
Does not decide equality of numerical payloads."""
import ast

from ..cfg import CFG
from ..core import (AnalysisError, assigned_targets, bound_args, body_nodes, call_name, dotted, is_self_attr, key_text, kwarg, names_in,
                    param_defaults, params, parent, stmts_of, unparse)
from ..hdf5keys import Extractor, compatible, disc_by_attr
from ..normal import inline_temps

HIO = 'tenpy/tools/hdf5_io.py'


def _owner_of(ct, func):
    for ci in ct.all:
        if func in ci.methods.values():
            return ci
    return None


def discover(prog):
    ct = prog.classtable()
    out = []
    for ci in ct.all:
        so, sf = ct.resolve_method(ci, 'save_hdf5')
        lo, lf = ct.resolve_method(ci, 'from_hdf5')
        if sf is None and lf is None:
            continue
        out.append((ci, so, sf, lo, lf))
    return out


def check_pairs_and_keys(prog, rep, tier):
    ct = prog.classtable()
    classes = discover(prog)
    rep.extra['hdf5_classes'] = len(classes)

    def resolve_super(meth):
        def r(func):
            ow = _owner_of(ct, func)
            if ow is None:
                return None
            o2, f2 = ct.resolve_method(ow, meth, after=ow)
            return f2
        return r

    seen_pairs = set()
    for ci, so, sf, lo, lf in classes:
        q = ci.name
        rep.instance('HDF5-pair', {'class': q, 'save': so.name if so else None,
                                   'load': lo.name if lo else None})
        if sf is None or lf is None:
            rep.violation('HDF5-pair', ci.module, q, 'unpaired',
                          'class offers only one of save_hdf5/from_hdf5', ci.node.lineno)
            continue
        own_s = 'save_hdf5' in ci.methods
        own_l = 'from_hdf5' in ci.methods
        if own_s != own_l:
            # an override of only one side is fine only if it delegates to super and adds nothing
            f = ci.methods['save_hdf5'] if own_s else ci.methods['from_hdf5']
            rep.violation('HDF5-pair', ci.module, '%s.%s' % (q, f.name), 'one-sided-override',
                          '%s overrides %s without its counterpart: what one side writes the '
                          'other does not read' % (q, f.name), f.lineno)
        if (id(sf), id(lf)) in seen_pairs:
            continue
        seen_pairs.add((id(sf), id(lf)))
        rep.unit(so.module)
        try:
            W = Extractor('save', resolve_super('save_hdf5')).run(sf)
            R = Extractor('load', resolve_super('from_hdf5')).run(lf)
        except AnalysisError:
            raise
        qs = '%s.save_hdf5' % so.name
        ql = '%s.from_hdf5' % lo.name
        reported = set()
        for r in R:
            for w in W:
                if not compatible(w, r):
                    continue
                rep.instance('HDF5-keys', {'class': q, 'writer_format': disc_by_attr(w),
                                           'reader_format': disc_by_attr(r),
                                           'required': sorted(k for _, k in r.required)},
                             nontrivial=bool(r.required))
                if w.wildcard or r.wildcard:
                    continue
                for key, target in r.required.items():
                    if key in r.optional:
                        continue
                    if key not in w.written and not w.dynamic:
                        ck = 'missing-key:%s:%s:%s' % (key[0], key[1], sorted(
                            disc_by_attr(w).items()))
                        if ck in reported:
                            continue
                        reported.add(ck)
                        rep.violation(
                            'HDF5-keys', lo.module, ql, ck,
                            '%s reads %s %r unconditionally, but %s does not write it on the path '
                            '%s: loading such a file raises instead of reproducing the object' %
                            (ql, 'attribute' if key[0] == 'a' else 'dataset', key[1], qs,
                             disc_by_attr(w) or w.conds or 'default'), lf.lineno)
                # field pairing
                pairs_ = []
                for key, target in r.required.items():
                    tg = getattr(r, 'all_targets', {}).get(key) or [target]
                    pairs_.extend((key, t_) for t_ in tg)
                for key, target in pairs_:
                    val = w.written.get(key)
                    if val is None or target is None:
                        continue
                    if isinstance(val, ast.Attribute) and isinstance(val.value, ast.Name) and \
                            val.value.id == 'self' and isinstance(target, ast.Attribute) and \
                            isinstance(target.value, ast.Name):
                        ck = 'field:%s:%s:%s' % (key[1], val.attr, target.attr)
                        rep.instance('HDF5-field', {'class': q, 'key': key[1], 'saved': val.attr,
                                                    'restored': target.attr})
                        if val.attr != target.attr and ck not in reported:
                            reported.add(ck)
                            rep.violation(
                                'HDF5-field', so.module, qs, ck,
                                'key %r is written from self.%s but restored into .%s: the '
                                'loaded object differs from the saved one' %
                                (key[1], val.attr, target.attr), sf.lineno)
        # presence guards of the reader must test something the writer can write
        allw_k = set()
        for w in W:
            allw_k |= set(w.written)
        if not any(w.wildcard or w.dynamic for w in W):
            guards = set()
            for r in R:
                guards |= r.present | r.absent
            for kind, key in sorted(guards):
                rep.instance('HDF5-guard', {'class': q, 'guard': [kind, key]})
                other = ('a' if kind == 'd' else 'd', key)
                if (kind, key) not in allw_k and other in allw_k:
                    rep.violation(
                        'HDF5-guard', lo.module, ql, 'guard-kind:%s:%s' % (kind, key),
                        '%s tests for %s %r, but %s writes %r as %s: the test is never true, '
                        'the saved value is silently ignored' %
                        (ql, 'attribute' if kind == 'a' else 'dataset/group', key, qs, key,
                         'an attribute' if other[0] == 'a' else 'a dataset/group'), lf.lineno)
        # keys written but never read by the paired reader (information only)
        allw = set()
        for w in W:
            allw |= set(w.written)
        allr = set()
        for r in R:
            allr |= set(r.required) | r.optional | r.present
        unread = sorted(k for k in allw - allr if k[0] == 'd')
        if unread and not any(r.wildcard for r in R):
            ck = 'never-restored:' + ','.join(k for _, k in unread)
            rep.instance('HDF5-restore', {'class': q, 'unread': [k for _, k in unread]})
            # a dataset saved from self.X that the reader never loads: X is not restored
            for key in unread:
                val = None
                for w in W:
                    val = val or w.written.get(key)
                if isinstance(val, ast.Attribute) and is_self_attr(val):
                    # does the reader assign obj.<attr> some other way?
                    assigned = {t.attr for t in ast.walk(lf) if isinstance(t, ast.Attribute) and
                                isinstance(t.ctx, ast.Store)}
                    chain = lf
                    sup = resolve_super('from_hdf5')(lf) if _calls_super(lf, 'from_hdf5') else None
                    while sup is not None:
                        assigned |= {t.attr for t in ast.walk(sup) if isinstance(
                            t, ast.Attribute) and isinstance(t.ctx, ast.Store)}
                        sup = resolve_super('from_hdf5')(sup) if _calls_super(
                            sup, 'from_hdf5') else None
                    if val.attr not in assigned and not _calls_ctor(lf, ci):
                        rep.violation(
                            'HDF5-restore', lo.module, ql, 'never-restored:' + key[1],
                            '%s saves self.%s under %r but %s never loads it nor sets .%s: the '
                            'loaded object lacks this attribute' %
                            (qs, val.attr, key[1], ql, val.attr), lf.lineno)
                    elif val.attr not in assigned and _calls_ctor(lf, ci) and _ctor_only_constant(ct, ci, val.attr):
                        # the reader rebuilds the object through the constructor; the constructor
                        # can only reproduce what it derives from its arguments
                        rep.violation(
                            'HDF5-restore', lo.module, ql, 'ctor-constant:' + key[1],
                            '%s saves self.%s under %r; %s rebuilds the object with cls(...) and '
                            'never loads that key, but every __init__ of the class sets .%s to a '
                            'constant: a value assigned after construction is lost in the round '
                            'trip' % (qs, val.attr, key[1], ql, val.attr), lf.lineno)


def _ctor_only_constant(ct, ci, attr):
    """True iff the __init__ chain of `ci` assigns self.<attr> and only ever from constants."""
    found = False
    cur = ci
    seen = set()
    while cur is not None and cur.name not in seen:
        seen.add(cur.name)
        f = cur.methods.get('__init__')
        if f is not None:
            for n in ast.walk(f):
                tg = []
                if isinstance(n, ast.Assign):
                    tg = [(t, n.value) for t in n.targets]
                elif isinstance(n, ast.AnnAssign) and n.value is not None:
                    tg = [(n.target, n.value)]
                for t, v in tg:
                    if is_self_attr(t) and t.attr == attr:
                        if not isinstance(v, ast.Constant):
                            return False
                        found = True
        cur = cur.bases[0] if cur.bases else None
    return found


def _calls_super(f, meth):
    """Does `f` delegate to ``super().<meth>(...)`` / ``Base.<meth>(...)`` ?"""
    for c in body_nodes(f):
        if isinstance(c, ast.Call) and isinstance(c.func, ast.Attribute) and c.func.attr == meth:
            v = c.func.value
            if isinstance(v, ast.Call) and dotted(v.func) == 'super':
                return True
            if isinstance(v, ast.Name) and v.id[:1].isupper():
                return True
    return False


def _calls_ctor(f, ci=None):
    for c in body_nodes(f):
        if isinstance(c, ast.Call) and dotted(c.func) == 'cls':
            return True
        # ... or through a private classmethod helper of the class
        if ci is not None and isinstance(c, ast.Call) and isinstance(c.func, ast.Attribute) and \
                unparse(c.func.value) == 'cls' and c.func.attr.startswith('_'):
            for k in ci.mro:
                g = k.methods.get(c.func.attr)
                if g is not None and _calls_ctor(g):
                    return True
    return False


def check_state_tuples(prog, rep):
    """__getstate__ tuple <-> __setstate__ unpacking: same arity, same field order."""
    ct = prog.classtable()
    for ci in ct.all:
        g = ci.methods.get('__getstate__')
        s = ci.methods.get('__setstate__')
        if g is None and s is None:
            continue
        q = ci.name
        if g is None or s is None:
            continue
        rets = [r for r in body_nodes(g) if isinstance(r, ast.Return) and r.value is not None]
        if len(rets) != 1:
            continue
        rv = rets[0].value
        # resolve local names in the returned tuple
        local = {}
        for st in stmts_of(g):
            if isinstance(st, ast.Assign) and isinstance(st.targets[0], ast.Name):
                local[st.targets[0].id] = st.value
        if isinstance(rv, ast.Name) and rv.id in local:
            rv = local[rv.id]
        if not isinstance(rv, ast.Tuple):
            continue
        rep.unit(ci.module)
        got = []
        for e in rv.elts:
            if isinstance(e, ast.Name) and e.id in local:
                e = local[e.id]
            if is_self_attr(e):
                got.append(e.attr)
            elif isinstance(e, ast.Tuple):
                got.append(tuple(x.attr if is_self_attr(x) else '?' for x in e.elts))
            elif isinstance(e, ast.Call) and '__getstate__' in unparse(e):
                got.append('<super>')
            else:
                got.append('?')
        # setstate: first unpack of the parameter
        sp = params(s)[1]
        unpack = None
        for st in stmts_of(s):
            if isinstance(st, ast.Assign) and isinstance(st.value, ast.Name) and \
                    st.value.id == sp and isinstance(st.targets[0], ast.Tuple):
                unpack = st.targets[0]
                break
        if unpack is None:
            continue
        rep.instance('HDF5-state-tuple', {'class': q, 'getstate': [str(x) for x in got]})
        if len(unpack.elts) != len(got):
            rep.violation('HDF5-state-tuple', ci.module, q + '.__setstate__', 'arity',
                          '__getstate__ returns %d fields, __setstate__ unpacks %d: '
                          'pickle/copy of %s raises' % (len(got), len(unpack.elts), q), s.lineno)
            continue
        # where does each unpacked name go?
        def dest(name_node):
            if isinstance(name_node, ast.Attribute) and is_self_attr(name_node):
                return name_node.attr
            if isinstance(name_node, ast.Name):
                for st in stmts_of(s):
                    if isinstance(st, ast.Assign) and isinstance(st.value, ast.Name) and \
                            st.value.id == name_node.id and is_self_attr(st.targets[0]):
                        return st.targets[0].attr
                for c in body_nodes(s):
                    if isinstance(c, ast.Call) and '__setstate__' in unparse(c.func) and any(
                            isinstance(a, ast.Name) and a.id == name_node.id for a in c.args):
                        return '<super>'
            if isinstance(name_node, ast.Tuple):
                return tuple(dest(x) for x in name_node.elts)
            return '?'
        for i, (g_attr, tgt) in enumerate(zip(got, unpack.elts)):
            d = dest(tgt)
            if g_attr == '?' or d == '?' or (isinstance(d, tuple) and '?' in d) or (
                    isinstance(g_attr, tuple) and '?' in g_attr):
                continue
            if d != g_attr:
                rep.violation('HDF5-state-tuple', ci.module, q + '.__setstate__',
                              'field-order:%d' % i,
                              'state field %d is %s in __getstate__ but goes to %s in '
                              '__setstate__: copies/pickles of %s have fields swapped' %
                              (i, g_attr, d, q), s.lineno)


def _sig(func):
    a = func.args
    pos = [x.arg for x in a.posonlyargs + a.args]
    ndef = len(a.defaults)
    required = pos[:len(pos) - ndef] if ndef else list(pos)
    kwonly = [x.arg for x in a.kwonlyargs]
    kwreq = [x.arg for x, d in zip(a.kwonlyargs, a.kw_defaults) if d is None]
    return pos, required, kwonly, kwreq, a.vararg is not None, a.kwarg is not None


def _is_static(func):
    for d in func.decorator_list:
        if dotted(d) in ('staticmethod', ):
            return True
    return False


def _is_classmethod(func):
    return any(dotted(d) == 'classmethod' for d in func.decorator_list)


def _is_property(func):
    return any((dotted(d) or '').split('.')[-1] in ('property', 'setter', 'getter',
                                                     'cached_property')
               for d in func.decorator_list)


def check_arity(prog, rep, tier):
    """calls `self.m(...)`, `super().m(...)`, `obj.m(...)` with obj = cls.__new__(cls), whose
    callee resolves exactly along the MRO: positional/keyword arguments must fit."""
    ct = prog.classtable()
    io_methods = {'save_hdf5', 'from_hdf5', '__setstate__', '__getstate__', '__reduce__'}
    total = 0
    for ci in ct.all:
        for mname, f in ci.methods.items():
            in_scope = ci.module.relpath == HIO or mname in io_methods
            if tier != 'thorough' and not in_scope:
                continue
            # objects created by cls.__new__(cls) inside classmethods
            newobjs = set()
            for st in stmts_of(f):
                if isinstance(st, ast.Assign) and isinstance(st.value, ast.Call) and \
                        unparse(st.value) in ('cls.__new__(cls)', ) and isinstance(
                            st.targets[0], ast.Name):
                    newobjs.add(st.targets[0].id)
            # names rebound locally shadow class lookups
            for c in body_nodes(f):
                if not (isinstance(c, ast.Call) and isinstance(c.func, ast.Attribute)):
                    continue
                v = c.func.value
                callee = None
                bound = True
                if isinstance(v, ast.Name) and v.id == 'self' and not _is_static(f) and \
                        not _is_classmethod(f):
                    o, callee = ct.resolve_method(ci, c.func.attr)
                    # an attribute assigned on self with that name shadows the method
                elif isinstance(v, ast.Name) and v.id in newobjs:
                    o, callee = ct.resolve_method(ci, c.func.attr)
                elif isinstance(v, ast.Call) and dotted(v.func) == 'super' and not v.args:
                    o, callee = ct.resolve_method(ci, c.func.attr, after=ci)
                    if callee is not None and _is_classmethod(callee) != _is_classmethod(f) and \
                            not _is_classmethod(callee):
                        pass
                if callee is None:
                    continue
                if _is_property(callee) or any(
                        isinstance(x, ast.Starred) for x in c.args) or any(
                            k.arg is None for k in c.keywords):
                    continue
                # subclasses may override with another signature: only exact when no override in cone
                if isinstance(v, ast.Name) and v.id == 'self':
                    overridden = any(c.func.attr in sub.methods for sub in ct.cone(ci)
                                     if sub is not ci and sub not in ci.mro)
                    if overridden:
                        continue
                pos, required, kwonly, kwreq, var, kw = _sig(callee)
                if _is_static(callee):
                    off = 0
                else:
                    off = 1
                npos = len(c.args)
                kws = [k.arg for k in c.keywords]
                total += 1
                q = '%s.%s' % (ci.name, mname)
                desc = {'function': q, 'call': unparse(c)[:70],
                        'callee': '%s.%s' % (o.name, c.func.attr)}
                rep.instance('ARITY', desc, nontrivial=in_scope)
                problem = None
                if not var and npos > len(pos) - off:
                    problem = 'passes %d positional arguments, %s.%s accepts at most %d' % (
                        npos, o.name, c.func.attr, len(pos) - off)
                else:
                    provided = set(pos[off:off + npos]) | set(kws)
                    missing = [p for p in required[off:] if p not in provided]
                    missing += [p for p in kwreq if p not in provided]
                    if missing:
                        problem = 'does not pass required argument(s) %s of %s.%s' % (
                            missing, o.name, c.func.attr)
                    unknown = [k for k in kws if k not in pos and k not in kwonly]
                    if unknown and not kw:
                        problem = 'passes unknown keyword(s) %s to %s.%s' % (
                            unknown, o.name, c.func.attr)
                if problem:
                    msg = '`%s` %s: TypeError whenever this line runs' % (unparse(c)[:80],
                                                                           problem)
                    if in_scope:
                        rep.violation('ARITY', ci.module, q, 'arity:' + c.func.attr, msg,
                                      c.lineno)
                    else:
                        rep.note('arity (outside the save/load code, not a C17 verdict) %s:%d %s: '
                                 '%s' % (ci.module.relpath, c.lineno, q, msg))
    return total


def check_dispatch(prog, rep):
    m = prog.module(HIO)
    rep.unit(m)
    saver = m.cls('Hdf5Saver')
    loader = m.cls('Hdf5Loader')
    consts = {}
    for st in m.tree.body:
        if isinstance(st, ast.Assign) and isinstance(st.targets[0], ast.Name) and \
                st.targets[0].id.startswith('REPR_') and isinstance(st.value, ast.Constant):
            consts[st.targets[0].id] = st.value.value
    if len(consts) < 20:
        raise AnalysisError('hdf5_io: REPR_ constants not found')
    dataset_reprs = set()
    for st in m.tree.body:
        if isinstance(st, ast.Assign) and unparse(st.targets[0]) == 'TYPES_FOR_HDF5_DATASETS':
            for n in ast.walk(st.value):
                if isinstance(n, ast.Name) and n.id in consts:
                    dataset_reprs.add(n.id)
    saved = set(dataset_reprs)
    save_funcs = {}
    for st in saver.body:
        if isinstance(st, ast.Assign) and isinstance(st.targets[0], ast.Subscript) and \
                dotted(st.targets[0].value) == 'dispatch_save' and isinstance(st.value, ast.Tuple):
            fn, rp = st.value.elts
            if isinstance(rp, ast.Name):
                saved.add(rp.id)
            save_funcs[fn.id] = True
        if isinstance(st, (ast.If, ast.For)):
            for s2 in ast.walk(st):
                if isinstance(s2, ast.Assign) and isinstance(s2.targets[0], ast.Subscript) and \
                        dotted(s2.targets[0].value) == 'dispatch_save' and isinstance(
                            s2.value, ast.Tuple) and isinstance(s2.value.elts[1], ast.Name):
                    if s2.value.elts[1].id in consts:
                        saved.add(s2.value.elts[1].id)
                    save_funcs[s2.value.elts[0].id] = True
    # constants assigned to attrs[ATTR_TYPE] or type_repr or returned, anywhere in the saver
    for n in ast.walk(saver):
        if isinstance(n, ast.Assign):
            t = unparse(n.targets[0])
            if ('attrs[ATTR_TYPE]' in t or t == 'type_repr') and isinstance(
                    n.value, ast.Name) and n.value.id in consts:
                saved.add(n.value.id)
        if isinstance(n, ast.Return) and isinstance(n.value, ast.Name) and n.value.id in consts:
            saved.add(n.value.id)
        if isinstance(n, ast.Call) and dotted(n.func) in ('self.save_global', 'self.save_iterable'):
            for a in n.args:
                if isinstance(a, ast.Name) and a.id in consts:
                    saved.add(a.id)
    loaded = set()
    uses_dataset_table = False
    for st in loader.body:
        for s2 in ast.walk(st):
            if isinstance(s2, ast.Assign) and isinstance(s2.targets[0], ast.Subscript) and \
                    dotted(s2.targets[0].value) == 'dispatch_load':
                k = s2.targets[0].slice
                if isinstance(k, ast.Name) and k.id in consts:
                    loaded.add(k.id)
        if isinstance(st, ast.For) and 'TYPES_FOR_HDF5_DATASETS' in unparse(st.iter):
            uses_dataset_table = True
    if uses_dataset_table:
        loaded |= dataset_reprs
    for r in sorted(saved):
        rep.instance('HDF5-dispatch', {'repr': r, 'loadable': r in loaded})
        if r not in loaded and r != 'REPR_IGNORED':
            rep.violation('HDF5-dispatch', m, 'Hdf5Loader', 'no-loader:' + r,
                          'objects saved with type %s (%r) have no entry in '
                          'Hdf5Loader.dispatch_load: they cannot be loaded back' % (r, consts[r]),
                          loader.lineno)
    # both tables built from the same dataset type table
    svr_uses = any(isinstance(st, ast.For) and 'TYPES_FOR_HDF5_DATASETS' in unparse(st.iter)
                   for st in saver.body)
    rep.instance('HDF5-dispatch', {'dataset_table_shared': svr_uses and uses_dataset_table})
    if not (svr_uses and uses_dataset_table):
        rep.violation('HDF5-dispatch', m, 'Hdf5Saver', 'dataset-table',
                      'save and load dispatch for plain datasets must both be generated from '
                      'TYPES_FOR_HDF5_DATASETS', saver.lineno)
    # memo discipline: savers
    for st in saver.body:
        if isinstance(st, ast.FunctionDef) and st.name in save_funcs and st.name != 'save_ignored':
            q = 'Hdf5Saver.' + st.name
            rep.instance('HDF5-memo-save', {'function': q})
            cfg = CFG(st)

            def memo(n):
                return n.stmt is not None and not isinstance(
                    n.stmt, (ast.If, ast.For, ast.While, ast.Try)) and any(
                        isinstance(c, ast.Call) and dotted(c.func) in (
                            'self.memorize_save', 'self.create_group_for_obj')
                        for c in ast.walk(n.stmt))
            r = cfg.reachable_from([cfg.entry], blocked=memo)
            if cfg.exit in r:
                rep.violation('HDF5-memo-save', m, q, 'not-memorized',
                              'a path through %s does not memorize the saved object: objects '
                              'shared by reference are duplicated in the file and no longer '
                              'shared after loading' % st.name, st.lineno)
    # Hdf5Saver.save consults the memo first
    sv = m.func('Hdf5Saver.save')
    rep.instance('HDF5-memo-save', {'function': 'Hdf5Saver.save'})
    first_if = [s for s in sv.body if isinstance(s, ast.If)]
    ok = bool(first_if) and 'in_memo' in unparse(first_if[0].test) and any(
        isinstance(b, ast.Return) for b in first_if[0].body) and \
        'self.memo_save.get' in unparse(sv)
    if ok:
        # before dispatch
        disp = [s for s in sv.body if 'self.dispatch_save' in unparse(s)]
        ok = not disp or first_if[0].lineno < disp[0].lineno
    if not ok:
        rep.violation('HDF5-memo-save', m, 'Hdf5Saver.save', 'memo-not-consulted',
                      'save() must return the already saved group for an object found in '
                      'memo_save before dispatching', sv.lineno)
    # memo identity: memorize_save keeps a reference to obj (ids of dead objects get reused)
    ms = m.func('Hdf5Saver.memorize_save')
    rep.instance('HDF5-memo-save', {'function': 'Hdf5Saver.memorize_save'})
    okm = False
    for st in stmts_of(ms):
        if isinstance(st, ast.Assign) and 'self.memo_save[' in unparse(st.targets[0]) and \
                isinstance(st.value, ast.Tuple) and any(
                    isinstance(e, ast.Name) and e.id == params(ms)[2] for e in st.value.elts):
            okm = True
    if not okm:
        rep.violation('HDF5-memo-save', m, 'Hdf5Saver.memorize_save', 'memo-no-reference',
                      'memo_save must store (h5gr, obj): without keeping obj alive its id() can '
                      'be reused by another object, which is then saved as a link to wrong data',
                      ms.lineno)
    # loaders
    late_ok = {'load_tuple', 'load_range', 'load_dtype', 'load_reduce', 'load_masked_array',
               'load_dataset', 'load_str', 'load_converted_to_str', 'load_global', 'load_none'}
    for st in loader.body:
        if isinstance(st, ast.FunctionDef) and st.name.startswith('load_') and st.name not in (
                'load_ignored', 'load_dict', 'load_hdf5exportable'):
            q = 'Hdf5Loader.' + st.name
            rep.instance('HDF5-memo-load', {'function': q})
            cfg = CFG(st)

            def memo(n):
                return n.stmt is not None and not isinstance(
                    n.stmt, (ast.If, ast.For, ast.While, ast.Try)) and any(
                        (isinstance(c, ast.Call) and dotted(c.func) == 'self.memorize_load') or
                        (isinstance(c, ast.Subscript) and dotted(c.value) == 'self.memo_load' and
                         isinstance(c.ctx, ast.Store)) for c in ast.walk(n.stmt))

            def is_plain_return(n):
                return False
            # every normal exit that returns a real object passes memorize_load, except early
            # returns of Hdf5Ignored (unknown class)
            bad = False
            r = cfg.reachable_from([cfg.entry], blocked=lambda n: memo(n) or (
                isinstance(n.stmt, ast.Return) and 'Hdf5Ignored' in unparse(n.stmt)))
            if cfg.exit in r:
                bad = True
            if bad:
                rep.violation('HDF5-memo-load', m, q, 'not-memorized',
                              'a path through %s returns an object without memorize_load: '
                              'objects saved once and referenced twice are loaded as two '
                              'independent copies' % st.name, st.lineno)
            if st.name not in late_ok:
                # mutable containers: memorize before the first recursive load (cycles)
                loads = [s for s in stmts_of(st) if not isinstance(s, (ast.For, ast.If)) and any(
                    isinstance(c, ast.Call) and dotted(c.func) in (
                        'self.load', 'self.load_list') for c in ast.walk(s))]
                for s in loads[:1]:
                    if not cfg.dominators_like_before(s, memo):
                        rep.violation('HDF5-memo-load', m, q, 'memorized-late',
                                      '%s loads its content before memorizing the container: a '
                                      'self-referential container recurses forever / loses the '
                                      'cycle' % st.name, s.lineno)
    # memo must hold the object that is returned: memorize_load() is a setdefault and cannot
    # replace an earlier entry; after re-binding the object the entry must be overwritten
    ml = m.func('Hdf5Loader.memorize_load')
    is_setdefault = 'setdefault' in unparse(ml)
    for st in loader.body:
        if not (isinstance(st, ast.FunctionDef) and st.name.startswith('load_')):
            continue
        q = 'Hdf5Loader.' + st.name
        events = []
        for n in body_nodes(st):
            if isinstance(n, ast.Call) and dotted(n.func) == 'self.memorize_load' and \
                    len(n.args) == 2 and isinstance(n.args[1], ast.Name):
                events.append((n.lineno, 'memo', n.args[1].id, n))
            elif isinstance(n, ast.Assign) and isinstance(n.targets[0], ast.Subscript) and \
                    dotted(n.targets[0].value) == 'self.memo_load' and isinstance(
                        n.value, ast.Name):
                events.append((n.lineno, 'overwrite', n.value.id, n))
            elif isinstance(n, ast.Assign) and isinstance(n.targets[0], ast.Name):
                events.append((n.lineno, 'bind', n.targets[0].id, n))
        events.sort(key=lambda e: e[0])
        memo_of = {}
        version = {}
        for ln, kind, name, node in events:
            if kind == 'bind':
                version[name] = version.get(name, 0) + 1
            elif kind == 'overwrite':
                memo_of['v'] = (name, version.get(name, 0))
            elif kind == 'memo':
                rep.instance('HDF5-memo-version', {'function': q, 'call': unparse(node)})
                if 'v' in memo_of and is_setdefault and memo_of['v'] != (
                        name, version.get(name, 0)):
                    rep.violation(
                        'HDF5-memo-version', m, q, 'ineffective-rememorize:' + name,
                        '`%s` comes after an earlier memo entry for the same group, but '
                        'memorize_load() is a setdefault: the memo keeps the earlier object (%s, '
                        're-bound since), so later references to this group load a different '
                        'object than the one returned' % (unparse(node), memo_of['v'][0]),
                        node.lineno)
                elif 'v' not in memo_of:
                    memo_of['v'] = (name, version.get(name, 0))
    # load() consults memo before dispatch
    ld = m.func('Hdf5Loader.load')
    rep.instance('HDF5-memo-load', {'function': 'Hdf5Loader.load'})
    src = unparse(ld)
    if 'self.memo_load.get(h5gr.id)' not in src or src.index('self.memo_load.get') > src.index(
            'self.dispatch_load.get'):
        rep.violation('HDF5-memo-load', m, 'Hdf5Loader.load', 'memo-not-consulted',
                      'load() must look up memo_load (by h5gr.id) before dispatching', ld.lineno)


def _memoizing_loaders(prog):
    """methods of Hdf5Loader that enter an object for the group they are given: they call
    self.memorize_load(<own first group parameter>, ..) or pass that parameter on to such a method"""
    m = prog.module(HIO)
    meths = {q.split('.', 1)[1]: f for q, f in m.functions.items()
             if q.startswith('Hdf5Loader.') and q.count('.') == 1}
    out = set()
    changed = True
    while changed:
        changed = False
        for name, f in meths.items():
            pm = params(f)
            if name in out or len(pm) < 2 or name in ('memorize_load', 'load'):
                continue
            g = pm[1]
            for c in ast.walk(f):
                if isinstance(c, ast.Call) and isinstance(c.func, ast.Attribute) and \
                        isinstance(c.func.value, ast.Name) and c.func.value.id == 'self' and \
                        (c.func.attr == 'memorize_load' or c.func.attr in out) and c.args and \
                        isinstance(c.args[0], ast.Name) and c.args[0].id == g:
                    out.add(name)
                    changed = True
                    break
    return out


def check_from_hdf5_memo(prog, rep):
    """every from_hdf5 in the package memorizes the object it builds (sharing)."""
    ct = prog.classtable()
    memoizing = _memoizing_loaders(prog)
    if 'load_dict' not in memoizing or 'load_list' not in memoizing:
        raise AnalysisError('Hdf5Loader: load_dict / load_list no longer memorize their group')
    for ci in ct.all:
        f = ci.methods.get('from_hdf5')
        if f is None:
            continue
        q = ci.name + '.from_hdf5'
        rep.instance('HDF5-memo-from', {'function': q})
        src = unparse(f)
        if 'super().from_hdf5(' in src:
            continue
        pm = params(f)
        cfg = CFG(f)

        def memo(n):
            return n.stmt is not None and any(
                isinstance(c, ast.Call) and isinstance(c.func, ast.Attribute) and
                c.func.attr == 'memorize_load' for c in ast.walk(n.stmt)) and not isinstance(
                    n.stmt, (ast.If, ast.For, ast.While))
        r = cfg.reachable_from([cfg.entry], blocked=memo)
        if cfg.exit in r:
            rep.violation('HDF5-memo-from', ci.module, q, 'not-memorized',
                          '%s can return without hdf5_loader.memorize_load(h5gr, obj): shared '
                          'instances are no longer shared after loading' % q, f.lineno)
        # a loader method that memorizes the group it is given (load_dict, load_list, ..) enters
        # ITS result for this very group; memorize_load is a setdefault, so the object built here
        # must be entered before such a call on the own group, or the memo keeps the bare container
        grp = pm[2] if len(pm) > 2 else 'h5gr'
        for n in cfg.nodes:
            if n.stmt is None or isinstance(n.stmt, (ast.If, ast.For, ast.While)):
                continue
            for c in ast.walk(n.stmt):
                if isinstance(c, ast.Call) and isinstance(c.func, ast.Attribute) and \
                        c.func.attr in memoizing and c.args and isinstance(c.args[0], ast.Name) \
                        and c.args[0].id == grp:
                    rep.instance('HDF5-memo-from', {'function': q, 'call': unparse(c)[:80]})
                    if not cfg.dominators_like_before(n.stmt, memo):
                        rep.violation(
                            'HDF5-memo-from', ci.module, q, 'memo-shadowed:' + c.func.attr,
                            '`%s` memorizes its own result for the group `%s` before %s has '
                            'entered the object it builds; memorize_load() keeps the first '
                            'entry, so a second reference to the saved object loads as the bare '
                            'container instead of the %s' % (unparse(c)[:70], grp, q, ci.name),
                            c.lineno)


def check_save_reduce(prog, rep):
    m = prog.module(HIO)
    from ..normal import unroll_literal_loops
    f = unroll_literal_loops(m.func('Hdf5Saver.save_reduce'))   # a loop over a (key, value) table
    g = m.func('Hdf5Loader.load_reduce')
    read_keys = set()
    for c in body_nodes(g):
        if isinstance(c, ast.Call) and dotted(c.func) == 'self.load' and c.args:
            a = c.args[0]
            if isinstance(a, ast.BinOp) and isinstance(a.right, ast.Constant):
                read_keys.add(a.right.value)
    written = {}
    for st in stmts_of(f):
        for c in ast.walk(st) if not isinstance(st, ast.If) else []:
            if isinstance(c, ast.Call) and dotted(c.func) == 'self.save' and len(c.args) == 2:
                a = c.args[1]
                if isinstance(a, ast.BinOp) and isinstance(a.right, ast.Constant):
                    key = a.right.value
                    val = c.args[0]
                    written[key] = val
                    # guard
                    p = parent(st)
                    guard = None
                    if isinstance(p, ast.If) and isinstance(p.test, ast.Compare) and isinstance(
                            p.test.ops[0], ast.IsNot):
                        guard = unparse(p.test.left)
                    rep.instance('HDF5-reduce', {'key': key, 'value': unparse(val), 'guard': guard})
                    if isinstance(val, ast.Name) and val.id != key:
                        rep.violation('HDF5-reduce', m, 'Hdf5Saver.save_reduce',
                                      'wrong-value:' + key,
                                      'under key %r the saver stores `%s`; load_reduce uses this '
                                      'key as the `%s` element of the __reduce__ tuple: objects '
                                      'saved through the pickle-protocol fallback are rebuilt '
                                      'from the wrong data' % (key, val.id, key), st.lineno)
                    elif guard is not None and guard != (val.id if isinstance(val, ast.Name)
                                                         else ''):
                        rep.violation('HDF5-reduce', m, 'Hdf5Saver.save_reduce',
                                      'guard-mismatch:' + key,
                                      'the value saved under %r is guarded by `%s is not None` '
                                      'but is `%s`' % (key, guard, unparse(val)), st.lineno)
    for k in sorted(read_keys):
        rep.instance('HDF5-reduce', {'read_key': k, 'written': k in written})
        if k not in written:
            rep.violation('HDF5-reduce', m, 'Hdf5Loader.load_reduce', 'unwritten:' + k,
                          'load_reduce reads key %r that save_reduce never writes' % k, g.lineno)
    for k in ('func', 'args'):
        if k not in written:
            rep.violation('HDF5-reduce', m, 'Hdf5Saver.save_reduce', 'missing:' + k,
                          'save_reduce must save %r' % k, f.lineno)


def check_optional_deref(prog, rep):
    """An attribute set from a parameter with default None (not normalised) and tested against
    None somewhere in the class must not be subscripted unconditionally in save_hdf5."""
    ct = prog.classtable()
    for ci in ct.all:
        f = ci.methods.get('save_hdf5')
        init = ci.methods.get('__init__')
        if f is None or init is None:
            continue
        defaults = param_defaults(init)
        none_params = {p for p, d in defaults.items() if isinstance(d, ast.Constant) and
                       d.value is None}
        maybe_none = set()
        for st in stmts_of(init):
            if isinstance(st, ast.Assign) and len(st.targets) == 1 and is_self_attr(
                    st.targets[0]) and isinstance(st.value, ast.Name) and \
                    st.value.id in none_params:
                # normalised before? (`if p is None: p = ...` rebinding p unconditionally)
                nm = st.value.id
                normalised = False
                for s2 in stmts_of(init):
                    if s2.lineno >= st.lineno:
                        break
                    if isinstance(s2, ast.If) and unparse(s2.test) == '%s is None' % nm and any(
                            isinstance(b, ast.Assign) and unparse(b.targets[0]) == nm
                            for b in s2.body):
                        normalised = True
                if not normalised:
                    maybe_none.add(st.targets[0].attr)
        for attr in sorted(maybe_none):
            for n in body_nodes(f):
                if isinstance(n, ast.Subscript) and is_self_attr(n.value, attr):
                    rep.instance('HDF5-optional-deref', {'class': ci.name, 'attr': attr})
                    guarded = False
                    p = parent(n)
                    while p is not None and p is not f:
                        if isinstance(p, ast.If) and ('self.%s is not None' % attr) in unparse(
                                p.test):
                            guarded = True
                        p = parent(p)
                    if not guarded:
                        rep.violation('HDF5-optional-deref', ci.module, ci.name + '.save_hdf5',
                                      'deref-None:' + attr,
                                      '`%s` subscripts self.%s, which __init__ leaves None for the '
                                      'default argument: saving such an object raises TypeError' %
                                      (unparse(n), attr), n.lineno)


def check_new_typestate(prog, rep):
    """from_hdf5 builds obj with cls.__new__(cls); a method called on obj before an attribute it
    reads is assigned raises AttributeError. Resolved in the cone of the class (cls may be a
    subclass whose override reads more)."""
    ct = prog.classtable()
    for ci in ct.all:
        f = ci.methods.get('from_hdf5')
        if f is None or 'cls.__new__(cls)' not in unparse(f):
            continue
        objname = None
        for st in stmts_of(f):
            if isinstance(st, ast.Assign) and unparse(st.value) == 'cls.__new__(cls)':
                objname = unparse(st.targets[0])
        if objname is None:
            continue
        assigned = set()
        for st in stmts_of(f):
            for t in ([st.targets[0]] if isinstance(st, ast.Assign) else []):
                for tt in (t.elts if isinstance(t, ast.Tuple) else [t]):
                    if isinstance(tt, ast.Attribute) and dotted(tt.value) == objname:
                        assigned.add(tt.attr)
                        setter = _property_setter(ci, tt.attr)
                        if setter is not None:   # `obj.order = ..` runs the setter
                            assigned |= _attr_writes(ct, ci, setter)
            # method calls on obj (skip sanity check: it runs last and reads everything)
            for c in ast.walk(st) if not isinstance(st, (ast.If, ast.For)) else []:
                if isinstance(c, ast.Call) and isinstance(c.func, ast.Attribute) and \
                        dotted(c.func.value) == objname and c.func.attr in (
                            '__setstate__', '__init__'):
                    o, callee = ct.resolve_method(ci, c.func.attr)
                    if callee is not None:
                        assigned |= _attr_writes(ct, ci, callee)
                if isinstance(c, ast.Call) and isinstance(c.func, ast.Attribute) and \
                        dotted(c.func.value) == objname and c.func.attr not in (
                            '__setstate__', '__init__'):
                    for sub in ct.cone(ci):
                        if not _loader_reaches(ct, sub, f):
                            continue
                        o, callee = ct.resolve_method(sub, c.func.attr)
                        if callee is None:
                            continue
                        reads = _attr_reads_before_write(ct, sub, callee)
                        # attributes assigned in the class body / properties are always there
                        missing = sorted(a for a in reads if a not in assigned and
                                         not _class_has(ct, sub, a))
                        rep.instance('HDF5-new-typestate', {
                            'loader': ci.name + '.from_hdf5', 'cls': sub.name,
                            'call': c.func.attr, 'callee': o.name + '.' + c.func.attr})
                        if missing:
                            rep.violation(
                                'HDF5-new-typestate', o.module, '%s.%s' % (o.name, c.func.attr),
                                'reads-unset:%s:%s' % (sub.name, ','.join(missing)),
                                'when loading a %s, %s.from_hdf5 calls obj.%s() -> %s.%s, which '
                                'reads self.%s before the loader has assigned it (object made by '
                                '__new__): AttributeError on every load' %
                                (sub.name, ci.name, c.func.attr, o.name, c.func.attr,
                                 ', self.'.join(missing)), callee.lineno)
                        # what the call assigns
                    o, callee = ct.resolve_method(ci, c.func.attr)
                    if callee is not None:
                        assigned |= _attr_writes(ct, ci, callee)


def _property_setter(ci, name):
    for k in ci.mro:
        for st in k.node.body:
            if isinstance(st, ast.FunctionDef) and st.name == name and any(
                    unparse(d) == name + '.setter' for d in st.decorator_list):
                return st
    return None


def _loader_reaches(ct, sub, f):
    """does loading an instance of `sub` run the from_hdf5 implementation `f` (directly or
    through a chain of super().from_hdf5 calls)?"""
    o, g = ct.resolve_method(sub, 'from_hdf5')
    seen = 0
    while g is not None and seen < 10:
        if g is f:
            return True
        if 'super().from_hdf5(' not in unparse(g):
            return False
        o, g = ct.resolve_method(sub, 'from_hdf5', after=o)
        seen += 1
    return False


def _attr_writes(ct, cls, func, depth=0):
    out = set()
    for n in ast.walk(func):
        if isinstance(n, ast.Attribute) and isinstance(n.ctx, ast.Store) and is_self_attr(n):
            out.add(n.attr)
    if depth < 3:
        for c in body_nodes(func):
            if isinstance(c, ast.Call) and isinstance(c.func, ast.Attribute):
                v = c.func.value
                if isinstance(v, ast.Name) and v.id == 'self':
                    o, f2 = ct.resolve_method(cls, c.func.attr)
                    if f2 is not None and f2 is not func:
                        out |= _attr_writes(ct, cls, f2, depth + 1)
                elif isinstance(v, ast.Call) and dotted(v.func) == 'super':
                    ow = _owner_of(ct, func)
                    if ow is not None and ow in cls.mro:
                        o, f2 = ct.resolve_method(cls, c.func.attr, after=ow)
                        if f2 is not None:
                            out |= _attr_writes(ct, cls, f2, depth + 1)
    return out


def _attr_reads_before_write(ct, cls, func, depth=0):
    """self attributes read in func (and self/super callees) before being written there;
    line-order approximation inside straight-line code, conservative: a read counts only if no
    earlier (by line) write to the same attribute exists in the same function."""
    reads = set()
    events = []
    for n in body_nodes(func):
        if isinstance(n, ast.Attribute) and is_self_attr(n):
            events.append((n.lineno, n.col_offset, 'w' if isinstance(n.ctx, ast.Store) else 'r',
                           n.attr, n))
        elif isinstance(n, ast.Call) and isinstance(n.func, ast.Attribute):
            v = n.func.value
            if isinstance(v, ast.Call) and dotted(v.func) == 'super':
                events.append((n.lineno, n.col_offset, 'super', n.func.attr, n))
            elif isinstance(v, ast.Name) and v.id == 'self':
                events.append((n.lineno, n.col_offset, 'self', n.func.attr, n))
    written = set()
    for ln, col, kind, name, node in sorted(events, key=lambda e: (e[0], e[1])):
        if kind == 'w':
            written.add(name)
        elif kind == 'r':
            # `self.m(...)` method reference is not a data attribute
            p = parent(node)
            if isinstance(p, ast.Call) and p.func is node:
                continue
            if isinstance(p, ast.Call) and dotted(p.func) in ('hasattr', 'getattr'):
                continue
            q = p
            while q is not None and not isinstance(q, ast.stmt):
                q = parent(q)
            if isinstance(q, ast.Raise):
                continue    # building the message of an error that is not raised on a good load
            if name not in written:
                reads.add(name)
        elif depth < 3:
            if kind == 'super':
                ow = _owner_of(ct, func)
                if ow is not None and ow in cls.mro:
                    o, f2 = ct.resolve_method(cls, name, after=ow)
                else:
                    f2 = None
            else:
                o, f2 = ct.resolve_method(cls, name)
            if f2 is not None and f2 is not func:
                sub = _attr_reads_before_write(ct, cls, f2, depth + 1)
                reads |= {a for a in sub if a not in written}
                written |= _attr_writes(ct, cls, f2, 3)
    return reads


def _class_has(ct, cls, attr):
    for c in cls.mro:
        if attr in c.methods:
            return True
        for st in c.node.body:
            if isinstance(st, ast.Assign) and any(
                    isinstance(t, ast.Name) and t.id == attr for t in st.targets):
                return True
            if isinstance(st, ast.AnnAssign) and isinstance(st.target, ast.Name) and \
                    st.target.id == attr:
                return True
    return False


def run(prog, rep, tier):
    rep.rule('HDF5-pair/keys/field/restore', 'per exportable class (discovered by reflection over '
             'the class table) the keys from_hdf5 reads unconditionally are written by save_hdf5 on '
             'every compatible branch (format-sensitive, super() inlined), and a key saved from '
             'self.X is restored into .X')
    rep.rule('HDF5-state-tuple', '__getstate__ tuple and __setstate__ unpacking agree in arity '
             'and field order')
    rep.rule('ARITY', 'exactly resolved self/super/__new__-object calls pass arguments the callee '
             'accepts')
    rep.rule('HDF5-dispatch / memo-*', 'every type tag a saver can write has a loader; savers and '
             'loaders memorize objects (sharing, cycles)')
    rep.rule('HDF5-reduce', 'pickle-protocol fallback: value saved under a key is the parameter '
             'of that name; reader keys are written')
    rep.rule('HDF5-optional-deref / new-typestate', 'None-default attributes are not subscripted '
             'unconditionally when saving; methods called on a __new__ object during loading '
             'only read attributes already assigned')
    check_pairs_and_keys(prog, rep, tier)
    check_state_tuples(prog, rep)
    n = check_arity(prog, rep, tier)
    check_dispatch(prog, rep)
    check_from_hdf5_memo(prog, rep)
    check_masked_compact(prog, rep)
    if check_independent_parts(prog, rep) < 2:
        raise AnalysisError('HDF5-reduce: the two parts of the pickle state in load_reduce not found')
    check_path_component(prog, rep)
    if check_ctor_roles(prog, rep) < 5:
        raise AnalysisError('HDF5-ctor-roles: fewer than 5 constructor arguments resolved')
    check_save_reduce(prog, rep)
    check_optional_deref(prog, rep)
    check_new_typestate(prog, rep)
    rep.floor('HDF5-pair', 40)
    rep.floor('HDF5-keys', 15)
    rep.floor('HDF5-field', 30)
    rep.floor('HDF5-state-tuple', 3)
    rep.floor('ARITY', 20)
    rep.floor('HDF5-dispatch', 15)
    rep.floor('HDF5-reduce', 6)
    rep.assumptions += ['h5py stores and returns numerical payloads faithfully (not decided)',
                        'method resolution by statically computed MRO; super() resolved on the '
                        'defining class']
    from ..flow import check_dead_computations
    rep.rule('VALUE-dead', 'no result of a call is bound to a local that is never read (reaching '
             'definitions)')
    check_dead_computations(prog, rep, ['tenpy/tools/hdf5_io.py'])
    from ..flow import check_undefined_attrs
    rep.rule('ATTR-defined', 'every self.X read names an attribute bound somewhere in the class family')
    check_undefined_attrs(prog, rep, ['tenpy/tools/hdf5_io.py'])
    if check_root_memo_and_config(prog, rep) < 2:
        raise AnalysisError('HDF5-memo-save / HDF5-field(Config): anchors not found')
    rep.rule('HDF5-inherited-loader', 'attributes bound by the __init__ of a class that inherits an '
             'attribute-wise from_hdf5 are restored by the loader chain')
    if check_inherited_loader(prog, rep) < 10:
        raise AnalysisError('HDF5-inherited-loader: fewer than 10 classes with attribute-wise loaders')
    rep.rule('HDF5-no-overwrite', 'a loader that delegates to super().from_hdf5 does not re-derive an '
             'attribute the super loader restored from the file')
    if check_loader_overwrite(prog, rep) < 2:
        raise AnalysisError('HDF5-no-overwrite: fewer than 2 delegating from_hdf5 overrides')
    rep.rule('HDF5-empty-safe', 'single rows of arrays loaded from the file are only read under a '
             'length condition (legs without blocks)')
    check_loaded_array_ends(prog, rep)
    if check_save_reductions(prog, rep) < 2:
        raise AnalysisError('HDF5-empty-safe: reductions in save_hdf5 of MPS / MPO not found')
    from ..flow import check_state_derived_agree
    rep.rule('STATE-derived-agree', '__setstate__ derives attributes by the same expressions as '
             '__init__ where both start from the same inputs')
    check_state_derived_agree(prog, rep, ['tenpy/linalg/charges.py', 'tenpy/linalg/np_conserved.py',
                                          'tenpy/tools/params.py'])
    return rep.finish(
        level='other',
        explanation='Writer/reader agreement for every class offering HDF5 export (%d classes '
        'discovered on this run), state-tuple agreement, call arity on the save/load code, '
        'dispatch-table and memo discipline, decided on the current source. Equality of loaded '
        'numerical payloads is not decided.' % rep.extra.get('hdf5_classes', 0))


# ------------------------------------------------------------------ from_hdf5 via the constructor
def _influence(ct, ci, f, tainted, depth=0, seen=None):
    """attributes of self whose value (or whether they are set) depends on the parameters in
    `tainted`: data dependence through locals, control dependence through enclosing tests, and
    calls of methods of self / base-class constructors (flow-insensitive over-approximation)."""
    from ..pattern import guards_at
    seen = seen if seen is not None else set()
    key = (ci.name, id(f), tuple(sorted(tainted)))
    if key in seen or depth > 3:
        return set()
    seen.add(key)
    taint = set(tainted)
    attrs = set()

    def mentions(e):
        return any(isinstance(n, ast.Name) and n.id in taint for n in ast.walk(e))

    def guarded(node):
        return any(mentions(e) for _, _, e in guards_at(f, node))
    changed = True
    while changed:
        changed = False
        for st in stmts_of(f):
            if isinstance(st, (ast.Assign, ast.AugAssign, ast.AnnAssign)):
                val = st.value
                if val is None:
                    continue
                hot = mentions(val) or guarded(st)
                for t in assigned_targets(st):
                    base = t
                    while isinstance(base, ast.Subscript):
                        base = base.value
                    if isinstance(base, ast.Name) and hot and base.id not in taint:
                        taint.add(base.id)
                        changed = True
                    elif is_self_attr(base) and hot and base.attr not in attrs:
                        attrs.add(base.attr)
                        changed = True
            elif isinstance(st, ast.For) and mentions(st.iter):
                for n in ast.walk(st.target):
                    if isinstance(n, ast.Name) and n.id not in taint:
                        taint.add(n.id)
                        changed = True
    for c in body_nodes(f):
        if not isinstance(c, ast.Call) or not isinstance(c.func, ast.Attribute):
            continue
        callee = None
        skip = True
        recv = c.func.value
        if isinstance(recv, ast.Name) and recv.id == 'self':
            _, callee = ct.resolve_method(ci, c.func.attr)
        elif isinstance(recv, ast.Call) and call_name(recv) == 'super':
            owner = [k for k in ci.mro if f in k.methods.values()]
            _, callee = ct.resolve_method(ci, c.func.attr, after=owner[0] if owner else ci)
        elif isinstance(recv, ast.Name) and ct.lookup(recv.id, ci.module) is not None and \
                c.args and isinstance(c.args[0], ast.Name) and c.args[0].id == 'self':
            bi = ct.lookup(recv.id, ci.module)
            _, callee = ct.resolve_method(bi, c.func.attr)
            skip = False
        if callee is None:
            continue
        pn = params(callee)
        if guarded(c):
            sub = set(pn) | {'__all__'}
        else:
            ba = bound_args(c, callee, skip_self=skip)
            sub = {p for p, v in ba.items() if mentions(v)}
        if sub:
            attrs |= _influence(ct, ci, callee, sub, depth + 1, seen)
    if '__all__' in tainted:
        for st in stmts_of(f):
            for t in assigned_targets(st):
                base = t
                while isinstance(base, ast.Subscript):
                    base = base.value
                if is_self_attr(base):
                    attrs.add(base.attr)
    return attrs


def _strip_conv(e):
    while isinstance(e, ast.Call) and call_name(e) in ('int', 'bool', 'float', 'str', 'tuple',
                                                       'list') and len(e.args) == 1:
        e = e.args[0]
    return e


def check_ctor_roles(prog, rep):
    """HDF5-ctor-roles: a from_hdf5 that rebuilds the object with `cls(...)` hands every loaded
    value to the constructor parameter that determines the attribute the writer saved under that
    key (key -> attribute from save_hdf5 along the MRO; parameter -> attributes by data/control
    dependence through __init__ and its helpers)."""
    ct = prog.classtable()
    n = 0
    todo = []
    for ci in ct.all:
        f0 = ci.methods.get('from_hdf5')
        if f0 is None:
            continue
        # the loader itself and private classmethod helpers it calls (`cls._helper(..)`)
        cands = [f0] + [ci.methods[c.func.attr] for c in body_nodes(f0) if isinstance(c, ast.Call)
                        and isinstance(c.func, ast.Attribute) and unparse(c.func.value) == 'cls'
                        and c.func.attr in ci.methods and c.func.attr.startswith('_')]
        for f in cands:
            todo.append((ci, f))
    for ci, f in todo:
        calls = [c for c in body_nodes(f) if isinstance(c, ast.Call) and
                 isinstance(c.func, ast.Name) and c.func.id == 'cls']
        if not calls:
            continue
        _, init = ct.resolve_method(ci, '__init__')
        if init is None:
            continue
        # writer: key -> attribute
        wkey = {}
        from ..normal import unroll_literal_loops

        def self_attr_of(e):
            if is_self_attr(e):
                return e.attr
            if isinstance(e, ast.Call) and call_name(e) == 'getattr' and len(e.args) == 2 and \
                    unparse(e.args[0]) == 'self' and isinstance(e.args[1], ast.Constant):
                return e.args[1].value
            return None
        for k in ci.mro:
            sv = k.methods.get('save_hdf5')
            if sv is None:
                continue
            sv = inline_temps(unroll_literal_loops(sv))
            for st in stmts_of(sv):
                if isinstance(st, ast.Assign) and isinstance(st.targets[0], ast.Subscript) and \
                        unparse(st.targets[0].value).endswith('.attrs') and isinstance(
                            st.targets[0].slice, ast.Constant) and self_attr_of(st.value):
                    wkey.setdefault(st.targets[0].slice.value, self_attr_of(st.value))
                for c in ast.walk(st):
                    if isinstance(c, ast.Call) and isinstance(c.func, ast.Attribute) and \
                            c.func.attr == 'save' and len(c.args) == 2 and self_attr_of(
                                c.args[0]) and isinstance(c.args[1], ast.BinOp) and isinstance(
                                    c.args[1].right, ast.Constant):
                        wkey.setdefault(c.args[1].right.value, self_attr_of(c.args[0]))
        # reader: local -> key (or the loading expression itself, on the normal form)
        def key_of(v):
            v = _strip_conv(v)
            if isinstance(v, ast.Call) and isinstance(v.func, ast.Attribute):
                if v.func.attr == 'get_attr' and len(v.args) == 2 and isinstance(
                        v.args[1], ast.Constant):
                    return v.args[1].value
                if v.func.attr == 'load' and len(v.args) == 1 and isinstance(
                        v.args[0], ast.BinOp) and isinstance(v.args[0].right, ast.Constant):
                    return v.args[0].right.value
            return None
        nf = inline_temps(f)
        calls = [c for c in body_nodes(nf) if isinstance(c, ast.Call) and
                 isinstance(c.func, ast.Name) and c.func.id == 'cls']
        rkey = {}
        for st in stmts_of(nf):
            if isinstance(st, ast.Assign) and len(st.targets) == 1 and isinstance(
                    st.targets[0], ast.Name) and key_of(st.value) is not None:
                rkey[st.targets[0].id] = key_of(st.value)
        for c in calls:
            for p, v in bound_args(c, init).items():
                v = _strip_conv(v)
                kk = rkey.get(v.id) if isinstance(v, ast.Name) else key_of(v)
                if kk is None or kk not in wkey:
                    continue
                attr = wkey[kk]
                v = ast.Name(id=kk, ctx=ast.Load())
                rkey[kk] = kk
                inf = _influence(ct, ci, init, {p})
                n += 1
                rep.instance('HDF5-ctor-roles', {'class': ci.name, 'key': rkey[v.id],
                                                 'saved_attribute': attr, 'parameter': p,
                                                 'determines': sorted(inf)[:12]})
                if attr not in inf:
                    rep.violation('HDF5-ctor-roles', ci.module, ci.name + '.from_hdf5',
                                  'role:%s->%s' % (rkey[v.id], p),
                                  'the value saved from `self.%s` under the key %r is passed to '
                                  'the constructor parameter `%s`, which does not determine '
                                  '`self.%s` (it determines %s): the loaded object differs from '
                                  'the saved one' % (attr, rkey[v.id], p, attr,
                                                     sorted(inf)[:8]), c.lineno)
    return n


def check_masked_compact(prog, rep):
    """HDF5-masked-compact: load_masked_array rebuilds the mask of the compact format as
    `filled == fill_value`; save_masked_array may choose that format only when this equals the
    mask for EVERY element (a universally quantified condition on the branch that writes
    saved_mask = False)."""
    from ..pattern import P, guards_of, pmatch
    m = prog.module(HIO)
    sv, ld = m.func('Hdf5Saver.save_masked_array'), m.func('Hdf5Loader.load_masked_array')
    rep.unit(m)
    # reader: how the mask is recomputed
    rd = [c for c in body_nodes(ld) if isinstance(c, ast.Call) and
          dotted(c.func) in ('np.ma.masked_equal', 'numpy.ma.masked_equal')]
    nf = inline_temps(sv)
    compact = [st for st in stmts_of(nf) if isinstance(st, ast.Assign) and isinstance(
        st.targets[0], ast.Subscript) and isinstance(st.targets[0].slice, ast.Constant) and
        st.targets[0].slice.value == 'saved_mask' and isinstance(st.value, ast.Constant) and
        st.value.value is False]
    if len(rd) != 1 or len(compact) != 1:
        raise AnalysisError('masked arrays: compact format reader / writer branch not found')
    gs = guards_of(nf, compact[0])
    forall = [(P('np.all($$a == $$b)'), True), (P('($$a == $$b).all()'), True),
              (P('np.array_equal($$a, $$b)'), True), (P('np.any($$a != $$b)'), False),
              (P('($$a != $$b).any()'), False)]
    ok = False
    for text, pol, e in gs:
        for pat, want in forall:
            env = pmatch(pat, e)
            if env and pol == want:
                sides = sorted([unparse(env['$$a']), unparse(env['$$b'])])
                if any('.mask' in s_ for s_ in sides) and any('fill_value' in s_ and '==' in s_
                                                              for s_ in sides):
                    ok = True
    rep.instance('HDF5-masked-compact', {'reader': unparse(rd[0])[:80],
                                         'writer_condition': [(t, p) for t, p, _ in gs]})
    if not ok:
        rep.violation('HDF5-masked-compact', m, 'Hdf5Saver.save_masked_array', 'not-forall',
                      'the compact format (data only; the reader recomputes the mask as `filled '
                      '== fill_value`) is chosen under %s, which does not state that this '
                      'equals the mask for every element: an unmasked element equal to '
                      'fill_value comes back masked' % [(t, p) for t, p, _ in gs],
                      compact[0].lineno)


def check_path_component(prog, rep):
    """HDF5-path-component: dict keys accepted as "simple" are used as `subpath + key`; the
    predicate must reject every string that does not name a fresh child ('' is the group itself,
    '.' too, anything with '/' is a deeper path) and non-strings. Decided by constant folding of
    the returned expression on literal witnesses."""
    from ..dtable import eval_test
    m = prog.module(HIO)
    f = m.functions.get('valid_hdf5_path_component')
    if f is None:
        raise AnalysisError('valid_hdf5_path_component not found')
    from ..dtable import run_paths, UNKNOWN
    pn = params(f)
    if len(pn) != 1:
        raise AnalysisError('valid_hdf5_path_component: expected one parameter')
    body = [s_ for s_ in f.body if not (isinstance(s_, ast.Expr) and isinstance(s_.value,
                                                                                ast.Constant))]
    witnesses = [('', True, False), ('.', True, False), ('a/b', True, False), ('/', True, False),
                 ('a', True, True), ('S z', True, True), (1, False, False), (None, False, False)]
    for w, is_str, want in witnesses:
        atoms = {'isinstance(%s, str)' % pn[0]: is_str}
        paths = [p_ for p_ in run_paths(body, atoms, env={pn[0]: w}) if p_.outcome == 'return']
        got = None
        if len(paths) == 1:
            v = paths[0].value
            if isinstance(v, ast.AST):
                got = eval_test(v, atoms, dict(paths[0].env))
            elif v is not UNKNOWN and v is not None:
                got = bool(v)
        rep.instance('HDF5-path-component', {'key': repr(w), 'accepted': got, 'expected': want})
        if got is None:
            raise AnalysisError('valid_hdf5_path_component: cannot fold the result for key %r '
                                '(%d return paths)' % (w, len(paths)))
        if got != want:
            rep.violation('HDF5-path-component', m, 'valid_hdf5_path_component',
                          'witness:%r' % (w, ),
                          'the key %r is %s as a simple key (saved under `subpath + key`), but '
                          '%s' % (w, 'accepted' if got else 'rejected',
                                  'it does not name a fresh child of the group: saving fails or '
                                  'overwrites' if got else 'it is a valid component'),
                          f.lineno)


def check_independent_parts(prog, rep):
    """HDF5-reduce (independent parts): load_reduce unpacks the pickle state `(dict_state,
    slot_state)`; each part is applied under a test of ITSELF only. A part handled under a test of
    the other one is lost whenever that other part is empty (purely slotted classes have an empty
    instance dict)."""
    from ..pattern import guards_of
    m = prog.module(HIO)
    f = m.func('Hdf5Loader.load_reduce')
    n = 0
    for st in stmts_of(f):
        if not (isinstance(st, ast.Assign) and len(st.targets) == 1 and isinstance(
                st.targets[0], ast.Tuple) and len(st.targets[0].elts) == 2 and all(
                    isinstance(e, ast.Name) for e in st.targets[0].elts)):
            continue
        a, b = [e.id for e in st.targets[0].elts]
        for this, other in ((a, b), (b, a)):
            uses = [lp for lp in ast.walk(f) if isinstance(lp, ast.For) and any(
                isinstance(x, ast.Name) and x.id == this for x in ast.walk(lp.iter)) and
                lp.lineno > st.lineno]
            for lp in uses:
                gs = guards_of(f, lp)
                dep = [t for t, pol, e in gs if pol and other in names_in(e) and
                       this not in names_in(e) and 'isinstance' not in t and 'len(' not in t]
                n += 1
                rep.instance('HDF5-reduce', {'function': 'Hdf5Loader.load_reduce',
                                             'part': this, 'applied_under': [t for t, _, _ in gs][-3:],
                                             'independent': not dep})
                if dep:
                    rep.violation('HDF5-reduce', m, 'Hdf5Loader.load_reduce',
                                  'part-under-other:%s:%s' % (this, other),
                                  'the `%s` part of the unpacked state is only applied when '
                                  '`%s` holds: for an object whose `%s` part is empty (a class '
                                  'with __slots__ and no instance dict) the `%s` part is dropped '
                                  'on load' % (this, dep[0], other, this), lp.lineno)
    return n


# ------------------------------------------------------------------ round-5: root memo, Config payload
def check_root_memo_and_config(prog, rep):
    """HDF5-memo-save (all paths): Hdf5Saver.create_group_for_obj memorizes the object on EVERY
    path to a return (CFG must-precede), the root path '/' included: the top-level object is the
    target of back references from its own content (cycles, parent pointers).
    HDF5-field (Config): Config.from_hdf5 assigns the loaded dict to `.options`; save_hdf5 therefore
    hands `self.options` itself to save_dict_content, not a converted copy (`as_dict()` turns nested
    Config objects into plain dicts: name / unused / sharing of sub-configs are lost)."""
    from ..cfg import CFG
    n = 0
    m = prog.module('tenpy/tools/hdf5_io.py')
    f = m.func('Hdf5Saver.create_group_for_obj')
    cfg = CFG(f)

    def memo(nd):
        st = nd.stmt
        return st is not None and not isinstance(st, (ast.If, ast.For, ast.While, ast.Try,
                                                      ast.With)) and any(
            isinstance(c, ast.Call) and unparse(c.func) == 'self.memorize_save'
            for c in ast.walk(st))
    for r in stmts_of(f):
        if isinstance(r, ast.Return):
            n += 1
            ok = cfg.dominators_like_before(r, memo)
            rep.instance('HDF5-memo-save', {'function': 'Hdf5Saver.create_group_for_obj',
                                            'return': key_text(r)[:50], 'memorized_before': ok})
            if not ok:
                rep.violation('HDF5-memo-save', m, 'Hdf5Saver.create_group_for_obj',
                              'return-without-memo', '`%s` is reached on a path that does not call '
                              'self.memorize_save(gr, obj): an object saved there is written again '
                              'when its own content refers back to it (identity of the top-level '
                              'object lost)' % key_text(r)[:50], r.lineno)
    m2 = prog.module('tenpy/tools/params.py')
    g = m2.func('Config.save_hdf5')
    for c in ast.walk(g):
        if isinstance(c, ast.Call) and isinstance(c.func, ast.Attribute) and \
                c.func.attr == 'save_dict_content' and c.args:
            n += 1
            ok = unparse(c.args[0]) == 'self.options'
            rep.instance('HDF5-field', {'class': 'Config', 'saved': unparse(c.args[0]),
                                        'restored_into': 'options', 'same_object': ok})
            if not ok:
                rep.violation('HDF5-field', m2, 'Config.save_hdf5', 'payload:' + unparse(c.args[0])[:30],
                              'Config.save_hdf5 writes `%s`, from_hdf5 puts what it reads into '
                              '`.options`: a converted copy loses nested Config objects (they come '
                              'back as plain dicts, not shared, without name / unused)'
                              % unparse(c.args[0])[:40], c.lineno)
    return n


# ------------------------------------------------------------------ HDF5-inherited-loader
def _inherited_loader_gaps(prog):
    ct = prog.classtable()
    hits = []
    n = 0
    for ci in ct.all:
        if not any('from_hdf5' in c.methods for c in ci.mro) or '__init__' not in ci.methods:
            continue
        # chain of from_hdf5 along the MRO
        chain = []
        for c in ci.mro:
            g = c.methods.get('from_hdf5')
            if g is not None:
                chain.append((c, g))
                if 'super()' not in unparse(g):
                    break
        if not chain:
            continue
        src = ' '.join(unparse(g) for _, g in chain)
        if '__dict__' in src or 'load_dict' in src or any(
                isinstance(x, ast.Call) and unparse(x.func) == 'cls' for _, g in chain for x in ast.walk(g)) \
                or any(_calls_ctor(g, ci) for _, g in chain):
            continue
        n += 1
        restored = set()
        called = set()
        wildcard = False
        for c, g in chain:
            for x in ast.walk(g):
                if isinstance(x, ast.Assign):
                    for t in x.targets:
                        if isinstance(t, ast.Attribute) and isinstance(t.value, ast.Name) and t.value.id in ('obj', 'res'):
                            restored.add(t.attr)
                if isinstance(x, ast.Call) and isinstance(x.func, ast.Attribute) and isinstance(x.func.value, ast.Name) and x.func.value.id in ('obj', 'res'):
                    called.add(x.func.attr)
                if isinstance(x, ast.Call) and unparse(x.func) == 'setattr' and len(x.args) >= 2 and isinstance(x.args[1], ast.Constant):
                    restored.add(x.args[1].value)
                elif isinstance(x, ast.Call) and unparse(x.func) == 'setattr' and len(x.args) >= 2:
                    # setattr(obj, name, ..) in `for name in cls._TABLE`: a class-level literal table
                    names_ = None
                    if isinstance(x.args[1], ast.Name):
                        for lp in ast.walk(g):
                            if isinstance(lp, ast.For) and isinstance(lp.target, ast.Name) and \
                                    lp.target.id == x.args[1].id and isinstance(lp.iter, ast.Attribute):
                                for k in ci.mro:
                                    for st_ in k.node.body:
                                        if isinstance(st_, ast.Assign) and unparse(
                                                st_.targets[0]) == lp.iter.attr and isinstance(
                                                    st_.value, (ast.Tuple, ast.List)) and all(
                                                        isinstance(e, ast.Constant)
                                                        for e in st_.value.elts):
                                            names_ = [e.value for e in st_.value.elts]
                    if names_ is None:
                        wildcard = True   # attribute names computed at run time: not decidable
                    else:
                        restored.update(names_)
        # attributes assigned by methods / property setters run on obj (closure depth 2)
        todo = list(called) + [a for a in restored]
        seen = set()
        while todo:
            nm = todo.pop()
            if nm in seen: continue
            seen.add(nm)
            fs = [c.methods.get(nm) for c in ci.mro if c.methods.get(nm) is not None]
            ps = _property_setter(ci, nm)
            if ps is not None:
                fs.append(ps)
            for f in fs:
                for x in ast.walk(f):
                    if isinstance(x, ast.Assign):
                        for t in x.targets:
                            if is_self_attr(t):
                                restored.add(t.attr)
                                todo.append(t.attr)   # (may be a property with a setter as well)
                    if isinstance(x, ast.Call) and isinstance(x.func, ast.Attribute) and unparse(x.func.value) == 'self':
                        todo.append(x.func.attr)
        init = ci.methods['__init__']
        own = set()
        for x in ast.walk(init):
            if isinstance(x, ast.Assign):
                for t in x.targets:
                    if is_self_attr(t): own.add(t.attr)
        # only if the class that defines from_hdf5 is a proper base (inherited loader)
        own_loader = chain[0][0] is ci
        base_bound = set()
        for c in ci.mro[1:]:
            for f in c.methods.values():
                for x in ast.walk(f):
                    if isinstance(x, ast.Assign):
                        for t in x.targets:
                            if is_self_attr(t): base_bound.add(t.attr)
        read_elsewhere = set()
        for nm, f in ci.methods.items():
            if nm == '__init__': continue
            for x in ast.walk(f):
                if is_self_attr(x) and isinstance(x.ctx, ast.Load): read_elsewhere.add(x.attr)
        miss = sorted((own - restored - base_bound) & read_elsewhere)
        if miss and not wildcard:
            hits.append((ci, miss, chain[0][0].name))
    return n, hits


def check_inherited_loader(prog, rep):
    """HDF5-inherited-loader: a class that INHERITS from_hdf5 (the loader builds the object with
    `cls.__new__` and assigns attribute by attribute; loaders going through `cls(..)` or a generic
    `__dict__` import are not concerned) but whose own __init__ binds further attributes that its
    other methods read, loads objects without these attributes. Every such attribute is assigned
    in the loader chain (directly, by setattr, or inside a method / property setter the loader runs
    on the object: closure over self-calls), or bound by a base class."""
    n, hits = _inherited_loader_gaps(prog)
    rep.instance('HDF5-inherited-loader', {'classes_with_attribute_wise_loader': n,
                                           'classes_with_gaps': [ci.name for ci, _, _ in hits]})
    for ci, miss, owner in hits:
        rep.violation('HDF5-inherited-loader', ci.module, ci.name + '.__init__',
                      'not-restored:' + ','.join(miss),
                      '%s is loaded by from_hdf5 of %s, which restores attribute by attribute, but its '
                      'own __init__ binds %s (read by its other methods): a loaded %s lacks them '
                      '(AttributeError on use)' % (ci.name, owner, miss, ci.name),
                      ci.methods['__init__'].lineno)
    return n


# ------------------------------------------------------------------ HDF5-empty-safe (reductions)
def check_save_reductions(prog, rep):
    """save_hdf5 must work for every valid object.  A reduction without identity (np.max / np.min /
    max / min without `initial=` / `default=`) over a property that builds its list by looping over
    a slice-selected part of the per-bond data (`self._S[self.nontrivial_bonds]`: empty for a
    finite chain of one site, slice(1, L)) raises for such an object."""
    ct = prog.classtable()
    n = 0
    for ci in ct.all:
        f = ci.methods.get('save_hdf5')
        if f is None:
            continue
        for c in ast.walk(f):
            if not (isinstance(c, ast.Call) and unparse(c.func) in ('np.max', 'np.min', 'max', 'min',
                                                                     'np.amax', 'np.amin')
                    and len(c.args) == 1 and is_self_attr(c.args[0])):
                continue
            attr = c.args[0].attr
            prop = None
            for k in ci.mro:
                for st in k.node.body:
                    if isinstance(st, ast.FunctionDef) and st.name == attr and any(
                            unparse(d) == 'property' for d in st.decorator_list):
                        prop = prop or st
            if prop is None:
                continue
            sliced = any(isinstance(x, ast.For) and isinstance(x.iter, ast.Call) is False and
                         'nontrivial_bonds' in unparse(x.iter) for x in ast.walk(prop)) or any(
                isinstance(x, ast.For) and 'nontrivial_bonds' in unparse(x.iter)
                for x in ast.walk(prop))
            n += 1
            has_identity = any(k.arg in ('initial', 'default') for k in c.keywords)
            rep.instance('HDF5-empty-safe', {'class': ci.name, 'reduction': unparse(c)[:60],
                                             'over_slice_selected_list': sliced,
                                             'has_identity': has_identity})
            if sliced and not has_identity:
                rep.violation('HDF5-empty-safe', ci.module, ci.name + '.save_hdf5',
                              'reduction-of-empty:' + attr,
                              '`%s`: .%s lists the NON-TRIVIAL bonds only (none for a finite chain '
                              'of one site); the reduction has no identity and raises, such an '
                              'object cannot be saved' % (unparse(c)[:60], attr), c.lineno)
    return n


# ------------------------------------------------------------------ HDF5-no-overwrite
def check_loader_overwrite(prog, rep):
    """A from_hdf5 override that delegates to super().from_hdf5 receives an object whose saved
    attributes are restored.  Assigning one of THOSE attributes again from something that does not
    come out of the file (re-deriving it as __init__ would) discards the saved value: the loaded
    object then differs from the saved one whenever the attribute was changed after construction."""
    ct = prog.classtable()
    n = 0
    for ci in ct.all:
        lf = ci.methods.get('from_hdf5')
        if lf is None or not _calls_super(lf, 'from_hdf5'):
            continue
        # attributes (incl. property setters) stored by the loaders up the chain
        restored = {}
        cur = ci
        f = lf
        while True:
            o2, f2 = ct.resolve_method(cur, 'from_hdf5', after=cur)
            if f2 is None:
                break
            for st in ast.walk(f2):
                if isinstance(st, ast.Assign):
                    for t in st.targets:
                        if isinstance(t, ast.Attribute) and isinstance(t.value, ast.Name) and \
                                t.value.id in ('obj', 'res', 'self'):
                            if any(isinstance(c, ast.Call) and isinstance(c.func, ast.Attribute)
                                   and c.func.attr in ('load', 'get_attr') for c in ast.walk(st.value)):
                                restored.setdefault(t.attr, o2.name)
            if not _calls_super(f2, 'from_hdf5'):
                break
            cur = o2
        n += 1
        rep.instance('HDF5-no-overwrite', {'class': ci.name, 'restored_by_super': sorted(restored)})
        for st in ast.walk(lf):
            if not isinstance(st, ast.Assign):
                continue
            for t in st.targets:
                if isinstance(t, ast.Attribute) and isinstance(t.value, ast.Name) and \
                        t.value.id in ('obj', 'res') and t.attr in restored:
                    from_file = any(
                        isinstance(c, ast.Call) and isinstance(c.func, ast.Attribute) and
                        c.func.attr in ('load', 'get_attr') for c in ast.walk(st.value)) or \
                        'h5gr' in {x.id for x in ast.walk(st.value) if isinstance(x, ast.Name)}
                    if not from_file:
                        rep.violation(
                            'HDF5-no-overwrite', ci.module, ci.name + '.from_hdf5',
                            'overwrites:' + t.attr,
                            '`%s`: .%s was just restored from the file by %s.from_hdf5; deriving '
                            'it again discards the saved value (a value set after construction '
                            'is lost in the round trip)' % (unparse(st)[:70], t.attr,
                                                            restored[t.attr]), st.lineno)
    return n


# ------------------------------------------------------------------ HDF5-empty-safe
def check_loaded_array_ends(prog, rep):
    """HDF5-empty-safe: an array read back from the file may have zero rows (a leg without any
    block is a valid, saveable object). In LegCharge.from_hdf5 a single row of a loaded array
    (`X[-1, ..]`, `X[0, ..]`) is only read under a condition on its length / the block number;
    whole-column slices (`X[:, 1]`) are always safe."""
    from ..pattern import guards_of
    m = prog.module('tenpy/linalg/charges.py')
    n = 0
    for q in ('LegCharge.from_hdf5', 'LegPipe.from_hdf5'):
        f = m.func(q)
        loaded = {st.targets[0].id for st in stmts_of(f) if isinstance(st, ast.Assign) and isinstance(
            st.targets[0], ast.Name) and isinstance(st.value, ast.Call) and
            unparse(st.value.func).endswith('.load')}
        for x in ast.walk(f):
            if not (isinstance(x, ast.Subscript) and isinstance(x.ctx, ast.Load) and isinstance(
                    x.value, ast.Name) and x.value.id in loaded):
                continue
            first = x.slice.elts[0] if isinstance(x.slice, ast.Tuple) and x.slice.elts else x.slice
            if isinstance(first, ast.Slice):
                continue
            n += 1
            st = x
            while not isinstance(st, ast.stmt):
                st = parent(st)
            gs = [t for t, p, _ in guards_of(f, st)]
            ok = any(('block_number' in t or 'len(' in t or '.shape' in t) and
                     ('> 0' in t or '!= 0' in t or '>= 1' in t) for t in gs)
            rep.instance('HDF5-empty-safe', {'function': q, 'read': unparse(x)[:40], 'guarded': ok})
            if not ok:
                rep.violation('HDF5-empty-safe', m, q, 'row-of-loaded:' + unparse(x)[:30],
                              '`%s` reads one row of an array loaded from the file without a test '
                              'that it has rows: a leg without blocks (ind_len 0), which save_hdf5 '
                              'writes fine, raises IndexError when loaded' % unparse(x)[:40],
                              x.lineno)
    return n
