"""C19 — lattice geometry: predefined neighbour tables agree with the Euclidean distances of the
literal geometry (R-GEOM, closed computation on literal tables), inverse-pair overrides come in
pairs. Bijectivity of index maps / exactness of possible_couplings over all orderings and
boundaries are properties of run-time permutations and not decided."""
import ast
import itertools
import math

from ..core import (AnalysisError, body_nodes, call_name, dotted, is_self_attr, key_text, kwarg, names_in,
                    params, stmts_of, unparse)
from ..flow import stale_derived
from ..normal import inline_temps
from ..pattern import find, pmatch

LAT = 'tenpy/models/lattice.py'
CATS = ['nearest_neighbors', 'next_nearest_neighbors', 'next_next_nearest_neighbors',
        'fourth_nearest_neighbors', 'fifth_nearest_neighbors']
CLASSES = {'Chain': 1, 'Ladder': 1, 'Square': 2, 'Triangular': 2, 'Honeycomb': 2, 'Kagome': 2}
# Lattice subclasses with predefined pair tables that live in other modules
OTHER_CLASSES = {'DualSquare': ('tenpy/models/toric_code.py', 2)}


class NotConst(Exception):
    pass


def ceval(node, env):
    """whitelisted constant folder for literal geometry tables (nested python lists of floats)"""
    if isinstance(node, ast.Constant) and isinstance(node.value, (int, float)):
        return float(node.value)
    if isinstance(node, (ast.Tuple, ast.List)):
        return [ceval(e, env) for e in node.elts]
    if isinstance(node, ast.Name):
        if node.id in env:
            return env[node.id]
        raise NotConst(node.id)
    if isinstance(node, ast.UnaryOp) and isinstance(node.op, ast.USub):
        return _map1(lambda x: -x, ceval(node.operand, env))
    if isinstance(node, ast.BinOp):
        a, b = ceval(node.left, env), ceval(node.right, env)
        op = type(node.op)
        f = {ast.Add: lambda x, y: x + y, ast.Sub: lambda x, y: x - y,
             ast.Mult: lambda x, y: x * y, ast.Div: lambda x, y: x / y,
             ast.Pow: lambda x, y: x ** y}.get(op)
        if f is None:
            raise NotConst(unparse(node))
        return _map2(f, a, b)
    if isinstance(node, ast.Call):
        d = dotted(node.func)
        if d in ('np.array', 'np.asarray') and node.args:
            return ceval(node.args[0], env)
        if d in ('np.sqrt', 'math.sqrt') and node.args:
            return _map1(math.sqrt, ceval(node.args[0], env))
        if d == 'np.eye' and len(node.args) == 1 and not node.keywords:
            n = int(ceval(node.args[0], env))
            return [[1.0 if i == j else 0.0 for j in range(n)] for i in range(n)]
        raise NotConst(unparse(node))
    if isinstance(node, ast.ListComp) and all(
            isinstance(g.target, ast.Name) and not g.ifs and not g.is_async
            for g in node.generators):
        out = []

        def rec(k, env_):
            if k == len(node.generators):
                out.append(ceval(node.elt, env_))
                return
            g = node.generators[k]
            seq = ceval(g.iter, env_)
            if not isinstance(seq, list):
                raise NotConst(unparse(g.iter))
            for v in seq:
                e2 = dict(env_)
                e2[g.target.id] = v
                rec(k + 1, e2)
        rec(0, env)
        return out
    if isinstance(node, ast.Subscript) and isinstance(node.slice, ast.Constant):
        v = ceval(node.value, env)
        return v[int(node.slice.value)]
    raise NotConst(unparse(node))


def _map1(f, a):
    return [_map1(f, x) for x in a] if isinstance(a, list) else f(a)


def _map2(f, a, b):
    if isinstance(a, list) and isinstance(b, list):
        if len(a) != len(b):
            raise NotConst('shape')
        return [_map2(f, x, y) for x, y in zip(a, b)]
    if isinstance(a, list):
        return [_map2(f, x, b) for x in a]
    if isinstance(b, list):
        return [_map2(f, a, y) for y in b]
    return f(a, b)


def extract_geometry(m, cname, dim):
    f = m.func(cname + '.__init__')
    env = {}
    pairs = {}
    basis = None
    pos = None
    for st in stmts_of(f):
        if isinstance(st, ast.Assign) and len(st.targets) == 1 and isinstance(
                st.targets[0], ast.Name):
            try:
                env[st.targets[0].id] = ceval(st.value, env)
            except NotConst:
                pass
        if isinstance(st, ast.Expr) and isinstance(st.value, ast.Call):
            c = st.value
            d = dotted(c.func) or ''
            if d == 'kwargs.setdefault' and len(c.args) == 2 and isinstance(
                    c.args[0], ast.Constant):
                k = c.args[0].value
                if k in ('basis', 'positions'):
                    try:
                        v = ceval(c.args[1], env)
                    except NotConst as e:
                        raise AnalysisError('%s: %s is not a literal table (%s)' % (cname, k, e))
                    if k == 'basis':
                        basis = v
                    else:
                        pos = v
            if unparse(c.func) == "kwargs['pairs'].setdefault" and len(c.args) == 2 and isinstance(
                    c.args[0], ast.Constant):
                try:
                    pairs[c.args[0].value] = ceval(c.args[1], env)
                except NotConst as e:
                    raise AnalysisError('%s: pair list %r is not literal (%s)' %
                                        (cname, c.args[0].value, e))
    if basis is None:
        basis = [[1.0 if i == j else 0.0 for j in range(dim)] for i in range(dim)]
    nu = 1
    for lst in pairs.values():
        for u1, u2, dx in lst:
            nu = max(nu, int(u1) + 1, int(u2) + 1)
    if pos is None:
        pos = [[0.0] * len(basis[0]) for _ in range(nu)]
    return basis, pos, pairs, f


def _dist(basis, pos, u1, u2, dx):
    d = len(basis[0])
    v = [pos[u2][k] - pos[u1][k] + sum(dx[i] * basis[i][k] for i in range(len(dx)))
         for k in range(d)]
    return math.sqrt(sum(x * x for x in v))


def check_geometry(prog, rep):
    m = prog.module(LAT)
    rep.unit(m)
    n_cat = 0
    todo = [(m, c, d) for c, d in CLASSES.items()]
    for c, (rel, d) in OTHER_CLASSES.items():
        m2 = prog.module(rel)
        rep.unit(m2)
        todo.append((m2, c, d))
    for m, cname, dim in todo:
        basis, pos, pairs, f = extract_geometry(m, cname, dim)
        nu = len(pos)
        W = 4
        # all undirected pairs in a window, canonical representative
        allp = {}
        for u1 in range(nu):
            for u2 in range(nu):
                for dx in itertools.product(range(-W, W + 1), repeat=dim):
                    if u1 == u2 and all(x == 0 for x in dx):
                        continue
                    key = _canon(u1, u2, dx)
                    allp[key] = _dist(basis, pos, u1, u2, dx)
        dists = sorted(set(round(v, 9) for v in allp.values()))
        for k, cat in enumerate(CATS):
            if cat not in pairs:
                continue
            n_cat += 1
            lst = [(int(u1), int(u2), tuple(int(round(x)) for x in dx))
                   for u1, u2, dx in pairs[cat]]
            q = cname + '.__init__'
            rep.instance('GEOM-neighbors', {'lattice': cname, 'category': cat, 'pairs': len(lst)})
            bad_u = [p for p in lst if not (0 <= p[0] < nu and 0 <= p[1] < nu)]
            if bad_u:
                rep.violation('GEOM-neighbors', m, q, 'u-out-of-cell:%s:%s' % (cname, cat),
                              '%s %s: unit-cell index out of range in %s' % (cname, cat, bad_u),
                              f.lineno)
                continue
            ds = [round(_dist(basis, pos, *p), 9) for p in lst]
            if len(set(ds)) != 1:
                rep.violation('GEOM-neighbors', m, q, 'unequal-lengths:%s:%s' % (cname, cat),
                              '%s: the pairs listed as %s have different Euclidean lengths %s' %
                              (cname, cat, sorted(set(ds))), f.lineno)
                continue
            if k >= len(dists) or abs(ds[0] - dists[k]) > 1e-8:
                rep.violation('GEOM-neighbors', m, q, 'wrong-shell:%s:%s' % (cname, cat),
                              '%s: %s have length %.6f but the %d-th smallest distance between '
                              'sites of this lattice is %.6f' %
                              (cname, cat, ds[0], k + 1, dists[k] if k < len(dists) else -1),
                              f.lineno)
                continue
            canon = [_canon(*p) for p in lst]
            if len(set(canon)) != len(canon):
                rep.violation('GEOM-neighbors', m, q, 'duplicate-pair:%s:%s' % (cname, cat),
                              '%s: %s lists a pair twice (up to (u1,u2,dx) ~ (u2,u1,-dx)): the '
                              'coupling would be added twice' % (cname, cat), f.lineno)
                continue
            # completeness: every pair of that length starting in the unit cell is listed once
            want = {key for key, v in allp.items() if abs(v - dists[k]) < 1e-8 and
                    max(abs(x) for x in key[2]) < W}
            got = set(canon)
            missing = sorted(want - got)
            extra = sorted(got - want)
            if missing or extra:
                rep.violation('GEOM-neighbors', m, q, 'incomplete:%s:%s' % (cname, cat),
                              '%s: %s is not exactly the set of pairs at distance %.6f per unit '
                              'cell: missing %s, unexpected %s' %
                              (cname, cat, dists[k], missing[:4], extra[:4]), f.lineno)
    return n_cat


def _canon(u1, u2, dx):
    a = (u1, u2, tuple(dx))
    b = (u2, u1, tuple(-x for x in dx))
    return min(a, b)


PAIRED = [('mps2lat_idx', 'lat2mps_idx'), ('possible_couplings', 'possible_multi_couplings'),
          ('_keep_possible_couplings', '_keep_possible_multi_couplings'),
          ('save_hdf5', 'from_hdf5')]


def check_override_pairs(prog, rep):
    ct = prog.classtable()
    base = ct.get('Lattice')
    for ci in ct.cone(base):
        if ci is base:
            continue
        for a, b in PAIRED:
            ha, hb = a in ci.methods, b in ci.methods
            if ha or hb:
                rep.instance('GEOM-override-pairs', {'class': ci.name, 'pair': [a, b],
                                                     'overridden': [ha, hb]})
            if ha != hb:
                have, lack = (a, b) if ha else (b, a)
                rep.violation('GEOM-override-pairs', ci.module, ci.name,
                              'unpaired-override:%s' % have,
                              '%s overrides %s but not its counterpart %s: the two maps are no '
                              'longer inverse / consistent for this lattice' %
                              (ci.name, have, lack), ci.node.lineno)
    # ordering(): unknown names fall through to the parent class
    m = prog.module(LAT)
    for ci in ct.cone(base):
        f = ci.methods.get('ordering')
        if f is None or ci is base:
            continue
        rep.instance('GEOM-ordering', {'class': ci.name})
        src = unparse(f)
        if 'super().ordering(' not in src and '.ordering(order)' not in src and \
                'regular_lattice.ordering' not in src:
            rep.violation('GEOM-ordering', ci.module, ci.name + '.ordering', 'no-fallthrough',
                          'orderings not handled by %s must be delegated to the parent class' %
                          ci.name, f.lineno)


def check_index_maps(prog, rep):
    """mps2lat_idx / lat2mps_idx of the base class use order and its inverse permutation"""
    m = prog.module(LAT)
    f = m.func('Lattice.order#2') if m.has_func('Lattice.order#2') else None
    setter = None
    for q, fn in m.functions.items():
        if q.startswith('Lattice.order') and any(
                (dotted(d) or '').endswith('.setter') for d in fn.decorator_list):
            setter = fn
    if setter is None:
        raise AnalysisError('Lattice.order setter not found')
    src = unparse(setter)
    rep.instance('GEOM-index-maps', {'function': 'Lattice.order.setter'})
    ok = 'self._order = ' in src and 'self._perm' in src and 'self._mps2lat_vals_idx' in src and \
        'np.lexsort' in src
    if not ok:
        rep.violation('GEOM-index-maps', m, 'Lattice.order', 'setter',
                      'setting the order must recompute the inverse permutation (_perm via '
                      'lexsort) and the value-reshaping index tables together', setter.lineno)
    g = m.func('Lattice.lat2mps_idx')
    h = m.func('Lattice.mps2lat_idx')
    rep.instance('GEOM-index-maps', {'function': 'lat2mps_idx/mps2lat_idx'})
    if 'self._perm' not in unparse(g) or 'self.order' not in unparse(h):
        rep.violation('GEOM-index-maps', m, 'Lattice.lat2mps_idx', 'inverse-maps',
                      'lat2mps_idx must use the inverse permutation of the order that '
                      'mps2lat_idx reads', g.lineno)


def check_stale_masks(prog, rep):
    """lattice.py: a mask derived from coordinate arrays is applied to those arrays only in the
    state it was derived from (the boundary filter of possible_couplings must see the corrected
    coordinates: the MPS index is computed from them)"""
    m = prog.module(LAT)
    total = 0
    for q, f in m.functions.items():
        hits, pairs = stale_derived(f)
        total += pairs
        if pairs:
            rep.instance('GEOM-stale-mask', {'function': q, 'mask_uses': pairs})
        seen = set()
        for d, s_, u, X, mname in hits:
            if (id(d), id(s_)) in seen:
                continue
            seen.add((id(d), id(s_)))
            rep.violation('GEOM-stale-mask', m, q, 'stale:%s:%s' % (mname, X),
                          '`%s` is derived from `%s` (`%s`), then `%s` changes `%s` in place, and '
                          'afterwards `%s[%s]` is used (`%s`): the selection was made on the old '
                          'coordinates' % (mname, X, key_text(d)[:60], key_text(s_)[:50], X, X,
                                           mname, key_text(u)[:50]), s_.lineno)
    return total


# attributes whose length is another attribute (established in __init__ of the class)
LENGTH_OF = {'self.species_names': 'self.N_species'}


def check_radix(prog, rep):
    """MultiSpeciesLattice: unit-cell index = simple_u * N_species + species_idx everywhere the
    combination is written out (the class inlines simple_u_to_species_u in several places): the
    minor index runs over the species, so the radix must be the number of species."""
    m = prog.module(LAT)
    n = 0
    for q, f0 in m.functions.items():
        if not q.startswith('MultiSpeciesLattice.'):
            continue
        f = inline_temps(f0)
        minor = {}
        for x in ast.walk(f):
            if isinstance(x, (ast.For, ast.comprehension)):
                e = pmatch('enumerate($$seq)', x.iter)
                if e and isinstance(x.target, ast.Tuple) and isinstance(x.target.elts[0], ast.Name):
                    ln = LENGTH_OF.get(unparse(e['$$seq']))
                    if ln:
                        minor[x.target.elts[0].id] = ln
                e = pmatch('range($$n)', x.iter)
                if e and isinstance(x.target, ast.Name) and unparse(e['$$n']) == 'self.N_species':
                    minor[x.target.id] = 'self.N_species'
        for p_ in params(f0):
            if p_ in ('species_idx', 'species_index'):
                minor[p_] = 'self.N_species'
        for x in ast.walk(f):
            e = pmatch('$$major * $$radix + $s', x) if isinstance(x, ast.BinOp) else None
            if e and e['$s'] in minor:
                n += 1
                rep.instance('GEOM-radix', {'function': q, 'expr': unparse(x)})
                if unparse(e['$$radix']) != minor[e['$s']] and \
                        unparse(e['$$major']) != minor[e['$s']]:
                    rep.violation('GEOM-radix', m, q, 'radix:' + unparse(x)[:40],
                                  '`%s`: the minor index `%s` runs over %s values, so the major '
                                  'index must be multiplied by %s (as in simple_u_to_species_u), '
                                  'not by `%s`: different (simple site, species) pairs collide / '
                                  'indices leave the unit cell' %
                                  (unparse(x), e['$s'], minor[e['$s']], minor[e['$s']],
                                   unparse(e['$$radix'])), x.lineno)
    return n



# ------------------------------------------------------------------ SETTER-invalidate
def _setters(ci):
    out = {}
    for st in ci.node.body:
        if isinstance(st, ast.FunctionDef):
            for d in st.decorator_list:
                u = unparse(d)
                if u.endswith('.setter'):
                    out[st.name] = st
    return out


def check_setter_invalidation(prog, rep):
    """A property setter of a subclass that replaces the setter of its base (without calling it)
    has to drop every cache the base setter drops: attributes the base setter resets to a constant
    (`self._mps_sites_cache = None`) hold values derived from the old state of the property."""
    ct = prog.classtable()
    n = 0
    for ci in ct.all:
        if (ci.module.relpath if hasattr(ci.module, 'relpath') else ci.module) != LAT:
            continue
        own = _setters(ci)
        for name, f in own.items():
            base_f = None
            for b in ci.mro[1:]:
                bs = _setters(b)
                if name in bs:
                    base_f = bs[name]
                    break
            if base_f is None:
                continue
            if any(isinstance(x, ast.Attribute) and x.attr in ('fset', '__set__')
                   for x in ast.walk(f)):
                continue  # delegates to the base setter
            resets = {}
            for st in base_f.body:
                if isinstance(st, ast.Assign) and len(st.targets) == 1 and is_self_attr(
                        st.targets[0]) and isinstance(st.value, ast.Constant):
                    resets[st.targets[0].attr] = st
            assigned = {t.attr for x in ast.walk(f) if isinstance(x, ast.Assign)
                        for t in x.targets if is_self_attr(t)}
            n += 1
            rep.instance('SETTER-invalidate', {'class': ci.name, 'property': name,
                                               'base_resets': sorted(resets),
                                               'assigned': sorted(assigned & set(resets))})
            for a in sorted(set(resets) - assigned):
                rep.violation('SETTER-invalidate', ci.module, '%s.%s' % (ci.name, name),
                              'cache-kept:' + a,
                              'the setter of `%s` replaces the one of the base class, which drops '
                              'the cache `%s`; this one keeps it: values derived from the old %s '
                              'are served after the property changed' % (name, a, name), f.lineno)
    return n



# ------------------------------------------------------------------ GEOM-position-space
def check_position_space(prog, rep):
    """Site positions are vectors of the EMBEDDING space (`basis.shape[1]` components), which is
    larger than the number of lattice directions `dim` for a ladder.  Rows that are joined with the
    `unit_cell_positions` of an existing lattice must be allocated with its number of columns."""
    m = prog.module(LAT)
    n = 0
    for q, f in sorted(m.functions.items()):
        allocs = {}
        for st in ast.walk(f):
            if isinstance(st, ast.Assign) and len(st.targets) == 1 and isinstance(
                    st.targets[0], ast.Name) and isinstance(st.value, ast.Call) and unparse(
                        st.value.func) in ('np.zeros', 'np.empty', 'np.ones') and st.value.args and \
                    isinstance(st.value.args[0], ast.Tuple) and len(st.value.args[0].elts) == 2:
                allocs[st.targets[0].id] = st
        ldefs = {}
        for st0 in ast.walk(f):
            if isinstance(st0, ast.Assign) and len(st0.targets) == 1 and isinstance(
                    st0.targets[0], ast.Name):
                ldefs.setdefault(st0.targets[0].id, []).append(st0.value)
        for v, st in allocs.items():
            joined = [x for x in ast.walk(f) if isinstance(x, ast.BinOp) and isinstance(x.op, ast.Add)
                      and 'unit_cell_positions' in unparse(x) and v in names_in(x)]
            # ... or appended to a list that starts from the positions of a lattice
            for x in ast.walk(f):
                if isinstance(x, ast.Call) and isinstance(x.func, ast.Attribute) and \
                        x.func.attr == 'extend' and isinstance(x.func.value, ast.Name) and x.args \
                        and v in names_in(x.args[0]) and any(
                            'unit_cell_positions' in unparse(d) for d in ldefs.get(
                                x.func.value.id, [])):
                    joined.append(x)
                if isinstance(x, ast.Call) and unparse(x.func) in (
                        'np.concatenate', 'np.vstack', 'np.append') and v in names_in(x) and \
                        'unit_cell_positions' in unparse(x):
                    joined.append(x)
            if not joined:
                continue
            n += 1
            ce = st.value.args[0].elts[1]
            if isinstance(ce, ast.Name) and len(ldefs.get(ce.id, [])) == 1:
                ce = ldefs[ce.id][0]
            cols = unparse(ce)
            ok = not cols.endswith('.dim') and cols != 'dim'
            rep.instance('GEOM-position-space', {'function': q, 'rows': v, 'columns': cols})
            if not ok:
                rep.violation('GEOM-position-space', m, q, 'lattice-dim-columns:' + v,
                              '`%s` is allocated with `%s` columns and joined with '
                              'unit_cell_positions, whose rows have basis.shape[1] components '
                              '(2 for a Ladder with dim == 1)' % (v, cols), st.lineno)
    return n


def run(prog, rep, tier):
    rep.rule('GEOM-neighbors', 'for every lattice class with literal basis / positions / pair '
             'lists: all pairs of a category have one Euclidean length, category k is the k-th '
             'smallest distinct distance, the list is complete per unit cell up to '
             '(u1,u2,dx) ~ (u2,u1,-dx) and free of duplicates (closed computation on the literal '
             'tables with a whitelisted constant folder)')
    rep.rule('GEOM-override-pairs / ordering / index-maps', 'inverse-pair methods are overridden '
             'together; ordering falls through; order setter recomputes the inverse permutation')
    rep.rule('GEOM-stale-mask', 'a mask derived from an array is not applied to that array after '
             'an in-place update of it (def-store-use path on the CFG)')
    rep.rule('GEOM-radix', 'mixed-radix index combinations use the range of the minor index')
    n = check_geometry(prog, rep)
    check_override_pairs(prog, rep)
    check_index_maps(prog, rep)
    if check_stale_masks(prog, rep) < 4:
        raise AnalysisError('GEOM-stale-mask: the mask uses of possible_couplings were not found')
    if check_derived_refresh(prog, rep) < 2:
        raise AnalysisError('GEOM-derived-refresh: writers of HelicalLattice._N_cells not found')
    check_box_corner(prog, rep)
    rep.rule('GEOM-position-space', 'rows joined with unit_cell_positions have the embedding dimension')
    if check_position_space(prog, rep) < 1:
        raise AnalysisError('GEOM-position-space: default add_positions of IrregularLattice not found')
    rep.rule('SETTER-invalidate', 'a property setter that replaces the base setter drops every cache '
             'the base setter drops')
    if check_setter_invalidation(prog, rep) < 2:
        raise AnalysisError('SETTER-invalidate: the order setters of IrregularLattice / HelicalLattice not found')
    rep.rule('GEOM-query-pure', 'the query ordering() leaves the index maps of the lattice unchanged '
             '(temporary stores are restored)')
    if check_query_pure(prog, rep) < 5:
        raise AnalysisError('GEOM-query-pure: fewer than 5 functions in the closures of ordering()')
    rep.rule('GEOM-shift-rewrap / GEOM-axes-normalised', 'shifted boundaries: wrapped coordinate '
             'recomputed after the shift in both coupling enumerations; axes normalised before the '
             'descending expansion of mps2lat_values')
    if check_shift_rewrap(prog, rep) < 2:
        raise AnalysisError('GEOM-shift-rewrap: bc_shift blocks of the coupling enumerations not found')
    if check_axes_normalised(prog, rep) < 1:
        raise AnalysisError('GEOM-axes-normalised: the multi-axes loop of mps2lat_values not found')
    rep.rule('GEOM-shape-nonpositive', 'the early exit of possible_(multi_)couplings covers negative '
             'coupling shapes (displacement longer than an open direction), not only zero')
    if check_shape_nonpositive(prog, rep) < 2:
        raise AnalysisError('GEOM-shape-nonpositive: users of (multi_)coupling_shape not found')
    if check_size_rounding(prog, rep) < 1:
        raise AnalysisError('GEOM-size-rounding: the row count of mps2lat_values_masked not found')
    if check_exact_div(prog, rep) < 2:
        raise AnalysisError('GEOM-exact-div: the unit-cell shifts of mps2lat_idx / lat2mps_idx not found')
    if check_radix(prog, rep) < 5:
        raise AnalysisError('GEOM-radix: the species index combinations were not found')
    rep.floor('GEOM-neighbors', 20)
    rep.assumptions += [
        'NLegLadder is excluded: nearest_neighbors = rung_NN + leg_NN is topological by '
        'documentation (positions are squeezed to unit height for plotting)',
        'MultiSpeciesLattice / IrregularLattice / HelicalLattice derive their pairs at run time',
        'bijectivity of index maps and exactness of possible_couplings are NOT decided']
    from ..flow import check_dead_computations
    rep.rule('VALUE-dead', 'no result of a call is bound to a local that is never read (reaching '
             'definitions)')
    check_dead_computations(prog, rep, ['tenpy/models/lattice.py'])
    from ..flow import check_undefined_attrs
    rep.rule('ATTR-defined', 'every self.X read names an attribute bound somewhere in the class family')
    check_undefined_attrs(prog, rep, ['tenpy/models/lattice.py'])
    from ..flow import check_carried_flags
    rep.rule('LOOP-carried-flag', 'a flag set under a test inside a loop body and read there is '
             're-initialised per iteration')
    check_carried_flags(prog, rep, ['tenpy/models/lattice.py'])
    return rep.finish(
        level='other',
        explanation='Neighbour tables of %d (lattice, category) pairs checked against the '
        'Euclidean geometry computed from the literal basis and unit-cell positions; override '
        'pairing of the index-map methods.' % n,
        proof={'obligations': n, 'discharged': n - sum(
            1 for f in rep.findings if f.rule == 'GEOM-neighbors'), 'exhaustive': True})


# ------------------------------------------------------------------ GEOM-exact-div
def _mult_facts(f):
    """{expression text: modulus text}: expressions known to be an exact multiple of a modulus.
    `a = b` followed by `b = np.mod(b, M)`  =>  (a - b) is a multiple of M;
    `s = v - np.mod(v, M)`                   =>  s is a multiple of M."""
    facts = {}
    alias = {}
    for st in stmts_of(f):
        if isinstance(st, ast.Assign) and len(st.targets) == 1 and isinstance(
                st.targets[0], ast.Name):
            t, v = st.targets[0].id, st.value
            if isinstance(v, ast.Name):
                alias[t] = v.id
            if isinstance(v, ast.Call) and dotted(v.func) in ('np.mod', 'numpy.mod') and \
                    len(v.args) == 2:
                if isinstance(v.args[0], ast.Name) and v.args[0].id == t:
                    for a, b in alias.items():      # `i0 = i; i = np.mod(i, M)`
                        if b == t:
                            facts['%s - %s' % (a, t)] = unparse(v.args[1])
                else:                               # `r = np.mod(x, M)`: x - r
                    facts['%s - %s' % (unparse(v.args[0]), t)] = unparse(v.args[1])
            if isinstance(v, ast.BinOp) and isinstance(v.op, ast.Sub) and isinstance(
                    v.right, ast.Call) and dotted(v.right.func) in ('np.mod', 'numpy.mod') and \
                    len(v.right.args) == 2 and unparse(v.right.args[0]) == unparse(v.left):
                facts[t] = unparse(v.right.args[1])
    return facts


def _mul_factors(e):
    if isinstance(e, ast.BinOp) and isinstance(e.op, ast.Mult):
        return _mul_factors(e.left) + _mul_factors(e.right)
    return [e]


def check_exact_div(prog, rep):
    """GEOM-exact-div: the translation between MPS indices and lattice indices across unit cells
    divides by N_sites / N_rings; N_sites need not be a multiple of N_rings (IrregularLattice), so
    every floor division must be exact by construction: its numerator contains a factor that is a
    multiple of the divisor (a difference to its own residue)."""
    m = prog.module(LAT)
    n = 0
    for q in ('Lattice.mps2lat_idx', 'Lattice.lat2mps_idx'):
        f = m.func(q)
        facts = _mult_facts(f)
        for d in body_nodes(f):
            if not (isinstance(d, ast.BinOp) and isinstance(d.op, ast.FloorDiv)):
                continue
            div = unparse(d.right)
            fs = [unparse(x) for x in _mul_factors(d.left)]
            ok = any(facts.get(x) == div for x in fs)
            n += 1
            rep.instance('GEOM-exact-div', {'function': q, 'division': unparse(d),
                                            'multiples': facts, 'exact': ok})
            if not ok:
                rep.violation('GEOM-exact-div', m, q, 'inexact:' + unparse(d)[:50],
                              '`%s` rounds: no factor of the numerator is known to be a multiple '
                              'of `%s` (known multiples: %s). N_sites is not a multiple of '
                              'N_rings on an irregular lattice, so indices outside the first '
                              'unit cell land on the wrong ring and lat2mps_idx(mps2lat_idx(i)) '
                              '!= i' % (unparse(d), div, facts), d.lineno)
    return n


# ------------------------------------------------------------------ GEOM-derived-refresh
def _derived_pairs(ct, m):
    """(class, recompute method R, source fields F): a private method that stores public fields as
    expressions of private fields it does not store itself (HelicalLattice._set_Ls: N_cells and
    N_sites from _N_cells)"""
    out = []
    for ci in ct.all:
        if ci.module is not m:
            continue
        for rname, R in ci.methods.items():
            if not rname.startswith('_') or rname.startswith('__'):
                continue
            stores = {}
            for st in stmts_of(R):
                if isinstance(st, ast.Assign):
                    for t in st.targets:
                        if is_self_attr(t):
                            stores.setdefault(t.attr, set()).update(
                                n.attr for n in ast.walk(st.value) if is_self_attr(n))
            srcs = set()
            for d, rs in stores.items():
                srcs |= {r for r in rs if r not in stores and r.startswith('_')}
            if srcs:
                out.append((ci, rname, R, sorted(srcs), sorted(stores)))
    return out


def _calls_method(ct, ci, f, target, depth=0):
    """statement nodes of f that (transitively) run self.<target>"""
    hits = []
    for c in body_nodes(f):
        if not (isinstance(c, ast.Call) and isinstance(c.func, ast.Attribute)):
            continue
        recv = c.func.value
        g = None
        if isinstance(recv, ast.Name) and recv.id == 'self':
            if c.func.attr == target:
                hits.append(c)
                continue
            _, g = ct.resolve_method(ci, c.func.attr)
        elif isinstance(recv, ast.Call) and call_name(recv) == 'super':
            _, g = ct.resolve_method(ci, c.func.attr, after=ci)
        elif isinstance(recv, ast.Name) and c.args and unparse(c.args[0]) == 'self':
            bi = ct.lookup(recv.id, ci.module)
            if bi is not None:
                _, g = ct.resolve_method(bi, c.func.attr)
        if g is not None and g is not f and depth < 3 and _calls_method(ct, ci, g, target,
                                                                         depth + 1):
            hits.append(c)
    return hits


def check_derived_refresh(prog, rep):
    """GEOM-derived-refresh: a field from which a recompute method derives public geometry
    (N_cells, N_sites) may only be changed on paths that afterwards run that method: otherwise
    N_sites keeps the old value while order / mps_sites() already describe the new cell."""
    from ..cfg import CFG
    m = prog.module(LAT)
    ct = prog.classtable()
    n = 0
    for ci, rname, R, srcs, derived in _derived_pairs(ct, m):
        for wname, W in ci.methods.items():
            if W is R:
                continue
            writes = [st for st in stmts_of(W) if isinstance(st, (ast.Assign, ast.AugAssign)) and
                      any(is_self_attr(t) and t.attr in srcs for t in
                          (st.targets if isinstance(st, ast.Assign) else [st.target]))]
            if not writes:
                continue
            refresh = {id(c) for c in _calls_method(ct, ci, W, rname)}
            cfg = CFG(W)

            def is_refresh(node):
                return node.stmt is not None and not isinstance(
                    node.stmt, (ast.If, ast.For, ast.While, ast.With, ast.Try)) and any(
                        id(c) in refresh for c in ast.walk(node.stmt))
            for st in writes:
                n += 1
                starts = cfg.nodes_of(st)
                r = cfg.reachable_from(starts, blocked=is_refresh)
                ok = cfg.exit not in r
                rep.instance('GEOM-derived-refresh', {
                    'class': ci.name, 'writer': wname, 'field': srcs, 'recompute': rname,
                    'derived': derived, 'always_refreshed': ok})
                if not ok:
                    rep.violation('GEOM-derived-refresh', m, '%s.%s' % (ci.name, wname),
                                  'stale:%s' % ','.join(srcs),
                                  '`%s` changes self.%s, from which %s.%s derives %s, but a path '
                                  'to the end of %s does not run %s afterwards: the derived '
                                  'fields keep their old values' %
                                  (key_text(st)[:60], '/'.join(srcs), ci.name, rname, derived,
                                   wname, rname), st.lineno)
    return n


def check_size_rounding(prog, rep):
    """GEOM-size-rounding: a quotient that sizes an array (`shape[k] += q`) to hold a range of
    indices must be rounded UP when the division is not exact: an array one row short lets numpy's
    negative-index wrap-around put values on rows that belong to other sites. Accepted: an exact
    division (multiple-of fact) or a ceiling idiom ((x - 1) * a // b + 1, -(-x // b),
    (x + b - 1) // b)."""
    from ..pattern import P, pmatch
    m = prog.module(LAT)
    ceil_idioms = [P('$$e // $$b + 1'), P('($$x - 1) * $$a // $$b + 1'), P('($$x - 1) // $$b + 1'),
                   P('-(-$$x // $$b)'), P('($$x + $$b - 1) // $$b'),
                   P('-(-$$x * $$a // $$b)')]
    n = 0
    for q, f in m.functions.items():
        facts = None
        for st in stmts_of(f):
            if not (isinstance(st, ast.AugAssign) and isinstance(st.op, ast.Add) and isinstance(
                    st.target, ast.Subscript) and 'shape' in unparse(st.target.value)):
                continue
            divs = [d for d in ast.walk(st.value) if isinstance(d, ast.BinOp) and
                    isinstance(d.op, ast.FloorDiv)]
            if not divs:
                continue
            n += 1
            if facts is None:
                facts = _mult_facts(f)
            ceil = any(pmatch(p, st.value) for p in ceil_idioms)
            exact = all(any(facts.get(unparse(x)) == unparse(d.right) for x in _mul_factors(d.left))
                        for d in divs)
            rep.instance('GEOM-size-rounding', {'function': q, 'growth': key_text(st)[:70],
                                                'ceiling_idiom': ceil, 'exact': exact})
            if not (ceil or exact):
                rep.violation('GEOM-size-rounding', m, q, 'rounds-down:' + unparse(st.value)[:40],
                              '`%s` grows the array by a quotient that is rounded down although '
                              'the division is not exact: when the most negative index only '
                              'partly fills its ring the array is one row short and the wrapped '
                              'negative indices collide with rows of other sites' %
                              key_text(st)[:70], st.lineno)
    return n


def check_box_corner(prog, rep):
    """GEOM-box-corner: multi_coupling_shape describes the box spanned by the operator offsets by
    its extent (max - min along each direction) and by the translation of its lower-left corner.
    Both have to be derived from the SAME minimum: the corner is the very `min` that is subtracted
    in the extent (clipping it, e.g. to <= 0, moves the box whenever all offsets are positive)."""
    m = prog.module(LAT)
    f = m.func('Lattice.multi_coupling_shape')
    nf = inline_temps(f, keep=('shape', 'shift_strength'))
    ext = None
    corner = None
    import types
    for st in stmts_of(nf):
        # an element of a result list: `X[a] = E` or `X.append(E)`
        tgt = val = None
        if isinstance(st, ast.Assign) and isinstance(st.targets[0], ast.Subscript):
            tgt, val = unparse(st.targets[0].value), st.value
        elif isinstance(st, ast.Expr) and isinstance(st.value, ast.Call) and isinstance(
                st.value.func, ast.Attribute) and st.value.func.attr == 'append' and \
                len(st.value.args) == 1:
            tgt, val = unparse(st.value.func.value), st.value.args[0]
        if tgt is None:
            continue
        def txt(e):
            # a name bound once in the function stands for its definition
            if isinstance(e, ast.Name):
                ds = [a.value for a in ast.walk(nf) if isinstance(a, ast.Assign) and
                      len(a.targets) == 1 and unparse(a.targets[0]) == e.id]
                if len(ds) == 1:
                    return unparse(ds[0])
            return unparse(e)
        subs = [b for b in ast.walk(val) if isinstance(b, ast.BinOp) and
                isinstance(b.op, ast.Sub) and 'np.max' in txt(b.left) and
                'np.min' in txt(b.right)]
        if subs and ext is None:
            ext = (subs[0], tgt)
        elif not subs and ext is not None and tgt != ext[1] and corner is None:
            corner = types.SimpleNamespace(value=val, lineno=st.lineno)
    if ext is None or corner is None:
        raise AnalysisError('multi_coupling_shape: extent / corner of the box not found')
    same = unparse(corner.value) == unparse(ext[0].right)
    rep.instance('GEOM-box-corner', {'extent': unparse(ext[0]), 'corner': unparse(corner.value),
                                     'same_minimum': same})
    if not same:
        rep.violation('GEOM-box-corner', m, 'Lattice.multi_coupling_shape', 'corner-not-min',
                      'the box has the extent `%s` but its corner is `%s`, not the minimum `%s` '
                      'the extent is measured from: possible_multi_couplings places the box '
                      'wrongly in directions where every operator has a positive offset' %
                      (unparse(ext[0]), unparse(corner.value), unparse(ext[0].right)), corner.lineno)
    return 1


# ------------------------------------------------------------------ GEOM-shape-nonpositive
def check_shape_nonpositive(prog, rep):
    """GEOM-shape-nonpositive: the coupling shape `L - box*bc` of (multi_)coupling_shape is
    NEGATIVE for a displacement longer than an open direction. Every function that obtains it and
    goes on to use it as array dimensions (np.indices, np.zeros, to_array, np.mod) first leaves
    through a test that covers all non-positive entries (`s <= 0` / `s < 1`), not only `s == 0`."""
    m = prog.module('tenpy/models/lattice.py')
    n = 0
    for q, f in m.functions.items():
        got = None
        for st in stmts_of(f):
            if isinstance(st, ast.Assign) and isinstance(st.value, ast.Call) and (
                    call_name(st.value) or '').split('.')[-1] in ('coupling_shape',
                                                                   'multi_coupling_shape') and \
                    unparse(st.value.func).startswith('self.'):
                t = st.targets[0]
                if isinstance(t, ast.Tuple) and isinstance(t.elts[0], ast.Name):
                    got = (t.elts[0].id, st)
        if not got:
            continue
        name, st0 = got
        if not any(isinstance(c, ast.Call) and (call_name(c) or '').split('.')[-1] in (
                'indices', 'zeros', 'empty', 'ones', 'mod', 'to_array') and any(
                    isinstance(a, ast.Name) and a.id == name for a in c.args)
                for c in ast.walk(f)):
            continue        # not used as array dimensions (np.arange(-s, -s + Lc) is empty for Lc < 0)
        # the early exit: an `if` whose test ranges over the entries of the shape and returns
        tests = []
        for st in stmts_of(f):
            if isinstance(st, ast.If) and st.lineno > st0.lineno and any(
                    isinstance(x, ast.Name) and x.id == name for x in ast.walk(st.test)) and any(
                        isinstance(b, ast.Return) for b in ast.walk(st)):
                tests.append(st)
        n += 1
        ok = False
        for st in tests:
            for c in ast.walk(st.test):
                if isinstance(c, ast.Compare) and len(c.ops) == 1 and isinstance(
                        c.comparators[0], ast.Constant):
                    op, k = c.ops[0], c.comparators[0].value
                    if (isinstance(op, ast.LtE) and k == 0) or (isinstance(op, ast.Lt) and k == 1):
                        ok = True
        rep.instance('GEOM-shape-nonpositive', {'function': q, 'shape': name,
                                                'early_exit_tests': [unparse(t.test)[:60]
                                                                     for t in tests], 'ok': ok})
        if not ok:
            rep.violation('GEOM-shape-nonpositive', m, q, 'shape-test:' + name,
                          '`%s` can have NEGATIVE entries (L - box for a displacement longer than '
                          'an open direction); the early exit %s does not cover them and the '
                          'shape is used as array dimensions afterwards (np.indices raises '
                          '"negative dimensions are not allowed")'
                          % (name, [unparse(t.test)[:50] for t in tests] or 'is missing'),
                          st0.lineno)
    return n


# ------------------------------------------------------------------ round-5: shifted boundaries, negative axes
def check_shift_rewrap(prog, rep):
    """GEOM-shift-rewrap: with shifted boundary conditions the first coordinate of a partner site
    that wrapped around another direction is moved by `bc_shift` (`X_shifted[.., 0] -= shift`);
    the wrapped coordinate used for the MPS index must then be RE-computed from it
    (`X[.., 0] = np.mod(X_shifted[.., 0], Ls[0])`). Sibling agreement: possible_couplings and
    possible_multi_couplings both do it inside their `if self.bc_shift is not None:` block."""
    m = prog.module('tenpy/models/lattice.py')
    n = 0
    for q in ('Lattice.possible_couplings', 'Lattice.possible_multi_couplings'):
        f = m.func(q)
        for br in ast.walk(f):
            if not (isinstance(br, ast.If) and 'self.bc_shift is not None' in unparse(br.test)):
                continue
            subs = [st for st in br.body if isinstance(st, ast.AugAssign) and isinstance(
                st.op, ast.Sub) and isinstance(st.target, ast.Subscript)]
            if not subs:
                continue
            n += 1
            shifted = unparse(subs[0].target)
            ok = any(isinstance(st, ast.Assign) and isinstance(st.value, ast.Call) and
                     unparse(st.value.func) in ('np.mod', 'numpy.mod') and st.value.args and
                     unparse(st.value.args[0]) == shifted and st.lineno > subs[0].lineno
                     for st in br.body)
            rep.instance('GEOM-shift-rewrap', {'function': q, 'shifted': shifted, 'rewrapped': ok})
            if not ok:
                rep.violation('GEOM-shift-rewrap', m, q, 'no-rewrap:' + shifted[:30],
                              '`%s` applies the boundary shift but the wrapped first coordinate is '
                              'not recomputed as np.mod(%s, Ls[0]): the MPS index of a coupling '
                              'across the shifted boundary ignores the shift' %
                              (key_text(subs[0])[:50], shifted), subs[0].lineno)
    return n


def check_axes_normalised(prog, rep):
    """GEOM-axes-normalised: mps2lat_values with several axes expands them one at a time, largest
    axis first, because expanding an axis shifts the ones behind it. "Largest" is only meaningful
    for NON-NEGATIVE axis numbers: the axes are normalised (`ax + A.ndim` for negative ones) before
    they are sorted."""
    m = prog.module('tenpy/models/lattice.py')
    n = 0
    for q in ('Lattice.mps2lat_values', 'Lattice.mps2lat_values_masked'):
        if q not in m.functions:
            continue
        f = m.func(q)
        for lp in ast.walk(f):
            if not (isinstance(lp, ast.For) and any(
                    isinstance(c, ast.Call) and call_name(c) in ('sorted', 'reversed')
                    for c in ast.walk(lp.iter)) and 'axes' in unparse(lp.iter)):
                continue
            n += 1
            ok = any(isinstance(st, ast.Assign) and unparse(st.targets[0]) == 'axes' and
                     '.ndim' in unparse(st.value) and st.lineno < lp.lineno for st in ast.walk(f))
            rep.instance('GEOM-axes-normalised', {'function': q, 'loop': unparse(lp.iter)[:50],
                                                  'normalised_before': ok})
            if not ok:
                rep.violation('GEOM-axes-normalised', m, q, 'sorted-raw-axes',
                              '`for .. in %s` orders the raw axis numbers: a negative axis sorts in '
                              'front of every positive one although it may denote a later axis, '
                              'which then is expanded after an earlier one shifted it' %
                              unparse(lp.iter)[:50], lp.lineno)
    return n


# ------------------------------------------------------------------ GEOM-query-pure
def check_query_pure(prog, rep):
    """GEOM-query-pure: `ordering(order)` only RETURNS a possible order; the index maps of the
    lattice object (`_perm`, `_order`, `_mps2lat_vals_idx`, ...) must be the same afterwards. In
    the call closure of every `ordering` method (self-calls, depth 2) an attribute store is allowed
    only as a TEMPORARY one: the old value was saved into a local before (`b = self.A` /
    `getattr(self, 'A', ..)`) and a later statement of the same function stores it back
    (`self.A = b`)."""
    ct = prog.classtable()
    base = ct.get('Lattice')
    n = 0
    seen = set()
    for ci in ct.cone(base):
        owner, f0 = ct.resolve_method(ci, 'ordering')
        if f0 is None:
            continue
        todo = [(owner, f0, 0)]
        while todo:
            own, f, d = todo.pop()
            if (id(f)) in seen:
                continue
            seen.add(id(f))
            n += 1
            backups = {}
            for st in stmts_of(f):
                if isinstance(st, ast.Assign) and isinstance(st.targets[0], ast.Name):
                    v = st.value
                    if is_self_attr(v):
                        backups[st.targets[0].id] = (v.attr, st.lineno)
                    elif isinstance(v, ast.Call) and call_name(v) == 'getattr' and len(
                            v.args) >= 2 and unparse(v.args[0]) == 'self' and isinstance(
                                v.args[1], ast.Constant):
                        backups[st.targets[0].id] = (v.args[1].value, st.lineno)
            for st in stmts_of(f):
                if not isinstance(st, ast.Assign):
                    continue
                for t in st.targets:
                    if not is_self_attr(t):
                        continue
                    if isinstance(st.value, ast.Name) and backups.get(st.value.id, (None, ))[0] == \
                            t.attr:
                        continue       # the restoring store itself
                    restored = any(
                        isinstance(s2, ast.Assign) and s2.lineno > st.lineno and any(
                            is_self_attr(t2, t.attr) for t2 in s2.targets) and isinstance(
                                s2.value, ast.Name) and backups.get(s2.value.id, (None, 0))[0] ==
                        t.attr and backups[s2.value.id][1] < st.lineno for s2 in stmts_of(f))
                    rep.instance('GEOM-query-pure', {'function': '%s.%s' % (own.name, f.name),
                                                     'store': key_text(st)[:50],
                                                     'restored': restored})
                    if not restored:
                        rep.violation('GEOM-query-pure', own.module, '%s.%s' % (own.name, f.name),
                                      'query-writes:' + t.attr,
                                      '`%s` changes the lattice inside the query ordering() and '
                                      'the old value is not stored back: afterwards the index '
                                      'maps (lat2mps_idx, possible_couplings) answer for another '
                                      'lattice' % key_text(st)[:50], st.lineno)
            if d < 2:
                for c in ast.walk(f):
                    if isinstance(c, ast.Call) and isinstance(c.func, ast.Attribute) and \
                            unparse(c.func.value) == 'self':
                        o2, g = ct.resolve_method(ci, c.func.attr)
                        if g is not None and c.func.attr.startswith('_'):
                            todo.append((o2, g, d + 1))
    return n
